"""C20 -- rasterisation marks the covered bins on the template's axes (R20.1 - R20.5)."""

from __future__ import annotations

from sa.peval import peval
from sa.report import Ctx
from sa.sym import callkw, FALSE, NONE, NOT, Summary, bind_args, conjuncts, show, subst, walk

OPS = "soundevent.geometry.operations"
DIMS = "soundevent.arrays.dimensions"
CONV = "soundevent.geometry.conversion"

EXPLANATION = (
    "Static decision of the structural clauses of rasterize: R20.1 shape provenance: the out_shape handed to "
    "rasterio is classified NAMED (built from the sizes of the named dimensions, rows = ydim, columns = xdim, hence "
    "independent of the template's dimension order) or POSITIONAL (array.shape and the like, which silently assumes "
    "the template is laid out (ydim, xdim)); R20.2 the output is labelled (xdim, ydim) with the matching transpose and "
    "the template's own coordinates; R20.3 a scalar value is broadcast and a length mismatch rejected; R20.4 inside the "
    "coordinate transform x is mapped through the xdim axis and y through the ydim axis, clamping (raise_error=False); "
    "R20.5 shapes are burnt in input order paired with their values, and fill / dtype / all_touched are forwarded. "
    "Which cells rasterio marks is trusted / not decided."
    "R20.3 / R20.5 are decided on the element-wise view of the shapes list (element i and length of any chain of comprehensions, zips, repetitions); R20.6 also rejects a component order that follows the template's own dimension order. "
)
ASSUMPTIONS = ["rasterio.features.rasterize(shapes, out_shape=(rows, cols)) maps x to columns and y to rows; later shapes overwrite earlier (trusted)"]


class C20:
    def __init__(self, ctx: Ctx):
        self.ctx = ctx
        self.s = ctx.summ.of_func(OPS, "rasterize")
        self.file = self.s.module.relpath

    def run(self):
        ctx, s = self.ctx, self.s
        site = f"{self.file}:{s.node.lineno} rasterize"
        geoms, arr, values = ("param", "geometries"), ("param", "array"), ("param", "values")
        xdim, ydim = ("param", "xdim"), ("param", "ydim")
        rc = [e for e in s.calls if e.term[0] == "call" and isinstance(e.term[1], tuple) and e.term[1][0] == "ext" and e.term[1][1].endswith("features.rasterize")]
        if len(rc) != 1:
            ctx.undec("R20.1", site, f"{len(rc)} rasterio rasterize calls")
            return
        call = rc[0]
        kw = callkw(call.term)
        args = list(call.term[2])
        # rasterio.features.rasterize(shapes, out_shape=None, fill=0, out=None, transform=IDENTITY, all_touched=False, merge_alg=...,
        # default_value=1, dtype=None, skip_invalid=True): positional arguments bind in this order
        RASTERIO = ("shapes", "out_shape", "fill", "out", "transform", "all_touched", "merge_alg", "default_value", "dtype", "skip_invalid")
        for n_, a_ in zip(RASTERIO, args):
            if a_[0] != "star":
                kw.setdefault(n_, a_)
        shapes = kw.get("shapes")
        out_shape = kw.get("out_shape")

        # ---- R20.1
        def size_of(dim):
            return [("sub", ("attr", arr, "sizes"), dim), ("call", ("builtin", "len"), (("sub", ("attr", arr, "coords"), dim),), ()),
                    ("call", ("builtin", "len"), (("sub", arr, dim),), ()), ("attr", ("sub", ("attr", arr, "coords"), dim), "size"),
                    ("attr", ("sub", arr, dim), "size"), ("sub", ("attr", ("sub", arr, dim), "shape"), ("const", 0))]

        positional = [("attr", arr, "shape"), ("attr", ("attr", arr, "data"), "shape"), ("attr", ("attr", arr, "values"), "shape")]
        transposed = [("attr", ("call", ("attr", arr, "transpose"), (ydim, xdim), ()), "shape")]
        if out_shape is None:
            ctx.undec("R20.1", site, "out_shape argument not found")
        elif out_shape[0] == "tuple" and len(out_shape[1]) == 2 and out_shape[1][0] in size_of(ydim) and out_shape[1][1] in size_of(xdim):
            ctx.ok("R20.1", f"{self.file}:{call.lineno} rasterize", f"NAMED shape (rows=sizes[ydim], cols=sizes[xdim]): {show(out_shape)[:60]}")
        elif out_shape in transposed:
            ctx.ok("R20.1", f"{self.file}:{call.lineno} rasterize", "NAMED shape via transpose(ydim, xdim).shape")
        elif out_shape[0] == "tuple" and len(out_shape[1]) == 2 and out_shape[1][0] in size_of(xdim) and out_shape[1][1] in size_of(ydim):
            ctx.bad("R20.1", self.file, "rasterize", f"out_shape={show(out_shape)[:60]}",
                    "the raster is allocated as (size of xdim, size of ydim): rasterio expects (rows = y, columns = x), so for a "
                    "non-square template the burnt shapes are clipped / the transpose does not fit the coordinates", call.lineno,
                    witness={"template": "dims (frequency, time), sizes 8 x 5"})
        elif out_shape in positional:
            ctx.bad("R20.1", self.file, "rasterize", f"out_shape={show(out_shape)} (positional shape of the template)",
                    "the raster's shape is taken from the template's positional shape, which is (rows=ydim, cols=xdim) only when the "
                    "template happens to be laid out (ydim, xdim): for a template whose dimensions are ordered (xdim, ydim) with "
                    "different sizes the transposed raster does not fit the coordinates (size conflict error); square templates "
                    "silently work", call.lineno, witness={"template": "dims (time, frequency), sizes 5 x 8", "observed": "conflicting sizes for dimension"})
        else:
            ctx.undec("R20.1", site, f"cannot classify the provenance of out_shape = {show(out_shape)[:60]}")

        # ---- R20.2 output labelling
        da = [x for r in s.returns for x in [r.term] if x[0] == "call" and x[1] == ("ext", "xarray.DataArray")]
        if len(da) != 1:
            ctx.undec("R20.2", site, "returned xr.DataArray(...) not found")
        else:
            k = callkw(da[0])
            data, dims, coords = k.get("data", da[0][2][0] if da[0][2] else None), k.get("dims"), k.get("coords")
            rast = call.term
            tr = ("attr", rast, "T")
            tr2 = ("call", ("attr", rast, "transpose"), (), ())
            tr3 = ("call", ("ext", "numpy.transpose"), (rast,), ())
            if dims is not None and dims[0] == "list":
                dims = ("tuple", dims[1])  # dims=[xdim, ydim]: the same labels
            good = (data in (tr, tr2, tr3) and dims == ("tuple", (xdim, ydim))) or (data == rast and dims == ("tuple", (ydim, xdim)))
            cgood = coords is not None and coords[0] == "dict" and dict(coords[1]) == {xdim: ("sub", ("attr", arr, "coords"), xdim), ydim: ("sub", ("attr", arr, "coords"), ydim)}
            if good and cgood:
                ctx.ok("R20.2", site, "output = raster transposed, dims (xdim, ydim), template coordinates")
            else:
                ctx.bad("R20.2", self.file, "rasterize", f"DataArray(data={show(data)[:30] if data else '-'}, dims={show(dims)[:30] if dims else '-'})",
                        "the raster (rows=ydim, cols=xdim) must be returned either transposed with dims (xdim, ydim) or as is with dims "
                        "(ydim, xdim), carrying the template's coordinates for both dimensions: otherwise the axes are mislabelled", s.node.lineno)

        # ---- R20.3 values: the element burnt for geometry number I, in both cases of `values`
        from sa import seqview
        LEN = seqview.LEN
        isl_, ist_ = (("call", ("builtin", "isinstance"), (values, ("builtin", k_)), ()) for k_ in ("list", "tuple"))
        I = ("param", "__i__")
        bad = None
        sh_item = seqview.item(shapes, I) if shapes is not None else None
        sh_len = seqview.length(shapes) if shapes is not None else None
        for is_seq in (False, True):
            env = {isl_: is_seq, ist_: False}
            it_ = peval(sh_item, env) if sh_item is not None else None
            vt = it_[1][1] if it_ is not None and it_[0] == "tuple" and len(it_[1]) == 2 else None
            # the value reaches rasterio only where no rejection fired: a choice on a condition the call's path decides is that branch
            known_ = set(conjuncts(peval(call.live, env)))
            while vt is not None and vt[0] == "ite" and (vt[1] in known_ or NOT(vt[1]) in known_):
                vt = vt[2] if vt[1] in known_ else vt[3]
            if vt is not None and vt[0] == "sub" and vt[2] == I and vt[1][0] == "bin" and vt[1][1] == "*":
                # ([v] * n)[i] is v for every i < n
                for lst_, n_ in ((vt[1][2], vt[1][3]), (vt[1][3], vt[1][2])):
                    if lst_[0] == "list" and len(lst_[1]) == 1 and n_ == LEN(geoms):
                        vt = lst_[1][0]
            if vt is None:
                bad = "the shapes handed to rasterio are not (shape, value) pairs aligned with the geometries"
                break
            if not is_seq and vt != values:
                bad = f"a scalar value is not broadcast to one value per geometry: geometry number i is burnt with {show(vt)[:60]}"
            if is_seq and vt != ("sub", values, I):
                bad = f"a value list is not used as given: geometry number i is burnt with {show(vt)[:60]}"
            ln = peval(sh_len, env) if sh_len is not None else None
            if not is_seq and ln is not None and ln != LEN(geoms) and not (ln[0] == "call" and ln[1] == ("builtin", "min") and set(ln[2]) == {LEN(geoms)}):
                bad = bad or f"a scalar value is repeated {show(ln)[:40]} times instead of once per geometry"
        rej = [r for r in s.raises if any(c[0] == "cmp" and c[1] == "ne" and LEN(geoms) in (c[2], c[3]) for c in conjuncts(r.live))]
        if bad is None and rej and rej[0].idx < call.idx:
            ctx.ok("R20.3", site, "scalar broadcast to len(geometries); length mismatch rejected before rasterising")
        else:
            ctx.bad("R20.3", self.file, "rasterize", "values handling",
                    bad or "a value list whose length differs from the geometry list is not rejected (zip silently truncates)", s.node.lineno)

        # ---- R20.6 axis purity of the coordinate transform (whatever lookup it uses): the x component of a transformed
        # vertex is computed from the template's x axis only, the y component from its y axis only
        tfs = [x[2][1] for e in s.events for x in walk(e.term) if x[0] == "call" and x[1] == ("ext", "shapely.transform") and len(x[2]) >= 2]
        tfs = [t for t in tfs if t[0] == "lambda" and t[1] in s.lambdas]
        if not tfs:
            ctx.undec("R20.6", site, "the function handed to shapely.transform is not a local function / lambda")
        else:
            ls = s.lambdas[tfs[0][1]]
            pairs = []
            for r in ls.returns:
                for x in walk(r.term):
                    if x[0] in ("list", "tuple") and len(x[1]) == 2 and all(any(y in (xdim, ydim) for y in walk(c)) for c in x[1]):
                        pairs.append((x[1][0], x[1][1], r))
            layout = [x for r in ls.returns for x in walk(r.term)
                      if (x[0] == "call" and x[1][0] == "attr" and x[1][2] == "get_axis_num") or (x[0] == "attr" and x[2] == "dims" and x[1] == arr)]
            if not pairs and layout:
                ctx.bad("R20.6", self.file, "rasterize", f"vertex = {show(ls.returns[0].term)[:80]}",
                        f"the components of a transformed vertex are ordered by the template's own dimension order (`{show(layout[0])[:60]}`), "
                        "not fixed as (x index, y index): for a template laid out (ydim, xdim) the two components are swapped and the "
                        "geometries are burnt transposed", ls.returns[0].lineno, witness={"template dims": "(frequency, time)"})
            elif not pairs:
                ctx.undec("R20.6", site, "no (x component, y component) pair found in the coordinate transform")
            for c0, c1, r in pairs:
                m0 = {d for d in (xdim, ydim) if any(y == d for y in walk(c0))}
                m1 = {d for d in (xdim, ydim) if any(y == d for y in walk(c1))}
                if m0 == {xdim} and m1 == {ydim}:
                    ctx.ok("R20.6", f"{self.file}:{r.lineno} rasterize", "x component computed from the xdim axis only, y component from the ydim axis only")
                else:
                    which = "x" if m0 != {xdim} else "y"
                    ctx.bad("R20.6", self.file, "rasterize", f"{which} component of the transform mentions {sorted(show(d) for d in (m0 if which == 'x' else m1))}",
                            f"the {which} component of a transformed vertex depends on the {'y' if which == 'x' else 'x'} axis of the template "
                            f"(`{show(c0 if which == 'x' else c1)[:120]}`): on a non-square template the bins (or their clamping bound) of one "
                            f"axis are taken from the other", r.lineno, witness={"component": which})

        # ---- R20.4 coordinate transform
        gci = ("global", f"{DIMS}:get_coord_index", "func")
        tf = None
        lam_calls = []
        cands = []
        for name, node in s.nested.items():
            fs = ctx.summ.of_node(s.module, node, f"{s.qual}.{name}", None, dict(s.env))
            cs = [e for e in fs.calls if e.term[1] == gci]
            if cs:
                cands.append((name, fs, cs))
        for lid, ls in s.lambdas.items():
            cs = [e for e in ls.calls if e.term[1] == gci]
            if cs:
                cands.append((f"<lambda {lid}>", ls, cs))
        # the coordinate transform is the local function that looks up both components (a one-lookup wrapper it uses is not)
        two = [c_ for c_ in cands if len(c_[2]) == 2]
        pick = (two or cands)[-1] if (two or cands) else None
        if pick is not None:
            tf, lam_calls = (pick[0], pick[1]), pick[2]
        if tf is None or len(lam_calls) != 2:
            ctx.undec("R20.4", site, "coordinate transform with two get_coord_index calls not found")
        else:
            name, fs = tf
            gs = ctx.summ.of_func(DIMS, "get_coord_index")
            pairs = {}
            okk = True
            for e in lam_calls:
                b, _, _, _ = bind_args(e.term, gs.params)
                val = b.get("value")
                comp = val[2][1] if val is not None and val[0] == "sub" and val[2][0] == "const" else None
                pairs[comp] = (b.get("dim"), b.get("raise_error"), b.get("arr"))
            ret = fs.returns[0].term if fs.returns else None
            for comp, dim in ((0, xdim), (1, ydim)):
                got = pairs.get(comp)
                if got is None or got[0] != dim or got[2] != arr:
                    okk = False
                    ctx.bad("R20.4", self.file, "rasterize", f"{name}: component {comp} -> {show(got[0]) if got else '-'}",
                            f"the {'x (time)' if comp == 0 else 'y (frequency)'} component of a coordinate must be looked up on the "
                            f"{'xdim' if comp == 0 else 'ydim'} axis of the template (found {show(got[0]) if got else 'nothing'}): geometries are "
                            f"burnt at transposed / wrong positions", fs.node.lineno)
                elif got[1] != ("const", False):
                    okk = False
                    ctx.bad("R20.4", self.file, "rasterize", f"{name}: raise_error={show(got[1]) if got[1] else 'default'}",
                            "coordinates outside the template must be clamped (raise_error=False), not raise: a geometry reaching "
                            "beyond the template would abort the rasterisation", fs.node.lineno)
            # the vertex handed back is (lookup of x, lookup of y) as they are: get_coord_index already clamps to the axis, any
            # further arithmetic / bound on one component moves or clips the geometry on that axis only
            lookups = [e.term for e in lam_calls]
            disp = [x for r in fs.returns for x in walk(r.term) if x[0] in ("list", "tuple") and len(x[1]) == 2
                    and any(y in lookups for c_ in x[1] for y in walk(c_))]
            if okk and disp:
                for d_ in disp:
                    for c_ in d_[1]:
                        if c_ not in lookups and okk:
                            okk = False
                            ctx.bad("R20.4", self.file, "rasterize", f"{name}: component {show(c_)[:70]}",
                                    f"a component of the transformed vertex is not the looked-up bin itself but `{show(c_)[:100]}`: "
                                    f"the geometry is shifted or clipped on that axis (the lookup already clamps to the axis range)", fs.node.lineno)
            elif okk:
                okk = False
                ctx.undec("R20.4", site, "cannot see the (x bin, y bin) vertex returned by the coordinate transform")
            if okk:
                ctx.ok("R20.4", f"{self.file}:{fs.node.lineno} rasterize.{name}", "x -> index on xdim, y -> index on ydim, clamped")
        # ---- R20.5 order & forwarding: element number I of the shapes is the transform of geometry number I
        conv = ("global", f"{CONV}:geometry_to_shapely", "func")
        order_ok = False
        if sh_item is not None and sh_item[0] == "tuple" and len(sh_item[1]) == 2:
            g_i = sh_item[1][0]
            order_ok = g_i[0] == "call" and g_i[1] == ("ext", "shapely.transform") and g_i[2][:1] == (("call", conv, (("sub", geoms, I),), ()),)
            ln = sh_len
            if ln is not None and ln[0] == "ite":
                ln = None if not all(peval(sh_len, {isl_: v_, ist_: False}) in (LEN(geoms), LEN(values), ("call", ("builtin", "min"), (LEN(geoms), LEN(values)), ()))
                                     for v_ in (False, True)) else LEN(geoms)
            if ln is not None and ln != LEN(geoms) and not (ln[0] == "call" and ln[1] == ("builtin", "min") and LEN(geoms) in ln[2]):
                order_ok = False
        if order_ok:
            ctx.ok("R20.5", site, "shapes[i] = (transform(to_shapely(geometries[i])), values[i]) for every i, in input order")
        else:
            ctx.bad("R20.5", self.file, "rasterize", f"shapes={show(shapes)[:80] if shapes else '-'}",
                    "the shapes handed to rasterio must be the transformed geometries paired with their values, in input order and "
                    "unfiltered (later geometries overwrite earlier ones)", call.lineno)
        for k_, p in (("fill", "fill"), ("dtype", "dtype"), ("all_touched", "all_touched")):
            if kw.get(k_) == ("param", p):
                ctx.ok("R20.5", f"{self.file}:{call.lineno} rasterize", f"{k_} forwarded")
            else:
                ctx.bad("R20.5", self.file, "rasterize", f"{k_}={show(kw.get(k_, NONE))}",
                        f"the caller's {p} is not forwarded to rasterio (receives {show(kw.get(k_, NONE))})", call.lineno)


def run(ctx: Ctx):
    ctx.rule("R20.1", "raster shape taken from the named dimensions (rows = ydim, cols = xdim)", 1)
    ctx.rule("R20.2", "output labelled (xdim, ydim) with matching transpose and template coordinates", 1)
    ctx.rule("R20.3", "scalar value broadcast; length mismatch rejected", 1)
    ctx.rule("R20.4", "x through the xdim axis, y through the ydim axis, clamped", 1)
    ctx.rule("R20.5", "shapes in input order with their values; fill/dtype/all_touched forwarded", 4)
    ctx.rule("R20.6", "axis purity: each coordinate component is looked up on its own axis only", 1)
    C20(ctx).run()
    # bin lookup with clamping (anchored file arrays/dimensions.py get_coord_index): C16's lookup rule
    from .c16 import C16
    with ctx.delegated("C16/"):
        ctx.rule("R16.2", "coordinate lookup: right bound - 1 in range, raise/clamp outside", 2)
        C16(ctx).check_coord_index()
    # the vertices mapped to bins are those of the converted shape of the coordinates as given
    from . import c03, c05
    c05.run_conversion_subset(ctx)
    c03.run_validation_subset(ctx)
    return EXPLANATION, ASSUMPTIONS
