"""C03 -- geometry validation accepts exactly the valid geometries and normalises them (R03.1 - R03.5)."""

from __future__ import annotations

import ast
import itertools
from typing import Dict, List, Optional, Tuple

from sa.index import AnalysisError, ClassInfo
from sa.models import shape_str, strip_opt
from sa.peval import Unknown, compile_term, peval, weak_orderings
from sa.report import Ctx
from sa.sym import callkw, FALSE, NONE, NOT, OR, Summary, conjuncts, show, subst, walk

GEO = "soundevent.data.geometries"
FILE = "src/soundevent/data/geometries.py"

EXPLANATION = (
    "Static decision of the structural clauses of geometry validation: R03.1 the type-tag <-> class table (Geometry "
    "union, ALL_GEOMETRY_TYPES, BaseGeometry subclasses, Literal tags and defaults, GEOMETRY_MAPPING) is complete and "
    "injective; R03.2 for each of the 9 classes the rejecting guards of all coordinate validators, extracted as "
    "formulas over (length at each nesting level, time, frequency, first/last time), are equivalent to the specified "
    "acceptance condition on a grid that contains every interval endpoint and its neighbours (0, MAX_FREQUENCY, arity "
    "limits), with the guards at the nesting depth the List[...] annotation has; R03.3 the normalising validators "
    "return the inputs in normal form on every ordering; R03.4 geometry_validate picks the class from the object's own "
    "tag in all three modes and sets from_attributes only for 'attributes'; R03.5 every validator path returns its "
    "value or raises ValueError/AssertionError; R03.6 every point of the five point-sequence types is unpacked into exactly "
    "two names (or its length is checked). pydantic's coercion, nesting-shape rejection and JSON dump are trusted."
    'R03.7 no class of the geometry hierarchy installs a serializer (the JSON dump is the validated coordinates); R03.8 every constant subscript of the coordinates in a validator is covered by a length established earlier on the same path or by an earlier validator (an unpack into names counts): short input is rejected with a validation error, never IndexError. '
)
ASSUMPTIONS = [
    "pydantic runs every @field_validator('coordinates') in after mode on coerced floats and converts ValueError / AssertionError (trusted)",
    "a failing tuple unpack `for time, frequency in ...` raises ValueError, which rejects wrong point arity (trusted)",
    "NaN is outside the quantifier (finite numeric coordinates)",
]

EPS = 1e-9
TINY = 5e-324  # the smallest positive double: a tolerance of any size in `time < 0` accepts -TINY
T_PTS = [-1.0, -EPS, -TINY, 0.0, TINY, EPS, 1.0, 1e9]
LEN_PTS = [0, 1, 2, 3, 4, 5, 6]


def f_pts(MAX):
    import math
    return [-1.0, -EPS, -TINY, 0.0, EPS, 1.0, MAX - 1e-3, math.nextafter(float(MAX), 0.0), float(MAX), math.nextafter(float(MAX), math.inf),
            MAX + 1e-3, 2.0 * MAX]


# specification transcribed from the property statement.  depth = nesting depth of the leaf (time, frequency) pair
#  lens: accepted lengths per level as predicate text; leaf: 'tf' | 't' | None ; extra: pairwise rule
SPEC = {
    "TimeStamp": dict(depth=0, scalar=True, lens={}, leaf="t"),
    "TimeInterval": dict(depth=0, fixed=2, lens={0: lambda n: n == 2}, comps={0: "t", 1: "t"}, pair=("c0@0", "c1@0", "le")),
    "Point": dict(depth=0, fixed=2, lens={0: lambda n: n == 2}, comps={0: "t", 1: "f"}),
    "BoundingBox": dict(depth=0, fixed=4, lens={0: lambda n: n == 4}, comps={0: "t", 1: "f", 2: "t", 3: "f"}),
    "LineString": dict(depth=1, lens={0: lambda n: n >= 2}, leaf="tf"),
    "Polygon": dict(depth=2, lens={0: lambda n: n >= 1, 1: lambda n: n >= 3}, leaf="tf"),
    "MultiPoint": dict(depth=1, lens={0: lambda n: n >= 1}, leaf="tf"),
    "MultiLineString": dict(depth=2, lens={0: lambda n: n >= 1, 1: lambda n: n >= 2}, leaf="tf", pair=("first_t@1", "last_t@1", "lt")),
    "MultiPolygon": dict(depth=3, lens={0: lambda n: n >= 1, 1: lambda n: n >= 1, 2: lambda n: n >= 3}, leaf="tf"),
}


class C03:
    def __init__(self, ctx: Ctx):
        self.ctx = ctx
        self.mod = ctx.index.module(GEO)
        m, maxnode = ctx.index.need_assign(GEO, "MAX_FREQUENCY")
        if not (isinstance(maxnode, ast.Constant) and isinstance(maxnode.value, (int, float))):
            # a constant expression (5 * 10**6, float("inf"), 5e6 written through a name) has the value it evaluates to
            val = None
            try:
                from sa.sym import TRUE, Evaluator
                val = peval(Evaluator(ctx.index, m, maxnode, f"{GEO}:MAX_FREQUENCY", None).ev(maxnode, TRUE), {})
            except Exception:  # noqa: BLE001
                pass
            if val is None or val[0] != "const" or isinstance(val[1], bool) or not isinstance(val[1], (int, float)):
                raise AnalysisError("MAX_FREQUENCY is not a numeric constant", rule="R03.2", site=FILE)
            self.MAX = val[1]
        else:
            self.MAX = maxnode.value
        self.MAXT = ("global", f"{GEO}:MAX_FREQUENCY", "assign")

    # ------------------------------------------------------------------ R03.1
    def classes(self) -> List[ClassInfo]:
        base = self.ctx.index.need_class(GEO, "BaseGeometry")
        return [c for c in self.mod.classes.values() if c.qual != base.qual and c.is_subclass_of(base.qual)]

    def check_table(self):
        ctx, m = self.ctx, self.ctx.models
        classes = self.classes()
        names = {c.name for c in classes}
        _, gnode = ctx.index.need_assign(GEO, "Geometry")
        gshape = m.shape(self.mod, gnode)
        members = {x[1].split(":")[1] for x in (gshape[1] if gshape[0] == "union" else (gshape,)) if x[0] == "cls"}
        _, allnode = ctx.index.need_assign(GEO, "ALL_GEOMETRY_TYPES")

        def table_of(node):
            """the dictionary display a name / dict(name) stands for (a registry filled by a decorator is read as its table: sa/index.py)"""
            for _ in range(4):
                if isinstance(node, ast.Call) and isinstance(node.func, ast.Name) and node.func.id == "dict" and len(node.args) == 1 and not node.keywords:
                    node = node.args[0]
                elif isinstance(node, ast.Name) and len(self.mod.defs.get(node.id, [])) == 1 and isinstance(self.mod.defs[node.id][0], (ast.Assign, ast.AnnAssign)):
                    node = self.mod.defs[node.id][0].value
                else:
                    break
            return node if isinstance(node, ast.Dict) else None
        inner_ = allnode
        if isinstance(inner_, ast.Call) and isinstance(inner_.func, ast.Name) and inner_.func.id in ("list", "tuple") and len(inner_.args) == 1 and not inner_.keywords:
            inner_ = inner_.args[0]
        if isinstance(inner_, ast.Call) and isinstance(inner_.func, ast.Attribute) and inner_.func.attr == "values" and not inner_.args and table_of(inner_.func.value) is not None:
            allnode = ast.copy_location(ast.List(elts=list(table_of(inner_.func.value).values), ctx=ast.Load()), allnode)
        listed = [ast.unparse(e) for e in allnode.elts] if isinstance(allnode, (ast.List, ast.Tuple)) \
            and not any(isinstance(e, ast.Starred) for e in allnode.elts) else None
        derived = False
        if listed is None:
            # list(get_args(Geometry)) / tuple(...) / [*get_args(Geometry)]: the members of the union, in its order
            inner = allnode
            if isinstance(inner, ast.Call) and isinstance(inner.func, ast.Name) and inner.func.id in ("list", "tuple") and len(inner.args) == 1 and not inner.keywords:
                inner = inner.args[0]
            elif isinstance(inner, (ast.List, ast.Tuple)) and len(inner.elts) == 1 and isinstance(inner.elts[0], ast.Starred):
                inner = inner.elts[0].value
            if isinstance(inner, ast.Call) and len(inner.args) == 1 and not inner.keywords and ast.unparse(inner.args[0]) == "Geometry" \
                    and getattr(ctx.index.resolve(self.mod, ast.unparse(inner.func)), "qual", None) in ("ext:typing.get_args", "ext:typing_extensions.get_args"):
                listed, derived = sorted(members), True
        for label, got in (("Geometry union", members), ("ALL_GEOMETRY_TYPES", None if listed is None else set(listed))):
            if got is None:
                ctx.undec("R03.1", f"{FILE} ALL_GEOMETRY_TYPES", "neither a literal list nor the members of the Geometry union")
            elif got == names and (label != "ALL_GEOMETRY_TYPES" or len(listed) == len(set(listed))):
                ctx.ok("R03.1", f"{FILE} {label}", f"== the {len(names)} BaseGeometry subclasses" + (" (the members of the Geometry union)" if derived and label.startswith("ALL") else ""))
            else:
                ctx.bad("R03.1", FILE, label.split()[0] if label.startswith("ALL") else "Geometry", label,
                        f"{label} differs from the BaseGeometry subclasses: missing {sorted(names - got)}, extra "
                        f"{sorted(got - names)}: objects of a missing type cannot be validated / are validated as another class",
                        (allnode if label.startswith("ALL") else gnode).lineno)
        tags = {}
        for c in classes:
            fm = m.field_map(c)
            fi = fm.get("type")
            site = f"{FILE}:{c.node.lineno} {c.name}"
            if fi is None:
                ctx.bad("R03.1", FILE, c.name, "type field", f"{c.name} has no `type` tag field", c.node.lineno)
                continue
            s = fi.shape
            dflt = fi.default.value if isinstance(fi.default, ast.Constant) else None
            if s == ("lit", (c.name,)) and dflt == c.name:
                ctx.ok("R03.1", site, f"type: Literal[{c.name!r}] = {c.name!r}")
            else:
                ctx.bad("R03.1", FILE, c.name, f"type: {shape_str(s)} = {dflt!r}",
                        f"the tag of {c.name} is {shape_str(s)} with default {dflt!r}: dispatch by tag maps it to another "
                        f"class or rejects it", fi.node.lineno)
            tags.setdefault(dflt, []).append(c.name)
        for t, cs in tags.items():
            if len(cs) > 1:
                ctx.bad("R03.1", FILE, "GEOMETRY_MAPPING", f"tag {t!r} shared", f"tag {t!r} is shared by {cs}", 0)
        # GEOMETRY_MAPPING = {geom.geom_type(): geom for geom in ALL_GEOMETRY_TYPES}
        _, mp = ctx.index.need_assign(GEO, "GEOMETRY_MAPPING")
        if table_of(mp) is not None:
            mp = ast.copy_location(table_of(mp), mp)
        good = (isinstance(mp, ast.DictComp) and len(mp.generators) == 1 and not mp.generators[0].ifs
                and ast.unparse(mp.generators[0].iter) == "ALL_GEOMETRY_TYPES"
                and isinstance(mp.generators[0].target, ast.Name)
                and ast.unparse(mp.key) == f"{mp.generators[0].target.id}.geom_type()"
                and ast.unparse(mp.value) == mp.generators[0].target.id)
        if good:
            ctx.ok("R03.1", f"{FILE}:{mp.lineno} GEOMETRY_MAPPING", "built from geom_type() over ALL_GEOMETRY_TYPES")
        elif isinstance(mp, ast.Dict):
            pairs = {ast.unparse(k): ast.unparse(v) for k, v in zip(mp.keys, mp.values)}
            want = {repr(c.name): c.name for c in classes}
            alt = {f"{c.name}.geom_type()": c.name for c in classes}
            if pairs == want or pairs == alt:
                ctx.ok("R03.1", f"{FILE}:{mp.lineno} GEOMETRY_MAPPING", "literal table tag -> class, complete")
            else:
                ctx.bad("R03.1", FILE, "GEOMETRY_MAPPING", "GEOMETRY_MAPPING = {...}",
                        f"the tag -> class table is not the identity on class names: {pairs}", mp.lineno)
        else:
            # another spelling (dict(zip(map(methodcaller("geom_type"), ALL), ALL)), a registry filled by a decorator ...): the value
            # interpreted on the classes themselves -- the tag of a class is the default of its `type` field
            verdict = None
            try:
                from sa.meval import Machine, _ClassRef
                from sa.peval import Unknown
                M = Machine(ctx.summ, ctx.index)
                tag_of = {c.name: dflt_ for c in classes for dflt_ in [self._tag_default(c)] if dflt_ is not None}

                class _GeoRef(_ClassRef):
                    def geom_type(self_):
                        return tag_of[self_.ci.name]
                orig = M._global

                def _global(t):
                    v = orig(t)
                    return _GeoRef(M, v.ci) if isinstance(v, _ClassRef) and v.ci.name in tag_of else v
                M._global = _global
                orig_getattr = M._getattr
                M._getattr = lambda base, name: (base.geom_type if isinstance(base, _GeoRef) and name == "geom_type" else orig_getattr(base, name))
                table = M._global(("global", f"{GEO}:GEOMETRY_MAPPING", "assign"))
                if isinstance(table, dict) and all(isinstance(v, _ClassRef) for v in table.values()):
                    got = {k: v.ci.name for k, v in table.items()}
                    verdict = got == {t_: n_ for n_, t_ in tag_of.items()}
            except Exception:  # noqa: BLE001
                verdict = None
            if verdict is True:
                ctx.ok("R03.1", f"{FILE}:{mp.lineno} GEOMETRY_MAPPING", "tag -> class for every geometry class (the expression interpreted on the classes)")
            elif verdict is False:
                ctx.bad("R03.1", FILE, "GEOMETRY_MAPPING", ast.unparse(mp)[:80],
                        "GEOMETRY_MAPPING does not map the tag of every geometry class to that class", mp.lineno)
            elif isinstance(mp, (ast.Call, ast.Name, ast.Attribute, ast.BinOp)):
                ctx.undec("R03.1", f"{FILE}:{mp.lineno} GEOMETRY_MAPPING", f"the table is built by an expression the rule cannot read: {ast.unparse(mp)[:80]}")
            else:
                ctx.bad("R03.1", FILE, "GEOMETRY_MAPPING", ast.unparse(mp)[:80],
                        "GEOMETRY_MAPPING is not {geom.geom_type(): geom for geom in ALL_GEOMETRY_TYPES}", mp.lineno)
        s = ctx.summ.of_func(GEO, "BaseGeometry.geom_type")
        want = ("attr", ("sub", ("attr", ("param", "cls"), "model_fields"), ("const", "type")), "default")
        if len(s.returns) == 1 and s.returns[0].term == want:
            ctx.ok("R03.1", f"{FILE}:{s.node.lineno} BaseGeometry.geom_type", "returns the default of the type field")
        else:
            ctx.bad("R03.1", FILE, "BaseGeometry.geom_type", "return cls.model_fields['type'].default",
                    f"geom_type() returns {show(s.returns[0].term) if s.returns else '-'}", s.node.lineno)
        return classes

    def _named_constants(self, t):
        """a module-level numeric constant other than MAX_FREQUENCY (`MIN_TIME = 0`) stands for its value"""
        if not isinstance(t, tuple) or not t:
            return t
        if t[0] == "global" and len(t) == 3 and t[2] == "assign" and t != self.MAXT and ":" in t[1]:
            try:
                _, nd = self.ctx.index.need_assign(*t[1].split(":"))
            except Exception:  # noqa: BLE001
                nd = None
            if isinstance(nd, ast.Constant) and isinstance(nd.value, (int, float)) and not isinstance(nd.value, bool):
                return ("const", nd.value)
            if isinstance(nd, ast.UnaryOp) and isinstance(nd.op, ast.USub) and isinstance(nd.operand, ast.Constant) and isinstance(nd.operand.value, (int, float)):
                return ("const", -nd.operand.value)
            return t
        return tuple(self._named_constants(c) if isinstance(c, tuple) else c for c in t)

    # ------------------------------------------------------------------ quantity naming
    def depth(self, t, summ: Summary, v) -> Optional[int]:
        if t == v:
            return 0
        if t[0] == "elem" and t[1] in summ.loops:
            d = self.depth(summ.loops[t[1]].iter, summ, v)
            return None if d is None else d + 1
        return None

    def qname(self, t, summ: Summary, v, scalar=False) -> Optional[str]:
        if t == v and scalar:
            return "v"
        if t[0] == "call" and t[1] == ("builtin", "len") and len(t[2]) == 1:
            d = self.depth(t[2][0], summ, v)
            return None if d is None else f"len@{d}"
        if t[0] == "sub" and t[2][0] == "const" and isinstance(t[2][1], int):
            base, i = t[1], t[2][1]
            d = self.depth(base, summ, v)
            if d is not None and i >= 0:
                return f"c{i}@{d}"
            # first / last point's time: X[0][0] / X[-1][0]
            if base[0] == "sub" and base[2][0] == "const" and i == 0:
                dd = self.depth(base[1], summ, v)
                if dd is not None and base[2][1] == 0:
                    return f"first_t@{dd}"
                if dd is not None and base[2][1] == -1:
                    return f"last_t@{dd}"
        if t[0] == "elem":
            d = self.depth(t, summ, v)
            return None if d is None else f"e@{d}"
        return None

    def expand_quantifiers(self, t, summ: Summary, v, fixed: Optional[int]):
        """any(c(e) for e in v) over a fixed-length v -> OR_i c(v[i]);  all(...) -> AND_i."""
        if not isinstance(t, tuple) or not t:
            return t
        if t[0] == "call" and t[1] in (("builtin", "any"), ("builtin", "all")) and len(t[2]) == 1 and t[2][0][0] == "comp":
            comp = t[2][0]
            if len(comp[3]) == 1 and not comp[3][0][2] and comp[3][0][1] == v and fixed:
                lid = comp[3][0][0]
                parts = [subst(comp[2], {("elem", lid): ("sub", v, ("const", i))}) for i in range(fixed)]
                return ("or" if t[1][1] == "any" else "and", tuple(parts))
        return tuple(self.expand_quantifiers(c, summ, v, fixed) for c in t)

    def existentials(self, live, summ: Summary, v, fixed: Optional[int]):
        """Bring the two spellings of "some element violates c" to one form.

        `if any(c(e) for e in X): raise` and `if not all(ok(e) for e in X): raise` (X of free length) become the path
        condition of `for e in X: if c(e): raise` -- inloop(L) and c(elem(L)) -- which the per-level grid evaluates;
        a raise inside a statement loop over a fixed-length v becomes the disjunction over its positions."""
        from sa.sym import AND
        out = []
        fixed_loops = []
        for cj in conjuncts(live):
            neg = False
            t = cj
            if t[0] == "not":
                neg, t = True, t[1]
            if t[0] == "call" and t[1] in (("builtin", "any"), ("builtin", "all")) and len(t[2]) == 1 and t[2][0][0] == "comp" \
                    and len(t[2][0][3]) == 1 and (t[1][1] == "any") != neg and not (fixed and t[2][0][3][0][1] == v):
                comp = t[2][0]
                lid, it, conds = comp[3][0]
                body = comp[2] if not neg else NOT(comp[2])
                out += [("inloop", lid)] + list(conds) + [body]
                continue
            if cj[0] == "inloop" and fixed and cj[1] in summ.loops and summ.loops[cj[1]].iter == v and summ.loops[cj[1]].kind == "for":
                fixed_loops.append(cj[1])
                continue
            out.append(cj)
        f = AND(*out)
        for lid in fixed_loops:
            f = OR(*[subst(f, {("elem", lid): ("sub", v, ("const", i))}) for i in range(fixed)])
        return f

    # ------------------------------------------------------------------ R03.2 / R03.5
    def check_class(self, c: ClassInfo):
        ctx, m = self.ctx, self.ctx.models
        spec = SPEC.get(c.name)
        if spec is None:
            ctx.bad("R03.2", FILE, c.name, f"class {c.name}", f"geometry class {c.name} has no acceptance specification "
                    "(the property names nine types)", c.node.lineno)
            return
        vals = [v for v in m.validators(c) if v.kind == "field"]
        fm = m.field_map(c)
        if "coordinates" not in fm:
            ctx.bad("R03.2", FILE, c.name, "coordinates field", "no coordinates field", c.node.lineno)
            return
        # annotation depth
        shp, ann_depth = fm["coordinates"].shape, 0
        while shp[0] == "list":
            shp, ann_depth = shp[1], ann_depth + 1
        want_depth = 0 if spec.get("scalar") else spec["depth"] + 1
        if ann_depth != want_depth or shp != ("prim", "float"):
            ctx.bad("R03.2", FILE, c.name, f"coordinates: {shape_str(fm['coordinates'].shape)}",
                    f"coordinates of {c.name} must nest {want_depth} list level(s) of float", fm["coordinates"].node.lineno)
        rejects = []  # (formula term, event, validator name)
        names: Dict[tuple, str] = {self.MAXT: "MAX"}
        normalisers = []
        for v in vals:
            if v.fields != ("coordinates",) or v.mode != "after":
                ctx.bad("R03.5", FILE, f"{c.name}.{v.name}", f"@field_validator{v.fields} mode={v.mode}",
                        "coordinate validator is not registered on 'coordinates' in after mode (it would see raw, "
                        "uncoerced input or never run)", v.node.lineno)
                continue
            s = ctx.summ.of_node(c.module, v.node, f"{c.qual}.{v.name}", c)
            vp = ("param", s.params[1] if len(s.params) > 1 else s.params[0])
            site = f"{FILE}:{v.node.lineno} {c.name}.{v.name}"
            # R03.5: every path returns a value or raises a convertible error
            okd = True
            if s.fall_live != FALSE:
                okd = False
                ctx.bad("R03.5", FILE, f"{c.name}.{v.name}", "implicit return None",
                        "a path through the validator falls off the end and returns None: the coordinates become None",
                        v.node.lineno)
            for r in s.returns:
                if r.term == NONE:
                    okd = False
                    ctx.bad("R03.5", FILE, f"{c.name}.{v.name}", "return None", "validator returns None", r.lineno)
            for r in s.raises:
                exc = r.term
                if exc[0] == "raise_from":
                    exc = exc[1]
                nm = exc[1][1] if exc[0] == "call" and exc[1][0] == "builtin" else (exc[1] if exc[0] == "builtin" else None)
                if nm not in ("ValueError", "AssertionError"):
                    okd = False
                    ctx.bad("R03.5", FILE, f"{c.name}.{v.name}", f"raise {show(exc)[:40]}",
                            "validator raises an exception pydantic does not convert into a validation error", r.lineno)
            if okd:
                ctx.ok("R03.5", site, "every path returns the value or raises ValueError/AssertionError")
            nonid = [r for r in s.returns if r.term != vp]
            if nonid:
                normalisers.append((v, s, vp))
            for r in s.raises:
                live = self.expand_quantifiers(self.existentials(r.live, s, vp, spec.get("fixed")), s, vp, spec.get("fixed"))
                rejects.append((live, r, v, s, vp))
        # R03.6: the arity of every (time, frequency) point is enforced
        if spec.get("leaf") == "tf":
            enforced = None
            for v in vals:
                s = ctx.summ.of_node(c.module, v.node, f"{c.qual}.{v.name}", c)
                vp = ("param", s.params[1] if len(s.params) > 1 else s.params[0])
                for lid, L in s.loops.items():
                    if self.depth(("elem", lid), s, vp) != spec["depth"] or L.conds:
                        continue
                    try:
                        tgt = ast.parse(L.target_text, mode="eval").body
                    except SyntaxError:
                        continue
                    if isinstance(tgt, (ast.Tuple, ast.List)) and len(tgt.elts) == 2 and all(isinstance(e, ast.Name) for e in tgt.elts):
                        enforced = f"`for {L.target_text} in ...` unpacks every point into exactly two names ({v.name})"
                    elif s.unpacked.get(("elem", lid)) == 2 and not any(e_.kind in ("break", "continue") and lid in e_.loops for e_ in s.events):
                        enforced = f"every point is unpacked into exactly two names ({v.name})"
                for r in s.raises:
                    for x in conjuncts(r.live):
                        if x[0] == "cmp" and x[1] == "ne" and ("const", 2) in (x[2], x[3]):
                            o = x[3] if x[2] == ("const", 2) else x[2]
                            if o[0] == "call" and o[1] == ("builtin", "len") and self.depth(o[2][0], s, vp) == spec["depth"]:
                                enforced = f"`len(point) != 2` is rejected ({v.name})"
            if enforced:
                ctx.ok("R03.6", f"{FILE}:{c.node.lineno} {c.name}", enforced)
            elif self._delegates(c, vals):
                ctx.undec("R03.6", f"{FILE}:{c.node.lineno} {c.name}", f"the point arity is not forced where the rule can read it, but the validators hand the "
                                                                      f"coordinates to `{self._delegates(c, vals)}`, which the engine did not open")
            else:
                ctx.bad("R03.6", FILE, c.name, "point arity",
                        f"no validator of {c.name} forces every point to have exactly two values (a two-name unpack of each "
                        f"point, or a len(point) != 2 rejection): a point with extra values is accepted and kept", c.node.lineno)
        loops_ok = True
        # loop provenance: every loop in the validators iterates the previous level without filter / slicing
        for v in vals:
            s = ctx.summ.of_node(c.module, v.node, f"{c.qual}.{v.name}", c)
            vp = ("param", s.params[1] if len(s.params) > 1 else s.params[0])
            for lid, L in s.loops.items():
                d = self.depth(L.iter, s, vp)
                if d is None and not (spec.get('fixed') and L.kind == 'comp' and L.iter == vp) and any(x[0] in ("lambda", "global") for x in walk(L.iter)):
                    loops_ok = False  # a loop over a table of checks / functions zipped with the coordinates: another formulation
                    ctx.undec("R03.2", f"{FILE}:{getattr(L.node, 'lineno', v.node.lineno)} {c.name}.{v.name}",
                              f"the validator loops over `{show(L.iter)[:60]}` (functions paired with the coordinates), which the rule cannot read")
                elif d is None and not (spec.get('fixed') and L.kind == 'comp' and L.iter == vp):
                    loops_ok = False
                    ctx.bad("R03.2", FILE, f"{c.name}.{v.name}", f"for {L.target_text} in {show(L.iter)[:40]}",
                            f"validator loop iterates {show(L.iter)[:40]}, not every element of the coordinates at that level: "
                            f"some coordinates escape validation", getattr(L.node, "lineno", v.node.lineno))
                elif L.conds:
                    ctx.bad("R03.2", FILE, f"{c.name}.{v.name}", f"for {L.target_text} in ... if {show(L.conds[0])[:40]}",
                            "validator loop skips elements", getattr(L.node, "lineno", v.node.lineno))
        if not loops_ok:
            self.check_normal_form(c, normalisers)
            return
        # name the quantities
        formula_parts = []
        for live, r, v, s, vp in rejects:
            conj = [x for x in conjuncts(live) if x[0] != "inloop"]
            # loops must iterate the element of the previous level, unfiltered
            from sa.sym import AND

            def truthy_to_len(t, s=s, vp=vp):
                """`if not X` / `if X` on a (sub-)list of the coordinates is the test len(X) < 1 / len(X) >= 1"""
                if not isinstance(t, tuple) or not t:
                    return t
                if t[0] == "not":
                    if self.depth(t[1], s, vp) is not None:
                        return ("cmp", "lt", ("call", ("builtin", "len"), (t[1],), ()), ("const", 1))
                    return ("not", truthy_to_len(t[1]))
                if t[0] in ("and", "or"):
                    return (t[0], tuple(truthy_to_len(x) for x in t[1]))
                if t[0] in ("param", "elem", "sub") and self.depth(t, s, vp) is not None:
                    return ("cmp", "le", ("const", 1), ("call", ("builtin", "len"), (t,), ()))
                return t
            f = AND(*[truthy_to_len(x) for x in conj])
            f = self._named_constants(f)
            for x in walk(f):
                if x[0] == "cmp":
                    for side in (x[2], x[3]):
                        if side[0] == "const" or side == self.MAXT:
                            continue
                        qn = self.qname(side, s, vp, spec.get("scalar", False))
                        if qn is None:
                            ctx.undec("R03.2", f"{FILE}:{r.lineno} {c.name}.{v.name}", f"unrecognised quantity in guard: {show(side)[:60]}")
                            return
                        names[side] = qn.replace("@", "_")
            formula_parts.append((f, r, v))
        # declarative constraints on the field itself (Field(min_length=..., max_length=..., ge=...)) reject as well
        fi_ = self.ctx.models.field_map(c).get("coordinates")
        if fi_ is not None and fi_.field_kwargs:
            class _Site:  # position of the declaration, in the shape the report code expects
                pass
            COORD = ("param", "__coordinates__")
            LENC = ("call", ("builtin", "len"), (COORD,), ())
            for kname, knode in fi_.field_kwargs.items():
                if kname not in ("min_length", "max_length", "min_items", "max_items", "ge", "gt", "le", "lt"):
                    continue
                if not (isinstance(knode, ast.Constant) and isinstance(knode.value, (int, float)) and not isinstance(knode.value, bool)):
                    ctx.undec("R03.2", f"{FILE}:{fi_.node.lineno} {c.name}", f"Field({kname}=...) is not a numeric literal")
                    return
                k_ = ("const", knode.value)
                if kname in ("min_length", "min_items"):
                    f = ("cmp", "lt", LENC, k_)
                    names[LENC] = "len_0"
                elif kname in ("max_length", "max_items"):
                    f = ("cmp", "lt", k_, LENC)
                    names[LENC] = "len_0"
                else:
                    if not spec.get("scalar"):
                        ctx.undec("R03.2", f"{FILE}:{fi_.node.lineno} {c.name}", f"Field({kname}=...) on a list-valued field")
                        return
                    names[COORD] = "v"
                    f = {"ge": ("cmp", "lt", COORD, k_), "gt": ("cmp", "le", COORD, k_), "le": ("cmp", "lt", k_, COORD), "lt": ("cmp", "le", k_, COORD)}[kname]
                r_, v_ = _Site(), _Site()
                r_.lineno, r_.live, r_.term = fi_.node.lineno, f, ("const", None)
                v_.name = f"Field({kname}={knode.value})"
                formula_parts.append((f, r_, v_))
        # quantities of the specification
        qs: Dict[str, list] = {}
        F = f_pts(self.MAX)
        if spec.get("scalar"):
            qs["v"] = T_PTS
        for lvl in spec["lens"]:
            qs[f"len_{lvl}"] = LEN_PTS
        if "comps" in spec:
            for i, kind in spec["comps"].items():
                qs[f"c{i}_0"] = T_PTS if kind == "t" else F
        elif spec.get("leaf") == "tf":
            qs[f"c0_{spec['depth']}"] = T_PTS
            qs[f"c1_{spec['depth']}"] = F
        if "pair" in spec:
            for q in spec["pair"][:2]:
                qs.setdefault(q.replace("@", "_"), T_PTS)
        used = set(names.values()) - {"MAX"}
        unknownq = used - set(qs)
        if unknownq:
            # a guard on a quantity the specification does not constrain (wrong nesting level / wrong component)
            for q in sorted(unknownq):
                qs[q] = F if q.startswith("c1") or q.startswith("c3") else (LEN_PTS if q.startswith("len") else T_PTS)

        def accept(env) -> bool:
            if spec.get("scalar"):
                return env["v"] >= 0
            for lvl, pred in spec["lens"].items():
                if not pred(env[f"len_{lvl}"]):
                    return False
            if "comps" in spec:
                for i, kind in spec["comps"].items():
                    x = env[f"c{i}_0"]
                    if kind == "t" and not x >= 0:
                        return False
                    if kind == "f" and not (0 <= x <= self.MAX):
                        return False
            elif spec.get("leaf") == "tf":
                d = spec["depth"]
                if not env[f"c0_{d}"] >= 0:
                    return False
                if not (0 <= env[f"c1_{d}"] <= self.MAX):
                    return False
            if "pair" in spec:
                a, b, op = spec["pair"]
                x, y = env[a.replace("@", "_")], env[b.replace("@", "_")]
                if op == "le" and not x <= y:
                    return False
                if op == "lt" and not x < y:
                    return False
            return True

        try:
            compiled = [(compile_term(f, names), r, v) for f, r, v in formula_parts]
        except Unknown as e:
            ctx.undec("R03.2", f"{FILE} {c.name}", f"guard outside the recognised fragment: {e}")
            return
        keys = sorted(qs)
        # full grid when small, otherwise one- and two-at-a-time sweeps around a valid base point
        base = {}
        for k in keys:
            if k.startswith("len"):
                lvl = int(k.split("_")[1])
                base[k] = next((n for n in LEN_PTS if spec["lens"].get(lvl, lambda n: True)(n)), 2)
            else:
                base[k] = 1.0
        if "pair" in spec:
            base[spec["pair"][1].replace("@", "_")] = 2.0
        points = []
        total = 1
        for k in keys:
            total *= len(qs[k])
        if total <= 60000:
            for combo in itertools.product(*[qs[k] for k in keys]):
                points.append(dict(zip(keys, combo)))
        else:
            for k1, k2 in itertools.combinations(keys, 2):
                for a in qs[k1]:
                    for b in qs[k2]:
                        p = dict(base)
                        p[k1], p[k2] = a, b
                        points.append(p)
        mismatch = None
        n_eval = 0
        for p in points:
            env = dict(p, MAX=self.MAX)
            rej = False
            for (fn, src), r, v in compiled:
                n_eval += 1
                if fn(env):
                    rej = True
                    break
            if rej == accept(p):
                mismatch = (p, rej)
                break
        site = f"{FILE}:{c.node.lineno} {c.name}"
        ctx.extra.setdefault("grid_points", {})[c.name] = len(points)
        if mismatch is None:
            ctx.ok("R03.2", site, f"reject formula of {len(compiled)} guard(s) == complement of the specified acceptance set on "
                                  f"{len(points)} grid points over {keys}")
            for (fn, src), r, v in compiled:
                ctx.ok("R03.2", f"{FILE}:{r.lineno} {c.name}.{v.name}", f"guard: {src[:110]}")
        else:
            p, rej = mismatch
            # blame: the guard that fires wrongly, or the class when a rejection is missing
            culprit = None
            if rej:
                env = dict(p, MAX=self.MAX)
                for (fn, src), r, v in compiled:
                    if fn(env):
                        culprit = (r, v, src)
                        break
            shown = {k: p[k] for k in keys if p[k] != base.get(k)} or p
            if culprit:
                r, v, src = culprit
                ctx.bad("R03.2", FILE, f"{c.name}.{v.name}", f"guard {src}",
                        f"{c.name} rejects valid coordinates: guard `{src}` fires at {shown} although the specification "
                        f"accepts this value", r.lineno, witness={"point": p, "code": "reject", "spec": "accept"})
            elif self._delegates(c, vals):
                ctx.undec("R03.2", site, f"no guard of {c.name} that the rule can read rejects {shown}, but its validators hand the coordinates to "
                                         f"`{self._delegates(c, vals)}`, which the engine did not open: the validation is written in another formulation")
            else:
                ctx.bad("R03.2", FILE, c.name, f"accepts {shown}",
                        f"{c.name} accepts invalid coordinates: no guard rejects {shown} (specification: times >= 0, "
                        f"frequencies in [0, {self.MAX}], arity/length rules of the type)", c.node.lineno,
                        witness={"point": p, "code": "accept", "spec": "reject"})
        self.check_normal_form(c, normalisers)

    def _tag_default(self, c):
        fi = self.ctx.models.field_map(c).get("type")
        d = getattr(fi, "default", None) if fi is not None else None
        return d.value if isinstance(d, ast.Constant) and isinstance(d.value, str) else None

    def _delegates(self, c, vals):
        """name of an in-package callable (function, method of the class, entry of a table, local function) that a validator of `c`
        calls with its coordinates (or a part of them) and that was NOT opened by the engine -- or None.  Where there is one, "no guard
        found" is not "no guard": the guard may be inside it."""
        ctx = self.ctx
        for v in vals:
            try:
                sm = ctx.summ.of_node(c.module, v.node, f"{c.qual}.{v.name}", c)
            except Exception:  # noqa: BLE001
                continue
            vp = ("param", sm.params[1] if len(sm.params) > 1 else sm.params[0])

            def derived(t):
                return any(x == vp or (x[0] == "elem") for x in walk(t))
            for e in sm.calls:
                t = e.term
                if t[0] != "call":
                    continue
                f = t[1]
                opaque = (f[0] == "global" and f[2] == "func") or (f[0] == "attr" and (f[1] in (("param", "cls"), ("param", "self")) or (f[1][0] == "global" and f[1][2] == "class"))) \
                    or f[0] in ("lambda", "sub", "ite") or (f[0] == "call" and f[1] in (("ext", "functools.partial"),))
                if opaque and any(derived(a) for a in list(t[2]) + [x for _, x in t[3]]):
                    return show(f)[:60]
                if f[0] == "builtin" and f[1] in ("map", "all", "any", "filter") and any(a[0] in ("global", "lambda") or (a[0] == "call" and a[1][0] in ("ext", "global")) for a in t[2]):
                    return show(t)[:60]
        # a validator produced by a factory and bound at class level (`_validate_coordinates = _coordinates_validator("Point")`)
        import ast as _ast0
        try:
            for k_ in c.mro():
                if not k_.module.name.startswith("soundevent"):
                    continue
                for st in k_.node.body:
                    if isinstance(st, _ast0.Assign) and isinstance(st.value, _ast0.Call) and isinstance(st.value.func, (_ast0.Name, _ast0.Attribute)):
                        sy_ = ctx.index.resolve_expr(k_.module, st.value.func)
                        if sy_ is not None and sy_.kind == "func" and sy_.module is not None and sy_.module.name.startswith("soundevent") \
                                and any((isinstance(x_, _ast0.Name) and "validator" in x_.id) or (isinstance(x_, _ast0.Attribute) and "validator" in x_.attr)
                                        for x_ in _ast0.walk(sy_.node)):
                            return _ast0.unparse(st)[:60]
        except Exception:  # noqa: BLE001
            pass
        # validators that hang on the annotation as the RESULT of a call (`AfterValidator(_validator(_check_time))`, a lambda, a partial):
        # there is a validator, but not as a function the rule can read
        import ast as _ast
        try:
            fi = ctx.models.field_map(c).get("coordinates")
            metas = ctx.models.annotated_meta(c.module, fi.ann) if fi is not None else []
        except Exception:  # noqa: BLE001
            metas = []
        for meta in metas:
            if isinstance(meta, _ast.Call) and _ast.unparse(meta.func).split(".")[-1] in ("AfterValidator", "BeforeValidator", "PlainValidator", "WrapValidator") \
                    and meta.args and not isinstance(meta.args[0], (_ast.Name, _ast.Attribute)):
                return _ast.unparse(meta)[:60]
        return None

    # ------------------------------------------------------------------ R03.7 the JSON dump is the coordinates themselves
    def check_serialisers(self, classes):
        """`re-validating its JSON dump yields an equal geometry` needs the dump to carry the coordinates unchanged: no class in
        the geometry hierarchy may install a serializer (field_serializer / model_serializer / PlainSerializer /
        json_encoders) -- pydantic's default dump of List[float] is trusted, a custom one would have to be proved."""
        ctx = self.ctx
        base = ctx.index.need_class(GEO, "BaseGeometry")
        seen = set()
        for c in [base] + list(classes):
            for k in c.mro():
                if k.qual in seen:
                    continue
                seen.add(k.qual)
                hits = []
                for name, fns in k.methods.items():
                    for fn in fns:
                        for d in fn.decorator_list:
                            dn = ast.unparse(d.func if isinstance(d, ast.Call) else d).split(".")[-1]
                            if dn in ("field_serializer", "model_serializer", "computed_field"):
                                hits.append((fn.lineno, f"@{dn} on {k.name}.{name}"))
                for st in k.node.body:
                    txt = ast.unparse(st)
                    if isinstance(st, (ast.AnnAssign, ast.Assign)) and any(w in txt for w in ("PlainSerializer", "WrapSerializer", "json_encoders", "ser_json_")):
                        hits.append((st.lineno, f"{k.name}: {txt[:60]}"))
                for line, what in hits:
                    ctx.bad("R03.7", k.module.relpath, k.name, what,
                            f"{what}: the JSON dump of a geometry no longer is its coordinates as validated (rounded, re-ordered or "
                            f"re-encoded values), so re-validating the dump need not give an equal geometry", line)
                if not hits:
                    ctx.ok("R03.7", f"{k.module.relpath}:{k.node.lineno} {k.name}", "no custom serializer: coordinates are dumped as they are")

    def _establishes(self, r, s, vp):
        """(depth, n) when the rejection r leaves only inputs whose lists at that depth have at least n elements, else None."""
        conj = [x for x in conjuncts(r.live) if x[0] != "inloop"]
        # the rejecting test is the last conjunct; the ones before it must be what earlier rejections left behind
        # (lower bounds on lengths), otherwise the rejection is conditional and establishes nothing
        def lower_bound(x):
            if self.depth(x, s, vp) is not None:
                return True  # truthiness of a (sub-)list of the coordinates: it is not empty
            return x[0] == "cmp" and x[1] in ("le", "lt") and x[2][0] == "const" and x[3][0] == "call" and x[3][1] == ("builtin", "len")
        if conj and conj[-1][0] == "not" and self.depth(conj[-1][1], s, vp) is not None and all(lower_bound(x) for x in conj[:-1]):
            return self.depth(conj[-1][1], s, vp), 1  # `if not X: raise` rejects the empty list
        if not conj or conj[-1][0] != "cmp" or not all(lower_bound(x) for x in conj[:-1]):
            return None
        cj = conj[-1]
        # len(X) < k  (stored as lt(len X, k)) / len(X) != k
        if cj[1] in ("lt", "le") and cj[2][0] == "call" and cj[2][1] == ("builtin", "len") and cj[3][0] == "const" and isinstance(cj[3][1], int):
            d = self.depth(cj[2][2][0], s, vp)
            if d is not None:
                return d, cj[3][1] + (1 if cj[1] == "le" else 0)
        if cj[1] == "ne" and any(y[0] == "call" and y[1] == ("builtin", "len") for y in (cj[2], cj[3])):
            ln = cj[2] if cj[2][0] == "call" else cj[3]
            o = cj[3] if ln is cj[2] else cj[2]
            d = self.depth(ln[2][0], s, vp)
            if d is not None and o[0] == "const" and isinstance(o[1], int):
                return d, o[1]
        return None

    # ------------------------------------------------------------------ R03.8 no indexing before a length is established
    def check_index_safety(self, c: ClassInfo):
        """Coordinate validators run in definition order (base classes first).  A constant subscript X[i] of the coordinates
        (or of one of their sub-lists) needs len(X) > i: established by a guard earlier on the same path or by a rejection in a
        validator that runs before -- otherwise the input [] / [[]] leaves the validator as IndexError, which pydantic does not
        turn into a validation error."""
        ctx, m = self.ctx, self.ctx.models
        spec = SPEC.get(c.name)
        if spec is None or spec.get("scalar"):
            return
        vals = [v for v in m.validators(c) if v.kind == "field" and v.fields == ("coordinates",) and v.mode == "after"]
        leaf_depth = spec["depth"] if spec.get("leaf") == "tf" else None  # depth of a point (whose own length is its arity)
        established: Dict[int, int] = {}
        for v in vals:
            s = ctx.summ.of_node(c.module, v.node, f"{c.qual}.{v.name}", c)
            vp = ("param", s.params[1] if len(s.params) > 1 else s.params[0])
            # uses
            for e in s.events:
                for where in (e.live, e.term):
                    for x in walk(where):
                        if x[0] != "sub" or x[2][0] != "const" or not isinstance(x[2][1], int) or isinstance(x[2][1], bool):
                            continue
                        d = self.depth(x[1], s, vp)
                        if d is None:
                            # first/last element of a level: X[0][0] has base X[0] (an element, depth d+1)
                            b = x[1]
                            if b[0] == "sub" and b[2][0] == "const":
                                db = self.depth(b[1], s, vp)
                                d = None if db is None else db + 1
                        if d is None:
                            continue
                        if x[1] in s.unpacked and x[2][1] >= 0 and x[2][1] < s.unpacked[x[1]]:
                            continue  # component of an unpack `a, b = X`: a wrong arity is a ValueError, not an IndexError
                        if leaf_depth is not None and d == leaf_depth and x[1][0] == "elem":
                            li = s.loops.get(x[1][1])
                            tt = li.target_text if li is not None else ""
                            if "," in tt:
                                continue  # component of a two-name unpack: a wrong arity is a ValueError, not an IndexError
                        need = x[2][1] + 1 if x[2][1] >= 0 else -x[2][1]
                        have = established.get(d, 0)
                        # a rejection earlier in the same validator whose loops (over the whole level) have run to completion
                        # before this point holds for every element of the level
                        for r in s.raises:
                            if r.idx < e.idx and not (set(r.loops) & set(e.loops)):
                                est = self._establishes(r, s, vp)
                                if est is not None and est[0] == d:
                                    have = max(have, est[1])
                        if leaf_depth is not None and d == leaf_depth:
                            # a `for time, frequency in <level>` loop that ended before this statement has forced arity 2
                            for lid, L in s.loops.items():
                                if L.kind == "for" and lid not in e.loops and getattr(L.node, "end_lineno", 10 ** 9) < e.lineno \
                                        and self.depth(("elem", lid), s, vp) == spec["depth"] \
                                        and ("," in (L.target_text or "") or s.unpacked.get(("elem", lid)) == 2):
                                    have = max(have, 2)
                        LEN = ("call", ("builtin", "len"), (x[1],), ())
                        for cj in conjuncts(e.live):
                            if cj == x[1]:
                                have = max(have, 1)  # `if X:` -- a non-empty list
                            if cj[0] == "cmp" and cj[1] == "le" and cj[2][0] == "const" and cj[3] == LEN and isinstance(cj[2][1], int):
                                have = max(have, cj[2][1])
                            if cj[0] == "cmp" and cj[1] == "lt" and cj[2][0] == "const" and cj[3] == LEN and isinstance(cj[2][1], int):
                                have = max(have, cj[2][1] + 1)
                            if cj[0] == "cmp" and cj[1] == "eq" and LEN in (cj[2], cj[3]):
                                o = cj[3] if cj[2] == LEN else cj[2]
                                if o[0] == "const" and isinstance(o[1], int):
                                    have = max(have, o[1])
                        site = f"{FILE}:{v.node.lineno} {c.name}.{v.name}"
                        if have >= need:
                            ctx.ok("R03.8", site, f"{show(x)[:40]}: length >= {need} established before")
                        elif self._delegates(c, vals):
                            ctx.undec("R03.8", site, f"`{show(x)[:40]}` needs a length of {need} established before; the validators of {c.name} that could "
                                                     f"establish it are not functions the rule can read (`{self._delegates(c, vals)}`)")
                        else:
                            ctx.bad("R03.8", FILE, f"{c.name}.{v.name}", f"{show(x)[:50]} without an established length",
                                    f"{c.name}.{v.name} indexes `{show(x)[:60]}` although no earlier guard or validator has rejected inputs "
                                    f"with fewer than {need} element(s) at that level (validators run in definition order): "
                                    f"{c.name}(coordinates={'[]' if d == 0 else '[[]]'}) escapes as IndexError instead of a validation error",
                                    v.node.lineno, witness={"coordinates": [] if d == 0 else [[]]})
            # what this validator establishes for the ones after it
            for r in s.raises:
                est = self._establishes(r, s, vp)
                if est is not None:
                    established[est[0]] = max(established.get(est[0], 0), est[1])
            if leaf_depth is not None:
                for lid, L in s.loops.items():
                    if self.depth(("elem", lid), s, vp) == spec["depth"] and ("," in (L.target_text or "") or s.unpacked.get(("elem", lid)) == 2):
                        established[leaf_depth] = max(established.get(leaf_depth, 0), 2)

    # ------------------------------------------------------------------ R03.3
    def check_normal_form(self, c: ClassInfo, normalisers):
        ctx = self.ctx
        vals_ = [v for v in self.ctx.models.validators(c) if v.kind == "field"]
        if c.name in ("BoundingBox", "LineString") and len(normalisers) == 0 and self._delegates(c, vals_):
            ctx.undec("R03.3", f"{FILE}:{c.node.lineno} {c.name}", f"no validator of {c.name} that the rule can read rewrites the coordinates; its validators are "
                                                                 f"`{self._delegates(c, vals_)}`, which the engine did not open")
            return
        if c.name == "BoundingBox":
            if len(normalisers) != 1:
                ctx.bad("R03.3", FILE, c.name, "normalising validator", f"{len(normalisers)} validators rewrite the coordinates (expected 1)", c.node.lineno)
                return
            v, s, vp = normalisers[0]
            rets = [r for r in s.returns]
            names = {("sub", vp, ("const", i)): f"b{i}" for i in range(4)}
            bad = None
            n = 0
            for r in rets:
                if r.term[0] != "list" or len(r.term[1]) != 4:
                    ctx.undec("R03.3", f"{FILE}:{r.lineno} {c.name}.{v.name}", f"returned value is not a 4-element list: {show(r.term)[:60]}")
                    return
                def unslice(t):
                    # v[a:b:c] of the four coordinates (the length is guarded) is the list of the selected components
                    if not isinstance(t, tuple) or not t:
                        return t
                    if t[0] == "sub" and t[1] == vp and t[2][0] == "slice" and all(y == NONE or (y[0] == "const" and isinstance(y[1], int)) for y in t[2][1:]):
                        idx = range(4)[slice(*[None if y == NONE else y[1] for y in t[2][1:]])]
                        return ("list", tuple(("sub", vp, ("const", i)) for i in idx))
                    return tuple(unslice(y) if isinstance(y, tuple) else y for y in t)
                try:
                    fns = [compile_term(unslice(x), names)[0] for x in r.term[1]]
                except Unknown as e:
                    ctx.undec("R03.3", f"{FILE}:{r.lineno} {c.name}.{v.name}", f"{e}")
                    return
                for o in weak_orderings(["b0", "b2"]):
                    for o2 in weak_orderings(["b1", "b3"]):
                        # values that no rounding / quantisation step leaves alone: "a permutation of its inputs" is exact
                        env = {"b0": 0.12345678912345 + o["b0"] * 0.70710678118655, "b2": 0.12345678912345 + o["b2"] * 0.70710678118655,
                               "b1": 10.98765432198765 + o2["b1"] * 1.41421356237310, "b3": 10.98765432198765 + o2["b3"] * 1.41421356237310}
                        out = [f(dict(env)) for f in fns]
                        n += 1
                        if not (out[0] <= out[2] and out[1] <= out[3] and sorted([out[0], out[2]]) == sorted([env["b0"], env["b2"]])
                                and sorted([out[1], out[3]]) == sorted([env["b1"], env["b3"]])):
                            bad = (env, out, r)
            if bad:
                env, out, r = bad
                ctx.bad("R03.3", FILE, f"{c.name}.{v.name}", f"return {show(r.term)[:80]}",
                        f"bounding box is not normalised: input {[env['b0'], env['b1'], env['b2'], env['b3']]} gives {out} "
                        f"(needs start <= end, low <= high, each axis a permutation of its inputs)", r.lineno,
                        witness={"input": env, "output": out})
            else:
                ctx.ok("R03.3", f"{FILE}:{v.node.lineno} {c.name}.{v.name}", f"start<=end and low<=high on all {n} orderings, axes not crossed")
        elif c.name == "LineString":
            if len(normalisers) != 1:
                ctx.bad("R03.3", FILE, c.name, "normalising validator", f"{len(normalisers)} validators rewrite the coordinates (expected 1): "
                        "a line string given backwards in time is not reversed", c.node.lineno)
                return
            v, s, vp = normalisers[0]
            first, last = ("sub", ("sub", vp, ("const", 0)), ("const", 0)), ("sub", ("sub", vp, ("const", -1)), ("const", 0))
            rev_forms = [("sub", vp, ("slice", NONE, NONE, ("const", -1))),
                         ("call", ("builtin", "list"), (("call", ("builtin", "reversed"), (vp,), ()),), ())]
            bad = None
            for o in weak_orderings(["first", "last"]):
                # a line that passed the rejecting guards: at least two points (any length guard on the path is true)
                env = {first: float(o["first"]), last: float(o["last"]), ("call", ("builtin", "len"), (vp,), ()): 5}
                outs = []
                for r in s.returns:
                    lv = peval(r.live, env)
                    if lv[0] == "const" and not lv[1]:
                        continue
                    outs.append((peval(r.term, env), lv, r))
                definite = [x for x in outs if x[1][0] == "const" and x[1][1]]
                if len(definite) != 1:
                    ctx.undec("R03.3", f"{FILE}:{v.node.lineno} {c.name}.{v.name}", "cannot decide which value is returned for an ordering of first/last time")
                    return
                val = definite[0][0]
                is_rev = val in rev_forms
                is_id = val == vp
                if o["first"] < o["last"] and not is_id:
                    bad = ("forward line is changed", o, definite[0][2])
                if o["first"] > o["last"] and not is_rev:
                    bad = ("backward line is not reversed", o, definite[0][2])
                if o["first"] == o["last"] and not is_id:
                    bad = ("a line whose first and last times are equal is reversed: the normaliser is not idempotent, so re-validating "
                           "the JSON dump of an accepted geometry yields a different (reversed) geometry", o, definite[0][2])
            if bad:
                ctx.bad("R03.3", FILE, f"{c.name}.{v.name}", "return v[::-1] if first time > last time else v",
                        f"line string normal form broken: {bad[0]} (first/last time ranks {bad[1]})", bad[2].lineno, witness=bad[1])
            else:
                ctx.ok("R03.3", f"{FILE}:{v.node.lineno} {c.name}.{v.name}", "reversed iff first time > last time; unchanged otherwise (idempotent)")
        else:
            if normalisers:
                v, s, vp = normalisers[0]
                ctx.bad("R03.3", FILE, f"{c.name}.{v.name}", "return <modified coordinates>",
                        f"validator of {c.name} returns something other than its input: {show([r for r in s.returns if r.term != vp][0].term)[:60]}",
                        v.node.lineno)

    # ------------------------------------------------------------------ R03.4
    def check_validate(self):
        ctx = self.ctx
        s = ctx.summ.of_func(GEO, "geometry_validate")
        site = f"{FILE}:{s.node.lineno} geometry_validate"
        obj, mode = ("param", s.params[0]), ("param", s.params[1])
        calls = [e for e in s.calls if e.term[1][0] == "attr" and e.term[1][2] == "model_validate"]
        # one validating call, or one per mode (the modes written as separate helpers): the call that is live for the mode
        per_mode = {}
        for mv_ in ("json", "dict", "attributes"):
            livem = [e for e in calls if peval(e.live, {mode: mv_}) != ("const", False)]
            if len(calls) == 1:
                livem = calls
            if len(livem) != 1:
                ctx.undec("R03.4", site, f"{len(calls)} model_validate calls, {len(livem)} of them live in mode {mv_!r}")
                return
            per_mode[mv_] = livem[0]
        call = calls[0].term
        kws = {}
        for c_ in calls:
            kws.update(callkw(c_.term))
        MAP = ("global", f"{GEO}:GEOMETRY_MAPPING", "assign")
        # options of the validating call that change WHAT is accepted (pydantic: strict refuses tuples / numeric strings that the
        # constructor coerces; a context can switch validators): the three modes must accept exactly what the constructor accepts
        for k_, v_ in sorted(kws.items()):
            if k_ in ("strict", "context") and v_ != NONE:
                ctx.bad("R03.4", FILE, "geometry_validate", f"model_validate(..., {k_}={show(v_)[:30]})",
                        f"geometry_validate passes {k_}={show(v_)[:30]} to model_validate: the accepted set of the dict / attributes / json "
                        f"entry points is no longer that of the constructor (strict mode rejects tuples and numeric strings the "
                        f"constructor coerces)", calls[0].lineno)
        SELF = ("global", f"{GEO}:geometry_validate", "func")

        def via(mval):
            """A mode handled by a tail call of the function itself in another mode on a derived object (`return
            geometry_validate(json.loads(obj), mode="dict")`): (return event, derived object, other mode) or None."""
            for r in s.returns:
                t = r.term
                if t[0] == "call" and t[1] == SELF and t[2] and peval(r.live, {mode: mval}) != ("const", False):
                    m2 = dict(t[3]).get("mode") or (t[2][1] if len(t[2]) > 1 else ("const", "json"))
                    if m2[0] == "const" and m2[1] != mval and m2[1] in ("json", "dict", "attributes") and via_ok(m2[1]):
                        return r, t[2][0], m2[1]
            return None

        def via_ok(m2):
            return not any(r.term[0] == "call" and r.term[1] == SELF and peval(r.live, {mode: m2}) != ("const", False) for r in s.returns)

        def ev(t, mval):
            from sa.sym import fold_sub as _fs
            from .common import expand_new_helpers as _xh
            v = via(mval)
            if v is not None:
                return _fs(_xh(ctx, peval(subst(t, {obj: v[1]}), {mode: v[2]})))
            # (helpers picked from a table of modes and applied -- `_type_key(_parse_json(obj))` -- are read where they are written)
            return _fs(_xh(ctx, peval(t, {mode: mval})))

        expected = {c_.name: ("global", f"{GEO}:{c_.name}", "class") for c_ in self.classes()}
        for mval in ("json", "dict", "attributes"):
            cev = per_mode[mval]
            call = cev.term
            kws = callkw(call)
            fa = ev(kws.get("from_attributes", ("const", False)), mval)
            cls = ev(call[1][1], mval)
            arg = ev(call[2][0], mval) if call[2] else None
            # what the path to the validating call has established (hasattr(obj, "type") and the like) holds in its operands
            asm = {}
            for cj in conjuncts(ev(cev.live, mval)):
                if cj[0] == "call":
                    asm[cj] = True
                elif cj[0] == "not" and cj[1][0] == "call":
                    asm[cj[1]] = False
            if asm:
                cls = peval(cls, asm)
            want_fa = mval == "attributes"
            if fa != ("const", want_fa):
                ctx.bad("R03.4", FILE, "geometry_validate", f"from_attributes in mode {mval!r}",
                        f"mode {mval!r}: from_attributes is {show(fa)} (must be {want_fa}): "
                        + ("attribute objects are rejected" if want_fa else "arbitrary objects are read by attribute"), calls[0].lineno)
            else:
                ctx.ok("R03.4", site, f"mode {mval!r}: from_attributes={want_fa}")
            # class chosen by the object's own tag
            good = False
            tag = None
            if cls[0] == "sub" and cls[1] == MAP:
                tag = cls[2]
            elif cls[0] == "call" and cls[1] == ("attr", MAP, "get") and len(cls[2]) in (1, 2) and not cls[3] and cls[2][1:] in ((), (NONE,)):
                tag = cls[2][0]  # MAP.get(tag): the same lookup, None for an unknown tag (which must then be rejected)
            elif cls[0] == "ite":
                # a literal tag -> class table read through .get(): a chain of comparisons of ONE quantity with the tags, which
                # must give every tag its own class (the table itself is R03.1's)
                atoms = [x for x in walk(cls) if x[0] == "cmp" and x[1] == "eq" and x[3][0] == "const" and isinstance(x[3][1], str)]
                Ts = {x[2] for x in atoms}
                if len(Ts) == 1 and all(peval(cls, {a: a[3][1] == k for a in atoms}) == g for k, g in expected.items()):
                    tag = Ts.pop()
            if tag is not None:
                if mval == "attributes":
                    good = tag == ("attr", obj, "type")
                else:
                    good = tag[0] == "sub" and tag[2] == ("const", "type") and (tag[1] == obj if mval == "dict" else
                                                                                any(x[0] == "call" and x[1] == ("ext", "json.loads") for x in walk(tag[1])))
            def unopened(t_):
                """an in-package helper the reference tree does not have, left as a call (it raises, or loops): what it returns is not
                visible to this rule"""
                from sa.sym import PINNED as _PIN
                for x_ in walk(t_):
                    if x_[0] == "call" and x_[1][0] == "global" and x_[1][2] == "func" and ":" in x_[1][1]:
                        mn_, fn_ = x_[1][1].split(":")
                        if fn_ not in _PIN.get(mn_, ()):
                            return fn_
                return None
            if good:
                ctx.ok("R03.4", site, f"mode {mval!r}: class = GEOMETRY_MAPPING[object's own type tag]")
            elif unopened(cls):
                ctx.undec("R03.4", site, f"mode {mval!r}: the class is looked up with `{show(cls)[:70]}`; the helper `{unopened(cls)}` is not opened by the engine")
            else:
                ctx.bad("R03.4", FILE, "geometry_validate", f"class in mode {mval!r}: {show(cls)[:60]}",
                        f"mode {mval!r}: the class handed to model_validate is {show(cls)[:80]}, not GEOMETRY_MAPPING[<the object's type>]",
                        calls[0].lineno)
            if mval == "json":
                # must require str and parse
                req = [r for r in s.raises if peval(r.live, {mode: "json", ("call", ("builtin", "isinstance"), (obj, ("builtin", "str")), ()): False}) == ("const", True)]
                if req and arg is not None and any(x[0] == "call" and x[1] == ("ext", "json.loads") for x in walk(arg)):
                    ctx.ok("R03.4", site, "mode 'json': non-str rejected, text parsed with json.loads")
                elif arg is not None and unopened(arg):
                    ctx.undec("R03.4", site, f"mode 'json': the text goes through the helper `{unopened(arg)}`, which the engine did not open")
                else:
                    ctx.bad("R03.4", FILE, "geometry_validate", "json mode handling",
                            "mode 'json' does not (reject non-strings and) parse the text with json.loads before validation", s.node.lineno)
        # errors become ValueError
        # a well-formed input of each mode reaches the validating call: none of the function's own rejections is live for it
        from sa.peval import truth as _truth
        from sa.sym import subst as _subst
        decided_for = {}
        for mval in ("json", "dict", "attributes"):
            def decided(t_, mval=mval, stage1=False, known=True):
                if stage1 or via(mval) is None:
                    r_ = peval(t_, {mode: mval})
                else:
                    r_ = ev(t_, mval)
                # comparisons of one quantity with the type tags: the well-formed input carries a known tag, whichever it is
                tcmp = [x for x in walk(r_) if x[0] == "cmp" and x[1] in ("eq", "ne") and x[3][0] == "const" and x[3][1] in expected]
                if tcmp:
                    outs = set()
                    for kk in (list(expected) if known else ["<no such geometry type>"]):
                        outs.add(decided1(peval(r_, {x: (x[3][1] == kk) == (x[1] == "eq") for x in tcmp}), mval, known))
                    return outs.pop() if len(outs) == 1 else None
                return decided1(r_, mval, known)

            def decided1(r_, mval, known):
                asg = {}
                for x in walk(r_):
                    if x[0] == "call" and x[1] == ("builtin", "isinstance") and len(x[2]) == 2:
                        what, cls_ = x[2]
                        loaded = any(y[0] == "call" and y[1] == ("ext", "json.loads") for y in walk(what))
                        if cls_ == ("builtin", "dict"):
                            asg[x] = (mval == "dict") or (mval == "json" and loaded)
                        elif cls_ == ("builtin", "str"):
                            asg[x] = mval == "json" and not loaded
                        elif cls_[0] == "tuple" or cls_ in (("ext", "collections.abc.Mapping"), ("ext", "typing.Mapping")):
                            asg[x] = mval in ("dict", "json")
                    elif x[0] == "call" and x[1] == ("builtin", "hasattr") and len(x[2]) == 2 and x[2][1] == ("const", "type"):
                        asg[x] = mval == "attributes"
                    elif x[0] == "cmp" and x[1] in ("in", "notin") and x[2] == ("const", "type"):
                        asg[x] = (mval != "attributes") == (x[1] == "in")
                    elif x[0] == "cmp" and x[1] in ("in", "notin") and x[3] == MAP:
                        asg[x] = (x[1] == "in") == known
                    elif x[0] == "cmp" and x[1] in ("is", "isnot") and x[3] == NONE and x[2][0] == "call" and x[2][1] == ("attr", MAP, "get"):
                        asg[x] = (x[1] == "isnot") == known  # the type tag is a known one
                    elif x[0] == "caught":
                        asg[x] = False
                return _truth(peval(r_, asg)) if asg else _truth(r_)
            decided_for[mval] = decided
            live_raises = [r for r in s.raises if not r.in_handler and decided(r.live) is not False]
            reach = decided(per_mode[mval].live)
            v_ = via(mval)
            if v_ is not None:
                # first leg: the input reaches the tail call, no own rejection is live before it
                live_raises = [r for r in s.raises if not r.in_handler and decided(r.live, stage1=True) is not False] + live_raises
                r1 = decided(v_[0].live, stage1=True)
                reach = None if (r1 is None or reach is None) else (r1 and reach)
            if live_raises and decided(live_raises[0].live) is True:
                ctx.bad("R03.4", FILE, "geometry_validate", f"mode {mval!r}: raise under `{show(live_raises[0].live)[-70:]}`",
                        f"geometry_validate(mode={mval!r}) rejects a well-formed {'JSON string' if mval == 'json' else ('dictionary' if mval == 'dict' else 'attribute object')} "
                        f"of a known geometry type before validating it: the rejection `{show(live_raises[0].live)[-90:]}` is live for it", live_raises[0].lineno)
            elif live_raises or reach is None:
                ctx.undec("R03.4", site, f"mode {mval!r}: cannot decide whether a well-formed input reaches model_validate")
            elif reach is False:
                ctx.bad("R03.4", FILE, "geometry_validate", f"mode {mval!r}: model_validate not reached",
                        f"geometry_validate(mode={mval!r}) does not reach the validating call for a well-formed input", calls[0].lineno)
            else:
                ctx.ok("R03.4", site, f"mode {mval!r}: a well-formed input reaches model_validate, no own rejection is live")
        hs = [h for t in s.tries.values() for h in t.handlers if any(n.split(".")[-1] == "ValidationError" for n in h[1])]
        conv = [r for r in s.raises if r.in_handler and any(h[0] in r.in_handler for h in hs)]
        ok = conv and all((r.term[1] if r.term[0] == "raise_from" else r.term)[1] == ("builtin", "ValueError") for r in conv)
        if all(c_.handlers for c_ in calls) and ok:
            ctx.ok("R03.4", site, "ValidationError converted to ValueError")
        else:
            ctx.bad("R03.4", FILE, "geometry_validate", "except ValidationError -> ValueError",
                    "a pydantic ValidationError is not converted into the documented ValueError", calls[0].lineno)
        unknown = [r for r in s.raises if any(x == ("cmp", "notin", x[2], MAP) for x in conjuncts(r.live) if x[0] == "cmp" and x[1] == "notin")
                   or any(x[0] == "cmp" and x[1] == "is" and x[3] == NONE and x[2][0] == "call" and x[2][1] == ("attr", MAP, "get")
                          and any(x[2] == c_.term[1][1] for c_ in calls) for x in conjuncts(r.live))]
        if not unknown:
            # by scenario: an input whose tag is none of the table's meets a live rejection of the function's own in every mode
            def rejected(mval):
                rs = [r for r in s.raises if not r.in_handler and decided_for[mval](r.live, known=False) is True]
                return bool(rs) and all((r.term[1] if r.term[0] == "raise_from" else r.term)[1] == ("builtin", "ValueError") for r in rs)
            if all(rejected(mv_) for mv_ in ("json", "dict", "attributes")):
                unknown = [True]
        if unknown:
            ctx.ok("R03.4", site, "unknown tag rejected with ValueError")
        else:
            ctx.bad("R03.4", FILE, "geometry_validate", "if geom_type not in GEOMETRY_MAPPING: raise",
                    "an unknown type tag is not rejected before the table lookup (KeyError instead of a validation error)", s.node.lineno)


def run_validation_subset(ctx: Ctx):
    """What every computation on geometries rests on: a constructed geometry holds the coordinates it was given (only BoundingBox
    and LineString are re-ordered, nothing is rounded, dropped or added), and exactly the valid coordinates are accepted."""
    with ctx.delegated("C03/"):
        ctx.rule("R03.1", "type table: union, ALL_GEOMETRY_TYPES, Literal tags, GEOMETRY_MAPPING", 13)
        ctx.rule("R03.2", "reject formula of each class == complement of the specified acceptance set (grid incl. all endpoints)", 35)
        ctx.rule("R03.3", "normalising validators produce normal form on every ordering", 2)
        ctx.rule("R03.5", "validator discipline: after-mode on coordinates, returns value or raises convertible error", 9)
        ctx.rule("R03.6", "every (time, frequency) point is forced to have exactly two values", 5)
        c = C03(ctx)
        for k in c.check_table():
            c.check_class(k)


def run(ctx: Ctx):
    ctx.rule("R03.1", "type table: union, ALL_GEOMETRY_TYPES, Literal tags, GEOMETRY_MAPPING", 13)
    ctx.rule("R03.2", "reject formula of each class == complement of the specified acceptance set (grid incl. all endpoints)", 35)
    ctx.rule("R03.3", "normalising validators produce normal form on every ordering", 2)
    ctx.rule("R03.4", "geometry_validate: class from own tag, from_attributes only for 'attributes', errors converted", 9)
    ctx.rule("R03.5", "validator discipline: after-mode on coordinates, returns value or raises convertible error", 9)
    ctx.rule("R03.6", "every (time, frequency) point is forced to have exactly two values", 5)
    ctx.rule("R03.7", "no serializer alters the dumped coordinates", 10)
    ctx.rule("R03.8", "no subscript of the coordinates before a length is established (validator order)", 4)
    c = C03(ctx)
    classes = c.check_table()
    c.check_serialisers(classes)
    for k in classes:
        c.check_class(k)
        c.check_index_safety(k)
    c.check_validate()
    return EXPLANATION, ASSUMPTIONS
