"""Shared discovery of the AOEF adapter tables (used by C01, C02, C18).

Everything here is *discovered* from the source on each run: the leaf adapters (``DataAdapter``
subclasses + ``NoteAdapter``), the collection adapters listed in ``ADAPTERS``, their constructor
wiring, and the writer/reader summaries.
"""

from __future__ import annotations

import ast
import re
from dataclasses import dataclass, field
from typing import Dict, List, Optional, Tuple

from sa.index import AnalysisError, AnchorMissing, ClassInfo, Index, dotted_name
from sa.models import strip_opt
from sa.report import Ctx
from sa.sym import NONE, Summary, show, subst, walk

AOEF_PKG = "soundevent.io.aoef"
ADAPTERS_MOD = "soundevent.io.aoef.adapters"
DATA_ADAPTER = f"{ADAPTERS_MOD}:DataAdapter"


def relfile(ci_or_mod) -> str:
    m = getattr(ci_or_mod, "module", ci_or_mod)
    return m.relpath


def camel(name: str) -> str:
    return "".join(p.capitalize() for p in name.strip("_").split("_"))


class _LeafTable(dict):
    """adapter leaves by class qual; a class that moved to another module is found under its reference qual as well"""

    def _key(self, k):
        if dict.__contains__(self, k) or ":" not in k:
            return k
        name = k.split(":")[-1]
        hits = [q for q in dict.keys(self) if q.split(":")[-1] == name]
        return hits[0] if len(hits) == 1 else k

    def __getitem__(self, k):
        return dict.__getitem__(self, self._key(k))

    def get(self, k, default=None):
        return dict.get(self, self._key(k), default)

    def __contains__(self, k):
        return dict.__contains__(self, self._key(k))


@dataclass
class Leaf:
    ci: ClassInfo
    D: ClassInfo
    O: ClassInfo
    writer_name: str
    reader_name: str
    writer: Summary
    reader: Summary
    has_store: bool
    dep_attrs: Dict[str, Optional[ClassInfo]] = field(default_factory=dict)  # self.<attr> -> adapter class
    init_params: List[str] = field(default_factory=list)
    init_defaults: set = field(default_factory=set)
    init_param_cls: Dict[str, Optional[ClassInfo]] = field(default_factory=dict)
    param_attr: Dict[str, str] = field(default_factory=dict)  # init param -> attribute it is stored in

    @property
    def name(self):
        return self.ci.name

    @property
    def wobj(self):
        return ("param", self.writer.params[1])

    @property
    def robj(self):
        return ("param", self.reader.params[1])


@dataclass
class Wire:
    attr: str
    cls: ClassInfo
    call: tuple  # the constructor call term
    args: List[tuple]
    kwargs: Dict[str, tuple]
    param: Optional[str]  # the __init__ parameter it may be overridden by
    owner: ClassInfo  # class whose __init__ wires it
    node: ast.AST
    value: tuple = ()  # the whole value stored in self.<attr>
    summ: object = None  # summary of the __init__ that stores it


@dataclass
class Collection:
    row: str  # type name in ADAPTERS
    ci: ClassInfo
    D: ClassInfo
    O: ClassInfo
    wires: Dict[str, Wire]
    chain: List[ClassInfo]  # mro restricted to aoef adapters (most derived first)


class Aoef:
    def __init__(self, ctx: Ctx):
        self.ctx = ctx
        self.index = ctx.index
        self.models = ctx.models
        self.summ = ctx.summ
        self.leaves = _LeafTable()
        self.collections: List[Collection] = []
        self.table_rows: List[Tuple[str, Optional[ClassInfo], Optional[ClassInfo], ast.AST]] = []
        self._discover_leaves()
        self._discover_collections()

    # ------------------------------------------------------------------ leaves
    def _resolve_cls(self, mod, expr) -> Optional[ClassInfo]:
        s = self.index.resolve_expr(mod, expr)
        if s is not None and s.kind == "class":
            return s.cls
        return None

    def _discover_leaves(self):
        ix = self.index
        for m in ix.modules.values():
            if not m.name.startswith(AOEF_PKG + "."):
                continue
            for ci in m.classes.values():
                if ix.canonical_qual("class", ci.qual) == DATA_ADAPTER:
                    continue
                base_sub = None
                for b in ci.base_exprs:
                    if isinstance(b, ast.Subscript):
                        s = ix.resolve_expr(m, b.value)
                        if s is not None and ix.canonical_qual("class", s.qual) == DATA_ADAPTER:
                            base_sub = b
                if base_sub is not None:
                    args = base_sub.slice.elts if isinstance(base_sub.slice, ast.Tuple) else [base_sub.slice]
                    D = self._resolve_cls(m, args[0]) if len(args) >= 2 else None
                    O = self._resolve_cls(m, args[1]) if len(args) >= 2 else None
                    if D is None or O is None:
                        raise AnalysisError(f"cannot resolve DataAdapter type arguments of {ci.qual}",
                                            rule="E0", site=f"{m.relpath}:{ci.node.lineno}")
                    self._add_leaf(ci, D, O, "assemble_aoef", "assemble_soundevent", True)
                elif (not self.models.is_model(ci) and "to_aoef" in ci.methods and "to_soundevent" in ci.methods
                      and "__init__" in ci.methods and not ci.bases
                      and self._looks_like_element_adapter(ci)):
                    w = ci.methods["to_aoef"][-1]
                    r = ci.methods["to_soundevent"][-1]
                    D = self._resolve_cls(m, w.args.args[1].annotation) if len(w.args.args) > 1 and w.args.args[1].annotation else None
                    O = self._resolve_cls(m, w.returns) if w.returns is not None else None
                    if D is not None and O is not None and self.models.is_model(D):
                        self._add_leaf(ci, D, O, "to_aoef", "to_soundevent", False)

    def _looks_like_element_adapter(self, ci: ClassInfo) -> bool:
        # NoteAdapter-like: constructed with another adapter, no audio_dir parameter (collections have it)
        init = ci.methods["__init__"][-1]
        names = [a.arg for a in init.args.args]
        return "audio_dir" not in names and not any(k.arg for k in [init.args.kwarg] if k)

    def _add_leaf(self, ci, D, O, wname, rname, has_store):
        w = self.summ.of_node(ci.module, ci.methods[wname][-1], f"{ci.qual}.{wname}", ci) if wname in ci.methods else None
        r = self.summ.of_node(ci.module, ci.methods[rname][-1], f"{ci.qual}.{rname}", ci) if rname in ci.methods else None
        if w is None or r is None:
            raise AnchorMissing(f"{ci.qual} lacks {wname}/{rname}", site=f"{ci.module.relpath}:{ci.node.lineno}")
        leaf = Leaf(ci, D, O, wname, rname, w, r, has_store)
        found = ci.find_method("__init__")
        if found and self.index.canonical_qual("class", found[0].qual) != DATA_ADAPTER:
            c, init = found
            s = self.summ.of_node(c.module, init, f"{c.qual}.__init__", c)
            leaf.init_params = [p for p in s.params if p != "self"]
            leaf.init_defaults = set(s.defaults)  # parameters that may be left out (an option with a default)
            for p in leaf.init_params:
                cls = None
                if p in s.annotations:
                    ann = s.annotations[p]
                    if isinstance(ann, ast.Subscript) and (dotted_name(ann.value) or "").endswith("Optional"):
                        ann = ann.slice
                    cls = self._resolve_cls(c.module, ann)
                leaf.init_param_cls[p] = cls
            for e in s.of("store"):
                tgt, val = e.term[1], e.term[2]
                if tgt[0] == "attr" and tgt[1] == ("param", "self") and val[0] == "param":
                    leaf.param_attr[val[1]] = tgt[2]
                    leaf.dep_attrs[tgt[2]] = leaf.init_param_cls.get(val[1])
        self.leaves[ci.qual] = leaf

    def finish_leaf_deps(self):
        """Unannotated constructor parameters: fall back to the parameter-name <-> class-name convention."""
        by_name = {l.ci.name: l.ci for l in self.leaves.values()}
        notes = []
        for leaf in self.leaves.values():
            for p in leaf.init_params:
                if leaf.init_param_cls.get(p) is None and "adapter" in p:
                    guess = by_name.get(camel(p)) or by_name.get(camel(p).replace("Soundevent", "SoundEvent"))
                    if guess is not None:
                        leaf.init_param_cls[p] = guess
                        if p in leaf.param_attr:
                            leaf.dep_attrs[leaf.param_attr[p]] = guess
                        notes.append(f"{leaf.name}.__init__({p}) unannotated: class taken from name -> {guess.name}")
        return notes

    def leaf_by_D(self, D: ClassInfo) -> Optional[Leaf]:
        for l in self.leaves.values():
            if l.D.qual == D.qual:
                return l
        return None

    def leaf_by_O(self, O: ClassInfo) -> Optional[Leaf]:
        for l in self.leaves.values():
            if l.O.qual == O.qual:
                return l
        return None

    # ------------------------------------------------------------------ collections
    def _discover_collections(self):
        ix = self.index
        m, tab = ix.need_assign(AOEF_PKG, "ADAPTERS")
        if not isinstance(tab, (ast.List, ast.Tuple)):
            raise AnalysisError("ADAPTERS is not a literal list", rule="R01.6", site=f"{m.relpath}:{tab.lineno}")
        for row in tab.elts:
            if not (isinstance(row, ast.Tuple) and len(row.elts) == 3 and isinstance(row.elts[0], ast.Constant)):
                raise AnalysisError("ADAPTERS row is not a (name, data class, adapter) literal", rule="R01.6",
                                    site=f"{m.relpath}:{row.lineno}")
            name = row.elts[0].value
            D = self._resolve_cls(m, row.elts[1])
            A = self._resolve_cls(m, row.elts[2])
            self.table_rows.append((name, D, A, row))
            if D is None or A is None:
                raise AnalysisError(f"cannot resolve ADAPTERS row {name!r}", rule="R01.6",
                                    site=f"{m.relpath}:{row.lineno}")
            found = A.find_method("to_aoef")
            if not found:
                raise AnchorMissing(f"{A.qual}.to_aoef not found")
            c, w = found
            O = self._resolve_cls(c.module, w.returns) if w.returns is not None else None
            if O is None:
                raise AnalysisError(f"cannot resolve document class of {A.qual}.to_aoef (return annotation)",
                                    rule="R01.6", site=f"{c.module.relpath}:{w.lineno}")
            chain = [k for k in A.mro() if k.module.name.startswith(AOEF_PKG)]
            self.collections.append(Collection(name, A, D, O, self._wires(A), chain))

    def _wires(self, A: ClassInfo) -> Dict[str, Wire]:
        """self.<attr> = <param> or Cls(args) assignments along the __init__ chain (base first)."""
        wires: Dict[str, Wire] = {}
        chain = [c for c in reversed(A.mro()) if "__init__" in c.methods]
        for c in chain:
            s = self.summ.of_node(c.module, c.methods["__init__"][-1], f"{c.qual}.__init__", c)
            for e in s.of("store"):
                tgt, val = e.term[1], e.term[2]
                if not (tgt[0] == "attr" and tgt[1] == ("param", "self")):
                    continue
                call, param = None, None
                cands = val[1] if val[0] == "or" else (val,)
                if val[0] == "ite" and {val[2][0], val[3][0]} == {"param", "call"}:
                    # the statement form of `param or Cls(...)`: `if not param: param = Cls(...)` / `Cls(...) if param is None else param`
                    prm = val[2] if val[2][0] == "param" else val[3]
                    absent = val[1] in (("not", prm), ("cmp", "is", prm, ("const", None)))
                    present = val[1] in (prm, ("cmp", "isnot", prm, ("const", None)))
                    if (absent and val[3] == prm) or (present and val[2] == prm):
                        cands = (val[2], val[3])
                for x in cands:
                    if x[0] == "param":
                        param = x[1]
                    if x[0] == "call" and x[1][0] == "global" and x[1][2] == "class":
                        call = x
                if call is None:
                    continue
                cls = self.index.class_by_qual(call[1][1])
                if cls is None or cls.qual not in self.leaves:
                    continue
                wires[tgt[2]] = Wire(tgt[2], cls, call, list(call[2]), dict(call[3]), param, c, e.node, val, s)
        return wires

    # ------------------------------------------------------------------ helpers on terms
    def self_attr(self, t) -> Optional[str]:
        if t[0] == "attr" and t[1] == ("param", "self"):
            return t[2]
        return None

    def method_call(self, t) -> Optional[Tuple[str, str, tuple]]:
        """('call', self.<attr>.<meth>, args..) -> (attr, meth, call term); self.<meth>(..) -> ('', meth, t)."""
        if t[0] != "call":
            return None
        f = t[1]
        if f[0] == "attr":
            a = self.self_attr(f[1])
            if a is not None:
                return a, f[2], t
            if f[1] == ("param", "self"):
                return "", f[2], t
        return None

    def is_super_call(self, t, meth) -> bool:
        return (t[0] == "call" and t[1][0] == "attr" and t[1][2] == meth and t[1][1][0] == "call"
                and t[1][1][1] == ("builtin", "super"))

    def ctor_call(self, t, cls: ClassInfo) -> bool:
        return t[0] == "call" and t[1][0] == "global" and t[1][1] == cls.qual


def attr_reads(t, base) -> List[str]:
    """Names f such that base.f occurs in t."""
    out = []
    for x in walk(t):
        if x[0] == "attr" and x[1] == base and x[2] not in out:
            out.append(x[2])
    return out


def find_ctor_returns(summ: Summary, cls: ClassInfo) -> List[Tuple[object, tuple]]:
    """Return events whose value is (an ite over) a call of ``cls``; gives (event, call term) pairs."""
    out = []
    for e in summ.returns:
        stack = [e.term]
        while stack:
            t = stack.pop()
            if t[0] == "ite":
                stack += [t[2], t[3]]
            elif t[0] == "call" and t[1][0] == "global" and t[1][1] == cls.qual:
                out.append((e, t))
            else:
                out.append((e, None))
    return out



def adapter_selections(summ, pkg=None):
    """Call events of `summ` that construct the adapter class selected from the ADAPTERS table.

    Two spellings select a row: the dispatch loop (`for name, data_cls, adapter_cls in ADAPTERS: if <test>: adapter_cls(...)`)
    and a lookup table built from the rows (`{name: adapter_cls for name, _, adapter_cls in ADAPTERS}[key](...)`).
    Yields dicts: event, form ('loop' | 'table'), elem (the row term), key (table form: the lookup key; the dict is
    keyed by column `keycol`), loop id."""
    from sa.sym import NO_MATCH, conjuncts, walk
    pkg = pkg or AOEF_PKG
    table = ("global", f"{pkg}:ADAPTERS", "assign")
    out = []
    for c in summ.calls:
        f = c.term[1]
        # next() form: next((row[2] for row in ADAPTERS if <test>), None)(...)
        if f[0] == "call" and f[1] == ("builtin", "next") and len(f[2]) == 2 and f[2][1] in (("const", None), NO_MATCH) and f[2][0][0] == "comp" \
                and f[2][0][1] == "gen" and len(f[2][0][3]) == 1 and f[2][0][3][0][1] == table:
            lid, _, conds = f[2][0][3][0]
            if f[2][0][2] == ("sub", ("elem", lid), ("const", 2)):
                out.append({"event": c, "form": "next", "elem": ("elem", lid), "loop": lid, "conds": list(conds), "default_guard":
                            ("cmp", "isnot", f, f[2][1]) in conjuncts(c.live)})
            continue
        # table form read with .get(key): None for a name that is not in the table -- the construction must be guarded against it
        if f[0] == "call" and f[1][0] == "attr" and f[1][2] == "get" and len(f[2]) in (1, 2) and f[2][1:] in ((), (("const", None),)) and not f[3]:
            d, key = f[1][1], f[2][0]
            tabs = (table, ("call", ("builtin", "reversed"), (table,), ()), ("sub", table, ("slice", ("const", None), ("const", None), ("const", -1))))
            if d[0] == "comp" and d[1] == "dict" and len(d[3]) == 1 and d[3][0][1] in tabs and not d[3][0][2]:
                e = ("elem", d[3][0][0])
                kv = d[2]
                if kv[0] == "kv" and kv[2] == ("sub", e, ("const", 2)) and kv[1][0] == "sub" and kv[1][1] == e and kv[1][2][0] == "const" \
                        and ("cmp", "isnot", f, ("const", None)) in conjuncts(c.live):
                    out.append({"event": c, "form": "table", "elem": e, "key": key, "keycol": kv[1][2][1], "loop": d[3][0][0]})
            continue
        if f[0] != "sub":
            continue
        # loop form: elem(L)[2] with L a statement loop over ADAPTERS
        if f[1][0] == "elem" and f[2] == ("const", 2):
            li = summ.loops.get(f[1][1])
            if li is not None and li.iter == table and li.kind == "for":
                out.append({"event": c, "form": "loop", "elem": f[1], "loop": li.id})
                continue
        # table form: {row[i]: row[2] for row in ADAPTERS}[key]  (also over reversed(ADAPTERS): names are distinct)
        d, key = f[1], f[2]
        if d[0] == "comp" and d[1] == "dict" and len(d[3]) == 1 and d[3][0][1] in (table, ("call", ("builtin", "reversed"), (table,), ()),
                                                                                   ("sub", table, ("slice", ("const", None), ("const", None), ("const", -1)))) \
                and not d[3][0][2]:
            e = ("elem", d[3][0][0])
            kv = d[2]
            if kv[0] == "kv" and kv[2] == ("sub", e, ("const", 2)) and kv[1][0] == "sub" and kv[1][1] == e and kv[1][2][0] == "const":
                out.append({"event": c, "form": "table", "elem": e, "key": key, "keycol": kv[1][2][1], "loop": d[3][0][0]})
    return out
