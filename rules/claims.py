"""What MANIFEST.json claims, per property (source of truth for tools/gen_manifest.py)."""

NOTE_COMMON = ("Trusted base: python's ast grammar; the documented semantics of pydantic, shapely, scipy, scikit-learn, "
               "numpy, xarray, rasterio and soundfile; NaN ignored in comparisons. The check decides the listed structural "
               "necessary conditions for all inputs; it does not decide value-level behaviour.")

CLAIMS = {
    "C01": {
        "text": "Static decision, for every input, of the structural clauses of the AOEF round trip: all declared fields of all "
                "24 writer/reader pairs are carried and read back through mutually inverse field maps, every elision is "
                "restored, every sub-adapter store is emitted as a top-level list and re-registered in wiring order, and the "
                "type table is most-specific-first and consistent with the discriminated union. Codec fidelity of values and "
                "the n-cycle fixpoint are not decided.",
        "design_ref": "DESIGN.md section 3, C01 (R01.1-R01.6)",
        "note": NOTE_COMMON,
        "technique": "ast-based field-flow analysis over gated-SSA summaries of every adapter pair; wiring-graph order check",
    },
}

NOT_APPLICABLE = {f"C{i:02d}": "checker under construction in this session (static rules designed in DESIGN.md section 3); "
                               "not yet claimed" for i in range(2, 21)}

FIX_COMMITS = []
