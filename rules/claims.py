"""What MANIFEST.json claims, per property (source of truth for tools/gen_manifest.py)."""

NOTE_COMMON = ("Trusted base: python's ast grammar; the documented semantics of pydantic, shapely, scipy, scikit-learn, "
               "numpy, xarray, rasterio and soundfile; NaN ignored in comparisons. The check decides the listed structural "
               "necessary conditions for all inputs; it does not decide value-level behaviour.")

CLAIMS = {
    "C01": {
        "text": "Static decision, for every input, of the structural clauses of the AOEF round trip: all declared fields of all "
                "24 writer/reader pairs are carried and read back through mutually inverse field maps, every elision is "
                "restored, every sub-adapter store is emitted as a top-level list and re-registered in wiring order, and the "
                "type table is most-specific-first and consistent with the discriminated union. Codec fidelity of values and "
                "the n-cycle fixpoint are not decided.",
        "design_ref": "DESIGN.md section 3, C01 (R01.1-R01.6)",
        "note": NOTE_COMMON,
        "technique": "ast-based field-flow analysis over gated-SSA summaries of every adapter pair; wiring-graph order check",
    },
    "C02": {
        "text": "Static decision, for every object graph, of the structural clauses that make a written document closed under "
                "reference: no conversion can write a store after it was snapshot (Python evaluation order incl. later "
                "keyword arguments and super() results), every reference keyword goes through the owning adapter's "
                "registration with the matching data class, sub-adapters share the collection's stores, ids are allocated "
                "before insertion (dense tag ids keyed by the stored (key, value)), objects are stored after assembly in "
                "insertion order, and only DataAdapter methods write the stores. Run-time distinctness of objects is trusted.",
        "design_ref": "DESIGN.md section 3, C02 (R02.1-R02.6)",
        "note": NOTE_COMMON,
        "technique": "evaluation-order (may-execute-after) analysis of store snapshots vs conversions over the adapter wiring graph; who-may-write sweep",
    },
    "C18": {
        "text": "Static decision of the parameter-flow and path-term clauses of audio-path relocation: audio_dir flows hop by hop "
                "from io.save/io.load into the recording adapter of all 8 collection adapters; the stored path is "
                "relative_to(audio_dir) iff a directory is given with the error propagating; the loaded path is "
                "audio_dir / stored iff given; the conversion completes before the file is written. pathlib semantics trusted.",
        "design_ref": "DESIGN.md section 3, C18 (R18.1-R18.3)",
        "note": NOTE_COMMON,
        "technique": "interprocedural parameter-flow closure over resolved callees and constructor wiring; gated-SSA path-term matching",
    },
    "C03": {
        "text": "Static decision of the structural clauses of geometry validation: the extracted rejection formula of all coordinate "
                "validators of each of the 9 classes equals the complement of the specified acceptance set on a grid containing "
                "every interval endpoint and arity limit (0, MAX_FREQUENCY, their neighbours, lengths 0-6) at the nesting depth of "
                "the List annotation; normalising validators yield normal form on every ordering; the tag<->class table is complete "
                "and injective; geometry_validate dispatches on the object's own tag in all three modes; validators return or raise "
                "convertible errors. pydantic coercion / nesting-shape rejection / JSON dump equality are trusted, not decided.",
        "design_ref": "DESIGN.md section 3, C03 (R03.1-R03.5)",
        "note": NOTE_COMMON,
        "technique": "guard extraction from gated-SSA summaries, compiled to formulas and compared with the specification on an endpoint grid / all weak orderings",
    },
    "C04": {
        "text": "Static decision of the structural clauses of schema enforcement: every score/affinity field carries ge=0, le=1; the five "
                "relational validators are registered in the right mode and their extracted rejection condition equals the specified one "
                "(truth tables over named atoms, all orderings of start/end, set-comprehension normal forms); no construction or "
                "mutation path in the package bypasses validation (package sweep with positive fixture). Equality of behaviour across "
                "constructor / dict / JSON input is pydantic's (trusted).",
        "design_ref": "DESIGN.md section 3, C04 (R04.1-R04.3)",
        "note": NOTE_COMMON,
        "technique": "pydantic field-table extraction; guard formulas vs specification truth tables; who-may-call sweep for validation-bypass APIs",
    },
}

_DONE = set(CLAIMS)
NOT_APPLICABLE = {f"C{i:02d}": "checker under construction in this session (static rules designed in DESIGN.md section 3); "
                               "not yet claimed" for i in range(1, 21) if f"C{i:02d}" not in _DONE}

FIX_COMMITS = ["c835c87 (C01 licence)", "7a83dd0 (C01 prediction-set sequences)", "531fadf (C02 evaluation tags)", "6fda367 (C04 Evaluation.score bounds)"]
