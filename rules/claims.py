"""What MANIFEST.json claims, per property (source of truth for tools/gen_manifest.py)."""

NOTE_COMMON = ("Trusted base: python's ast grammar; the documented semantics of pydantic, shapely, scipy, scikit-learn, "
               "numpy, xarray, rasterio and soundfile; NaN ignored in comparisons. The check decides the listed structural "
               "necessary conditions for all inputs; it does not decide value-level behaviour. Summaries are taken modulo the "
               "normal forms of DESIGN.md 8.6 - 8.8 (helpers absent from the reference name table inlined, renamed / re-parameterised "
               "helpers resolved through the reference call table, canonical conditionals, fill-by-loop accumulators as "
               "comprehensions, local functions as lambdas, displays unrolled); where a rule evaluates an extracted formula on a "
               "grid of placements the verdict holds for the listed points; the thorough tier re-runs the "
               "mutant catalogue, the engine self-test and the 1018 active stored seeded changes (527 defects, 491 behaviour-preserving refactors; 7 more are retired since repairs changed the code under them). Every check also runs, on its anchor files and the functions it summarises, the common rules G.1 - G.3 (shared state, input mutation), G.4 / G.5 (public signatures, constants, pydantic model declarations incl. value-rewriting validators / serialisers, and class bases against the reference table sa/pinned_decls.json), G.9 (public names of the package resolve to the analysed definitions, else the rules are re-run on the replacing definition), G.10 (no pydantic model built or altered past its validators), G.11 (calls of in-package functions bind against their signatures, model constructions give every required field), G.12 (the entry functions the property speaks about keep serving every valid request: no own rejection, None answer or skipped effect on a path a valid request can take -- decided over intervals / order relations of input-determined quantities, rules/serves.py); calls are compared in one spelling (reference call-site spelling, documented default options of third-party calls folded away -- the default tables in sa/sym.py are part of the trusted base), G.6 - G.8 (one-shot iterators, mutation while iterating, swallowed exceptions, truthiness of model instances); new optional parameters of reference functions are analysed at their defaults.")

CLAIMS = {
    "C01": {
        "text": "Static decision, for every input, of the structural clauses of the AOEF round trip: all declared fields of all "
                "24 writer/reader pairs are carried and read back through mutually inverse field maps, every elision is "
                "restored, every sub-adapter store is emitted as a top-level list and re-registered in wiring order, and the "
                "type table is most-specific-first and consistent with the discriminated union. Codec fidelity of values and "
                "the n-cycle fixpoint are not decided.",
        "design_ref": "DESIGN.md section 3, C01 (R01.1-R01.6); R01.7 and the memo-table scenarios in sections 8.2 / 8.6; R01.8 and the delegated C18 flow rules in sections 8.7 / 8.8; R01.9 (own lists written element by element; known finding K03) in section 8.15",
        "note": NOTE_COMMON,
        "technique": "ast-based field-flow analysis over gated-SSA summaries of every adapter pair; wiring-graph order check",
    },
    "C02": {
        "text": "Static decision, for every object graph, of the structural clauses that make a written document closed under "
                "reference: no conversion can write a store after it was snapshot (Python evaluation order incl. later "
                "keyword arguments and super() results), every reference keyword goes through the owning adapter's "
                "registration with the matching data class, sub-adapters share the collection's stores, ids are allocated "
                "before insertion (dense tag ids keyed by the stored (key, value)), objects are stored after assembly in "
                "insertion order, and only DataAdapter methods write the stores. Run-time distinctness of objects is trusted.",
        "design_ref": "DESIGN.md section 3, C02 (R02.1-R02.6); R02.7 (unique identifiers of own lists; known finding K02) in section 8.15",
        "note": NOTE_COMMON,
        "technique": "evaluation-order (may-execute-after) analysis of store snapshots vs conversions over the adapter wiring graph; who-may-write sweep",
    },
    "C18": {
        "text": "Static decision of the parameter-flow and path-term clauses of audio-path relocation: audio_dir flows hop by hop "
                "from io.save/io.load into the recording adapter of all 8 collection adapters; the stored path is "
                "relative_to(audio_dir) iff a directory is given with the error propagating; the loaded path is "
                "audio_dir / stored iff given; the conversion completes before the file is written. pathlib semantics trusted.",
        "design_ref": "DESIGN.md section 3, C18 (R18.1-R18.3); R18.4 normalised containment (F20) and R18.5 UTF-8 document I/O (F26) in section 8.15",
        "note": NOTE_COMMON,
        "technique": "interprocedural parameter-flow closure over resolved callees and constructor wiring; gated-SSA path-term matching",
    },
    "C03": {
        "text": "Static decision of the structural clauses of geometry validation: the extracted rejection formula of all coordinate "
                "validators of each of the 9 classes equals the complement of the specified acceptance set on a grid containing "
                "every interval endpoint and arity limit (0, MAX_FREQUENCY, their neighbours, lengths 0-6) at the nesting depth of "
                "the List annotation; normalising validators yield normal form on every ordering; the tag<->class table is complete "
                "and injective; geometry_validate dispatches on the object's own tag in all three modes; validators return or raise "
                "convertible errors; no class of the hierarchy installs a serializer (the dump is the validated coordinates); every "
                "constant subscript of the coordinates is covered by an earlier length guard / unpack (no IndexError on short input). "
                "pydantic coercion / nesting-shape rejection / default JSON dump of lists of floats are trusted, not decided.",
        "design_ref": "DESIGN.md section 3, C03 (R03.1-R03.5); R03.6 point arity in section 8.6; R03.7 / R03.8 in section 8.8",
        "note": NOTE_COMMON,
        "technique": "guard extraction from gated-SSA summaries, compiled to formulas and compared with the specification on an endpoint grid / all weak orderings",
    },
    "C04": {
        "text": "Static decision of the structural clauses of schema enforcement: every score/affinity field carries ge=0, le=1; the five "
                "relational validators are registered in the right mode and their extracted rejection condition equals the specified one "
                "(truth tables over named atoms, all orderings of start/end, set-comprehension normal forms); no construction or "
                "mutation path in the package bypasses validation (package sweep with positive fixture); ordering invariants are tested on "
                "validated (coerced) values, not on the raw input of a before-mode validator (R04.6). Equality of behaviour across "
                "constructor / dict / JSON input is pydantic's (trusted).",
        "design_ref": "DESIGN.md section 3, C04 (R04.1-R04.3); near-equal placements and C01 pair rules on the relational adapters in section 8.8; R04.6 (F19, F25) in sections 8.14 / 8.15",
        "note": NOTE_COMMON,
        "technique": "pydantic field-table extraction; guard formulas vs specification truth tables; who-may-call sweep for validation-bypass APIs",
    },
    "C05": {
        "text": "Static decision of the structural clauses behind bounds/features/anchor points: both per-type dispatch tables are "
                "exhaustive and type-aligned; each of the 9 converters hands the coordinates to shapely unchanged in (time, frequency) "
                "order (time-only types spanning [0, MAX_FREQUENCY]); compute_bounds is the converted shape's bounds; all 33 Feature "
                "rows carry the canonical expression their term names over the bounds positions; all 11 named positions evaluate to "
                "the specified corner/midpoint/centre as (time, frequency). shapely's bounds/centroid/point_on_surface are trusted.",
        "design_ref": "DESIGN.md section 3, C05 (R05.1-R05.5); delegated validator subset of C03 in section 8.12; R05.6 / R05.7 (known findings K04, K05) in section 8.15",
        "note": NOTE_COMMON,
        "technique": "dispatch-table exhaustiveness, canonical-term (value numbering) comparison of every table row and of the position selector under each constant position",
    },
    "C06": {
        "text": "Static decision of the structural clauses of the affinity: function summaries invariant under swapping the two "
                "geometries (commutative operators / proven-symmetric callees order-free); type sets exact and time branch iff "
                "either geometry is time-only; both geometries prepared with the caller's buffers; canonical IoU with zero-union "
                "guard in both branches; the area quotient, which has no static bound of 1, is clamped. IoU values, disjoint => 0 "
                "and shift invariance depend on shapely numerics and are not decided.",
        "design_ref": "DESIGN.md section 3, C06 (R06.1-R06.5); per-type and grid evaluation in section 8.8; delegated conversion / validator subsets in section 8.12",
        "note": NOTE_COMMON,
        "technique": "swap-invariance of gated-SSA summaries under algebraic canonicalisation; canonical-term matching of the IoU; range rule for unclamped area quotients",
    },
    "C07": {
        "text": "Static decision of the structural clauses of match_geometries: cell (i, j) is the affinity of source[i] and target[j] "
                "with the caller's buffers; the solver maximises over the unmodified matrix; paired rows/columns leave the leftover "
                "sets in the same iteration and all leftovers are yielded one-sided; two-sided yields are dominated by a positive-"
                "affinity test; the reported affinity is the pair's cell (0 one-sided). Optimality of scipy's solver is trusted.",
        "design_ref": "DESIGN.md section 3, C07 (R07.1-R07.5); complement form and dtype rule in section 8.8; substrate delegations in section 8.12",
        "note": NOTE_COMMON,
        "technique": "index/element provenance through enumerate/product; dominance and pairing rules over the event list of the generator",
    },
    "C08": {
        "text": "Static decision of the structural clauses of sound_event_detection: clips paired by clip id; index-domain typing of "
                "every subscript of the prediction/annotation lists (an index from a filtered or foreign list is rejected); coverage "
                "of both lists exactly once by the match-loop sources (matcher part + complementary one-sided parts, complement "
                "checked on the filter predicates); affinity/score flow; pair score from (annotation truth, prediction scores); "
                "guarded means over exactly the constructed matches / clips; three None-cases with one Match each.",
        "design_ref": "DESIGN.md section 3, C08 (R08.1-R08.7); object domains and delegated C06 formula rules in section 8.8; substrate delegations in section 8.12",
        "note": NOTE_COMMON,
        "technique": "index-domain typing (abstract interpretation of list indices), coverage analysis of comprehension filters, case analysis of the branch guards",
    },
    "C09": {
        "text": "Static decision of the structural clauses of the metric bookkeeping: all (term, function) rows of the 10 metric tables agree "
                "and no table repeats a term; metric terms have distinct labels/names; each wrapper delegates to the scikit-learn function "
                "its name says with the sibling-checked 'none'-class handling (None -> num_classes, column 1 - sum), k=3, averaging modes, "
                "same mask on both arrays; every mean over a selection is guarded against emptiness; each task builds its metric lists from "
                "its own tables at the right level under its own name; the per-item results and the truth / score rows a task function "
                "returns are accumulated in lock-step (same loops, same conditions). Metric values vs independent formulas / order independence not decided.",
        "design_ref": "DESIGN.md section 3, C09 (R09.1-R09.5); R09.6 in section 8.8; rank rule of the unlabelled mask (F18) in section 8.11; delegated encoder rules of C19 in section 8.12; R09.7 (clamped none probability, F23) and R09.8 (constructible clip evaluations, known finding K01) in section 8.15",
        "note": NOTE_COMMON,
        "technique": "table-row agreement over resolved names; sibling cross-check of wrapper summaries as canonical terms; guard-dominance rule for means",
    },
    "C11": {
        "text": "Static decision of the structural clauses of buffer_geometry: negative buffers (only) rejected first; the three closed forms are "
                "canonically the widened, clamped interval/box built by validating constructors; exactly those three types take the closed "
                "form; buffers forwarded uncrossed at all four delegations; the shapely path scales/unscales by the same guarded factor "
                "around a unit buffer, clips to [0, max_time + c] x [0, MAX_FREQUENCY] and re-validates; the constant that scales a "
                "zero-buffer axis keeps the unit buffer representable in doubles over the whole validated frequency range (magnitude rule). "
                "Containment/monotonicity on the shapely path are otherwise numerical and not decided.",
        "design_ref": "DESIGN.md section 3, C11 (R11.1-R11.6); R11.7 in section 8.9; delegated conversion / validator subsets in section 8.12",
        "note": NOTE_COMMON,
        "technique": "canonical-term comparison of closed forms; keyword-pairing (call binder); lambda-summary symmetry; guard evaluation on interval endpoints",
    },
    "C12": {
        "text": "Static decision of the overlap predicates' structure: intervals_overlap symmetric; per threshold mode the returned comparison is "
                "canonically min(stops) - max(starts) >= threshold (0 | absolute | relative x shorter width); threshold validation exact at the "
                "endpoints 0 and 1; temporal/frequency predicates pass the right bounds projections and forward thresholds; is_in_clip decided "
                "on all 9 orderings incl. touching cases and the negative-minimum guard.",
        "design_ref": "DESIGN.md section 3, C12 (R12.1-R12.5); delegated conversion / validator subsets in section 8.12; R12.6 exports (F24) in section 8.15",
        "note": NOTE_COMMON,
        "technique": "swap-invariance and canonical comparison of summaries; ordering/interval-endpoint evaluation of extracted guards",
    },
    "C13": {
        "text": "Static decision of the structural clauses of group_sound_events: adjacency from all unordered pairs of distinct events with "
                "symmetric fill and square shape; comparison function called once per pair on the two elements; weak components of that matrix; "
                "one unconditional append per event in input order; result = list of the per-label sequences. scipy's labelling and the empty "
                "input are trusted / not decided.",
        "design_ref": "DESIGN.md section 3, C13 (R13.1-R13.3)",
        "note": NOTE_COMMON,
        "technique": "pairing/mirroring rules over accumulator events (allocation-identity of local lists); single-call-site and single-append rules",
    },
    "C14": {
        "text": "Static decision of the structural clauses of segment_clip: guards before the loop; lattice terms start = clip.start + i*hop, "
                "end = min(start + duration, clip.end), same recording; stop/yield conditions decided on all orderings; the iteration bound "
                "is a canonical non-deficient form or is shown non-deficient on a 128 000-point quarter-integer grid (deficient point = "
                "witness); identifiers are uuid5 over (parent id, final start, final end). Float drift of i*hop is not decided.",
        "design_ref": "DESIGN.md section 3, C14 (R14.1-R14.5)",
        "note": NOTE_COMMON,
        "technique": "canonical-term matching of the loop body; ordering evaluation of stop conditions; symbolic bound recognition with grid-witness search on the extracted bound formula",
    },
    "C10": {
        "text": "Static decision of the structural clauses of the crowsetta converters: dimension analysis (seconds / time-expansion exponents) "
                "of every imported coordinate on every (adjust flag, factor, seconds-or-samples) path; export fields from the bounds "
                "positions with floor sample indices and Nyquist cap; cast/raise switches by truth table; error policy (skip iff "
                "ignore_errors, else re-raise, append outside the handler); one output per input in order; label cascades decided per "
                "option scenario incl. 'explicit option survives a lookup miss'. Exact float reproduction is trusted from pass-through.",
        "design_ref": "DESIGN.md section 3, C10 (R10.1-R10.6); delegated term codec rule of C01 in section 8.12; R10.7 and the corrected cascade scenarios (F21, F22) in section 8.15",
        "note": NOTE_COMMON,
        "technique": "dimension (unit-exponent) abstract domain over gated-SSA terms; truth tables of extracted guards; scenario-wise partial evaluation of option cascades",
    },
    "C15": {
        "text": "Static decision of the structural clauses behind sample accuracy: offset/length by floor with the recording's samplerate, "
                "file read at that offset (seek before read, zero fill, 2-D), clip axis rebuilt from the snapped offset; every advertised "
                "step attribute is computed from the quantities that generate the coordinates (spectrogram frequency/time steps over the "
                "truncated sample counts given to stft, resample step 1/target); spectrogram origin = source's first time. Frame-exact "
                "content, monotonicity and axis length depend on soundfile/scipy/np.arange and are not decided.",
        "design_ref": "DESIGN.md section 3, C15 (R15.1-R15.4); boundary forwarding in section 8.8; R15.6 (seek capped at the file length, F28) in section 8.15",
        "note": NOTE_COMMON,
        "technique": "step-provenance sibling rule: canonical-term equality between the advertised step and the generator's arguments; evaluation-order rule for seek/read",
    },
    "C16": {
        "text": "Static decision of: recorded step == generating step (size => (stop-start)/size), trailing-element trim present, wrappers forward "
                "start/stop/step; get_coord_index decided on all orderings of value vs [start, stop] x raise flag; set_value_at_pos addresses "
                "each query dimension's own axis with its own index and stores once. Exact np.arange values/counts are not decided.",
        "design_ref": "DESIGN.md section 3, C16 (R16.1-R16.3); trim-test placements in section 8.8; R16.5 (empty range, F27) in section 8.15",
        "note": NOTE_COMMON,
        "technique": "keyword-pairing and canonical-term matching; ordering evaluation of the extracted lookup outcomes",
    },
    "C17": {
        "text": "Static decision of: count-exact coordinate generation in extend_dim_width (integer-count generators only; float np.arange with "
                "computed stop is the defined bad pattern); eps signs and None handling of the closedness flags; exact range guards; width "
                "dispatch and forwarding; width-based crop slices and placement / lattice continuation evaluated on the extracted generator "
                "formulas for small dyadic instances (finite-instance argument, labelled). Float label matching in sel/reindex is not decided.",
        "design_ref": "DESIGN.md section 3, C17 (R17.1-R17.6); label reuse in section 8.8",
        "note": NOTE_COMMON,
        "technique": "integer-valuedness typing of generator arguments; flag-wise partial evaluation; finite-instance evaluation of extracted coordinate formulas",
    },
    "C19": {
        "text": "Static decision of: encoder table key == lookup key == whole tag identity (every declared Tag field), 0-based enumerate, decode, "
                "num_classes; first-hit / indicator / score-fill shapes with the only stores at vocabulary indices; and, as a sufficient "
                "condition that proves the hash/eq clause given pydantic's field-wise __eq__, every hand-written __hash__ is hash() over "
                "declared, hash-consistent fields with no __eq__ override.",
        "design_ref": "DESIGN.md section 3, C19 (R19.1-R19.3)",
        "note": NOTE_COMMON,
        "technique": "key-expression equality and field-coverage over pydantic field tables; purity check of __hash__ bodies",
    },
    "C20": {
        "text": "Static decision of the structural clauses of rasterize: shape provenance (named dimensions, rows = ydim / cols = xdim, vs the "
                "template's positional shape); output labelling (xdim, ydim) with matching transpose and template coordinates; value broadcast "
                "and length guard; x through the xdim axis and y through the ydim axis, clamped; shapes in input order; fill/dtype/all_touched "
                "forwarded. Which cells rasterio marks is trusted / not decided.",
        "design_ref": "DESIGN.md section 3, C20 (R20.1-R20.5); R20.6 and the element-wise view in sections 8.7 / 8.8; delegated conversion / validator subsets in section 8.12",
        "note": NOTE_COMMON,
        "technique": "provenance classification of the shape argument; call-binder pairing of dimension names inside the nested transform",
    },
}

_DONE = set(CLAIMS)
NOT_APPLICABLE = {f"C{i:02d}": "checker under construction in this session (static rules designed in DESIGN.md section 3); "
                               "not yet claimed" for i in range(1, 21) if f"C{i:02d}" not in _DONE}

FIX_COMMITS = ["c835c87 (C01 licence)", "7a83dd0 (C01 prediction-set sequences)", "531fadf (C02 evaluation tags)", "6fda367 (C04 Evaluation.score bounds)", "a327a28 (C06 clamp)", "9c74d6e (C07 zero-affinity pairs)", "e394000 (C08 index/coverage)", "40e4031 (C08 affinity)", "2b5a48a (C09 terms)", "8a7afcb (C09 empty clip)", "23238c7 (C14 loop bound)", "570b833 (C20 raster shape)", "a350963 (C17 exact count)", "edb718b (C15 spectrogram step)", "cf80b75 (C10 explicit key)"]
