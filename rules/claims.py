"""What MANIFEST.json claims, per property (source of truth for tools/gen_manifest.py)."""

NOTE_COMMON = ("Trusted base: python's ast grammar; the documented semantics of pydantic, shapely, scipy, scikit-learn, "
               "numpy, xarray, rasterio and soundfile; NaN ignored in comparisons. The check decides the listed structural "
               "necessary conditions for all inputs; it does not decide value-level behaviour.")

CLAIMS = {
    "C01": {
        "text": "Static decision, for every input, of the structural clauses of the AOEF round trip: all declared fields of all "
                "24 writer/reader pairs are carried and read back through mutually inverse field maps, every elision is "
                "restored, every sub-adapter store is emitted as a top-level list and re-registered in wiring order, and the "
                "type table is most-specific-first and consistent with the discriminated union. Codec fidelity of values and "
                "the n-cycle fixpoint are not decided.",
        "design_ref": "DESIGN.md section 3, C01 (R01.1-R01.6)",
        "note": NOTE_COMMON,
        "technique": "ast-based field-flow analysis over gated-SSA summaries of every adapter pair; wiring-graph order check",
    },
    "C02": {
        "text": "Static decision, for every object graph, of the structural clauses that make a written document closed under "
                "reference: no conversion can write a store after it was snapshot (Python evaluation order incl. later "
                "keyword arguments and super() results), every reference keyword goes through the owning adapter's "
                "registration with the matching data class, sub-adapters share the collection's stores, ids are allocated "
                "before insertion (dense tag ids keyed by the stored (key, value)), objects are stored after assembly in "
                "insertion order, and only DataAdapter methods write the stores. Run-time distinctness of objects is trusted.",
        "design_ref": "DESIGN.md section 3, C02 (R02.1-R02.6)",
        "note": NOTE_COMMON,
        "technique": "evaluation-order (may-execute-after) analysis of store snapshots vs conversions over the adapter wiring graph; who-may-write sweep",
    },
    "C18": {
        "text": "Static decision of the parameter-flow and path-term clauses of audio-path relocation: audio_dir flows hop by hop "
                "from io.save/io.load into the recording adapter of all 8 collection adapters; the stored path is "
                "relative_to(audio_dir) iff a directory is given with the error propagating; the loaded path is "
                "audio_dir / stored iff given; the conversion completes before the file is written. pathlib semantics trusted.",
        "design_ref": "DESIGN.md section 3, C18 (R18.1-R18.3)",
        "note": NOTE_COMMON,
        "technique": "interprocedural parameter-flow closure over resolved callees and constructor wiring; gated-SSA path-term matching",
    },
}

_DONE = set(CLAIMS)
NOT_APPLICABLE = {f"C{i:02d}": "checker under construction in this session (static rules designed in DESIGN.md section 3); "
                               "not yet claimed" for i in range(1, 21) if f"C{i:02d}" not in _DONE}

FIX_COMMITS = ["c835c87 (C01 licence)", "7a83dd0 (C01 prediction-set sequences)", "531fadf (C02 evaluation tags)"]
