"""C05 -- bounds, geometric features and anchor points agree with the coordinates (R05.1 - R05.5)."""

from __future__ import annotations

import ast
from typing import Dict, List, Optional, Tuple

from sa.canon import canon, same
from sa.index import AnalysisError, ClassInfo
from sa.peval import fold_str_methods, peval
from sa.report import Ctx
from sa.sym import callkw, FALSE, NONE, Summary, conjuncts, show, walk

CONV = "soundevent.geometry.conversion"
FEAT = "soundevent.geometry.features"
OPS = "soundevent.geometry.operations"
GEO = "soundevent.data.geometries"
MAXT = ("global", f"{GEO}:MAX_FREQUENCY", "assign")

EXPLANATION = (
    "Static decision of the structural clauses behind bounds / features / anchor points: R05.1 both per-type dispatch "
    "tables (geometry_to_shapely, _COMPUTE_FEATURES) have exactly one row per geometry class, routed to a function "
    "annotated for that class; R05.2 each converter hands the coordinates to shapely unchanged, in (time, frequency) "
    "order, time-only types spanning [0, MAX_FREQUENCY]; R05.3 compute_bounds returns the converted shape's bounds "
    "unmodified; R05.4 every Feature row carries the value its term names as a canonical expression over the bounds "
    "positions, with the required term set per type; R05.5 every named position of get_geometry_point evaluates to the "
    "specified corner / midpoint / centre, returned as (time, frequency). shapely's bounds / centroid / "
    "point_on_surface are trusted."
    'R05.1 / R05.4 evaluate the dispatcher once per geometry type (table rows of any shape, per-type code named or inlined) and inspect the feature list that results. '
)
ASSUMPTIONS = ["shapely's .bounds is (minx, miny, maxx, maxy); box(minx, miny, maxx, maxy); Polygon(shell, holes) (trusted)"]

TIME_ONLY = {"TimeStamp", "TimeInterval"}
MULTI = {"MultiPoint", "MultiLineString", "MultiPolygon"}


def ext_is(t, *names):
    return t[0] == "ext" and t[1].split(".")[-1] in names and t[1].split(".")[0] == "shapely"


class C05:
    def __init__(self, ctx: Ctx):
        self.ctx = ctx
        base = ctx.index.need_class(GEO, "BaseGeometry")
        self.classes = [c for c in ctx.index.module(GEO).classes.values() if c.qual != base.qual and c.is_subclass_of(base.qual)]
        self.names = [c.name for c in self.classes]

    def ann_class(self, summ: Summary, param: str) -> Optional[str]:
        ann = summ.annotations.get(param)
        if ann is None:
            return None
        s = self.ctx.index.resolve_expr(summ.module, ann)
        return s.qual if s is not None and s.kind == "class" else None

    def ann_accepts(self, summ: Summary, param: str, want: str) -> Optional[str]:
        """None when the annotation of `param` names the class `want` (alone or as a member of a Union / `|`), else the
        text of what it is written for."""
        ann = summ.annotations.get(param)
        if ann is None:
            return "an unannotated parameter"
        members = []

        def collect(a):
            if isinstance(a, ast.Subscript) and ast.unparse(a.value).split(".")[-1] in ("Union", "Optional"):
                sl = a.slice
                for e in (sl.elts if isinstance(sl, ast.Tuple) else [sl]):
                    collect(e)
            elif isinstance(a, ast.BinOp) and isinstance(a.op, ast.BitOr):
                collect(a.left)
                collect(a.right)
            else:
                members.append(a)

        collect(ann)
        quals = []
        for a in members:
            sy = self.ctx.index.resolve_expr(summ.module, a)
            quals.append(sy.qual if sy is not None and sy.kind == "class" else ast.unparse(a))
        if want in quals:
            return None
        return ", ".join(q.split(":")[-1] for q in quals) or "?"

    ALTERING_EXT = ("shapely.transform", "shapely.set_precision", "shapely.snap", "shapely.simplify", "shapely.ops.transform", "shapely.ops.snap",
                    "shapely.affinity.", "shapely.segmentize", "shapely.remove_repeated_points", "shapely.make_valid", "shapely.buffer",
                    "shapely.convex_hull", "shapely.envelope", "shapely.reverse")
    ALTERING_METHODS = {"buffer", "simplify", "segmentize", "convex_hull", "envelope", "reverse", "normalize"}

    def post_processing(self, t, g):
        """name of the coordinate-altering shapely operation applied to `converter(geom)` in row value t, else None"""
        def is_conv(x):
            return x[0] == "call" and x[1][0] == "global" and x[2] == (g,) and not x[3]
        if t[0] == "call" and t[1][0] == "ext" and any(t[1][1] == a or (a.endswith(".") and t[1][1].startswith(a)) for a in self.ALTERING_EXT) \
                and t[2] and (is_conv(t[2][0]) or self.post_processing(t[2][0], g)):
            return t[1][1]
        if t[0] == "call" and t[1][0] == "attr" and t[1][2] in self.ALTERING_METHODS and (is_conv(t[1][1]) or self.post_processing(t[1][1], g)):
            return "." + t[1][2] + "()"
        if t[0] == "attr" and t[2] in self.ALTERING_METHODS and (is_conv(t[1]) or self.post_processing(t[1], g)):
            return "." + t[2]
        return None

    # ------------------------------------------------------------------ R05.1 + R05.2
    def check_conversion(self):
        ctx = self.ctx
        s = ctx.summ.of_func(CONV, "geometry_to_shapely")
        file = s.module.relpath
        g = ("param", s.params[0])
        rows: Dict[str, list] = {}
        for r in s.returns:
            from sa.idioms import selected_tags
            tags = selected_tags(r.live, ("attr", g, "type"))
            if len(tags) != 1:
                ctx.undec("R05.1", f"{file}:{r.lineno} geometry_to_shapely", f"return not guarded by a single `geom.type == <tag>` test: {show(r.live)[:80]}")
                continue
            rows.setdefault(tags[0], []).append(r)
        # fall through must raise
        if s.fall_live != FALSE or not any(True for r in s.raises):
            ctx.bad("R05.1", file, "geometry_to_shapely", "fall-through", "an unknown geometry type does not raise (returns None instead)", s.node.lineno)
        for name in self.names:
            site = f"{file}:{s.node.lineno} geometry_to_shapely"
            if name not in rows:
                ctx.bad("R05.1", file, "geometry_to_shapely", f'if geom.type == "{name}"',
                        f"no dispatch row for geometry type {name}: compute_bounds / features / affinity raise for it", s.node.lineno)
                continue
            r = rows[name][0]
            t = r.term
            if not (t[0] == "call" and t[1][0] == "global" and t[2] == (g,) and not t[3]):
                post = self.post_processing(t, g)
                if post:
                    ctx.bad("R05.1", file, "geometry_to_shapely", f'"{name}" -> {show(t)[:50]}',
                            f"the shape converted for {name} is post-processed by {post} before it is returned: its vertices are no longer "
                            f"the coordinates of the geometry, so bounds, features, overlaps and rasters are computed from other numbers", r.lineno)
                    continue
                ctx.undec("R05.1", f"{file}:{r.lineno} geometry_to_shapely", f"row {name}: not a call f(geom): {show(t)[:60]}")
                continue
            modname, fname = t[1][1].split(":")
            fs = ctx.summ.of_func(modname, fname)
            want = f"{GEO}:{name}"
            got = self.ann_class(fs, fs.params[0])
            if got == want:
                ctx.ok("R05.1", f"{file}:{r.lineno} geometry_to_shapely", f"{name} -> {fname}(geom: {name})")
                self.check_converter(name, fs)
            else:
                ctx.bad("R05.1", file, "geometry_to_shapely", f'"{name}" -> {fname}',
                        f"geometry type {name} is converted by {fname}, which is written for {got.split(':')[1] if got else '?'}: "
                        f"the shapely shape has the wrong kind / coordinates", r.lineno)
        for tag in rows:
            if tag not in self.names:
                ctx.bad("R05.1", file, "geometry_to_shapely", f'if geom.type == "{tag}"', f"dispatch row for unknown tag {tag!r}", rows[tag][0].lineno)

    def check_converter(self, name: str, fs: Summary):
        ctx = self.ctx
        file = fs.module.relpath
        fn = fs.qual.split(":")[1]
        g = ("param", fs.params[0])
        c = ("attr", g, "coordinates")
        Z, M = ("const", 0), MAXT

        def sub(i):
            return ("sub", c, ("const", i))

        if len(fs.returns) != 1:
            extra = fs.returns[0] if fs.returns else None
            ctx.bad("R05.2", file, fn, f"{len(fs.returns)} return paths",
                    f"{fn} has {len(fs.returns)} return paths ({'; '.join(show(r.term)[:50] + ' if ' + show(r.live)[:40] for r in fs.returns[:3])}): "
                    f"a converter must hand the coordinates to shapely unchanged on every path (no repair / simplification of the shape, "
                    f"which changes its coordinates and bounds)", fs.node.lineno)
            return
        r = fs.returns[0]
        t = r.term
        site = f"{file}:{r.lineno} {fn}"
        ok, why = False, ""
        if t[0] != "call":
            ctx.undec("R05.2", site, f"converter does not return a call: {show(t)[:60]}")
            return
        f, args, kws = t[1], t[2], dict(t[3])

        def box_args():
            if len(args) == 4 and not kws:
                return list(args)
            if not args and set(kws) == {"minx", "miny", "maxx", "maxy"}:
                return [kws["minx"], kws["miny"], kws["maxx"], kws["maxy"]]
            return None

        if name == "TimeStamp":
            seg = ("list", (("list", (c, Z)), ("list", (c, M))))
            seg2 = ("list", (("tuple", (c, Z)), ("tuple", (c, M))))
            ok = ext_is(f, "linestrings", "LineString") and len(args) == 1 and args[0] in (seg, seg2)
            why = "must be the vertical segment [[t, 0], [t, MAX_FREQUENCY]]"
        elif name == "TimeInterval":
            ok = ext_is(f, "box") and box_args() == [sub(0), Z, sub(1), M]
            why = "must be box(start, 0, end, MAX_FREQUENCY)"
        elif name == "BoundingBox":
            ok = ext_is(f, "box") and box_args() == [sub(0), sub(1), sub(2), sub(3)]
            why = "must be box(start_time, low_freq, end_time, high_freq) in coordinate order"
        elif name == "Point":
            ok = ext_is(f, "Point", "points") and args == (c,) and not kws
            why = "must be Point(coordinates)"
        elif name == "LineString":
            ok = ext_is(f, "LineString", "linestrings") and args == (c,) and not kws
            why = "must be LineString(coordinates)"
        elif name == "MultiPoint":
            ok = ext_is(f, "MultiPoint", "multipoints") and args == (c,) and not kws
            why = "must be MultiPoint(coordinates)"
        elif name == "MultiLineString":
            ok = ext_is(f, "MultiLineString") and args == (c,) and not kws
            why = ("must be MultiLineString(coordinates)" + (" -- the vectorised shapely.multilinestrings first packs the nested list into ONE numpy "
                   "array, which exists only when every line has the same number of points: a valid MultiLineString with lines of different "
                   "lengths raises instead of being converted" if ext_is(f, "multilinestrings") else ""))
        elif name == "Polygon":
            shell, holes = sub(0), ("sub", c, ("slice", ("const", 1), NONE, NONE))
            pa = list(args) + [kws.get(k) for k in ("shell", "holes") if k in kws]
            ok = ext_is(f, "Polygon") and pa == [shell, holes]
            why = ("must be Polygon(shell=coordinates[0], holes=coordinates[1:])" + (" -- the vectorised shapely.polygons packs the holes into one numpy "
                   "array, which exists only when all interior rings have the same number of vertices" if ext_is(f, "polygons") else ""))
        elif name == "MultiPolygon":
            ok, why = self._multipolygon(fs, t, c)
        if ok:
            ctx.ok("R05.2", site, f"{name}: coordinates handed to shapely unchanged ({show(t)[:70]})")
        else:
            ctx.bad("R05.2", file, fn, f"return {show(t)[:90]}",
                    f"{fn} does not pass the coordinates through unchanged: {why}; found {show(t)[:100]}", r.lineno)

    def _multipolygon(self, fs: Summary, t, c):
        why = "must be MultiPolygon([Polygon(p[0], p[1:]) for p in coordinates])"
        if not (ext_is(t[1], "MultiPolygon", "multipolygons") and len(t[2]) == 1 and not t[3]):
            return False, why
        arg = t[2][0]

        def poly_of(e, x):
            return (x[0] == "call" and ext_is(x[1], "Polygon") and list(x[2]) + [v for k, v in x[3]] ==
                    [("sub", e, ("const", 0)), ("sub", e, ("slice", ("const", 1), NONE, NONE))])

        if arg[0] == "comp" and arg[1] == "list" and len(arg[3]) == 1:
            lid, it, conds = arg[3][0]
            return (it == c and not conds and poly_of(("elem", lid), arg[2])), why
        if arg == ("list", ()) or (arg[0] == "alloc" and arg[1] == "list"):
            # loop-append form
            loops = [l for l in fs.loops.values() if l.kind == "for" and l.iter == c and not l.conds]
            if len(loops) != 1:
                return False, why
            e = ("elem", loops[0].id)
            apps = [ev for ev in fs.calls if ev.term[1] == ("attr", arg, "append") and loops[0].id in ev.loops]
            if len(apps) != 1 or ("inloop", loops[0].id) != conjuncts(apps[0].live)[-1]:
                return False, why + " (one unconditional append per polygon)"
            return poly_of(e, apps[0].term[2][0]), why
        return False, why

    def _expand_new_helpers(self, t, module):
        """calls of side-effect free module functions that the reference tree does not have (accessors such as `_start_time(bounds)`
        that became known only when the position was fixed) are replaced by their value"""
        from sa.sym import PINNED, expand_pure_calls, fold_sub
        if not isinstance(t, tuple) or not t:
            return t
        if not isinstance(t[0], str):
            return tuple(self._expand_new_helpers(c, module) for c in t)
        t = tuple(self._expand_new_helpers(c, module) if isinstance(c, tuple) else c for c in t)
        if t[0] == "call" and t[1][0] == "global" and t[1][2] == "func" and ":" in t[1][1]:
            modname, name = t[1][1].split(":")
            if name not in PINNED.get(modname, ()) and modname in self.ctx.index.modules:
                v = expand_pure_calls(t, self.ctx.summ, None, self.ctx.index.modules[modname])
                if v != t:
                    return fold_sub(v)
        return t

    # ------------------------------------------------------------------ R05.3
    def check_bounds(self, full=True):
        ctx = self.ctx
        s = ctx.summ.of_func(OPS, "compute_bounds")
        g = ("param", s.params[0])
        want = ("attr", ("call", ("global", f"{CONV}:geometry_to_shapely", "func"), (g,), ()), "bounds")
        site = f"{s.module.relpath}:{s.node.lineno} compute_bounds"
        spelled_out = ("tuple", tuple(("sub", want, ("const", i)) for i in range(4)))  # the four bounds, in shapely's order
        def plain(t):
            """tuple(x) and tuple(Rec._make(x)) of the 4-tuple of bounds are that tuple (Rec a NamedTuple record of four fields)"""
            for _ in range(4):
                if t[0] == "call" and t[1] in (("builtin", "tuple"),) and len(t[2]) == 1 and not t[3]:
                    t = t[2][0]
                elif t[0] == "call" and t[1][0] == "attr" and t[1][2] == "_make" and t[1][1][0] == "global" and t[1][1][2] == "class" and len(t[2]) == 1 and not t[3]:
                    ci_ = ctx.index.class_by_qual(t[1][1][1])
                    nf_ = len([st for st in ci_.node.body if isinstance(st, ast.AnnAssign)]) if ci_ is not None else 0
                    if ci_ is None or nf_ != 4 or not any(str(b).split(".")[-1] == "NamedTuple" for b in ci_.ext_bases):
                        break
                    t = t[2][0]
                else:
                    break
            return t

        if len(s.returns) == 1 and plain(s.returns[0].term) in (want, spelled_out):
            ctx.ok("R05.3", site, "returns geometry_to_shapely(geometry).bounds unmodified")
            if not full:
                return
            # R05.6: shapely's `.bounds` of a polygon is the envelope of its EXTERIOR rings.  The statement says min / max "over its
            # coordinates" for every geometry, polygons with holes included, and nothing in the Polygon / MultiPolygon validators
            # keeps an interior ring inside its shell -- so for an accepted polygon whose hole pokes out, the bounds (and the
            # features and positions derived from them) ignore coordinates of the geometry
            m = ctx.models
            ring_inside = False
            for cname in ("Polygon", "MultiPolygon"):
                ci = ctx.index.need_class(GEO, cname)
                for v in m.validators(ci):
                    try:
                        vs = ctx.summ.of_func(v.owner.module.name, f"{v.owner.name}.{v.name}")
                    except Exception:  # noqa: BLE001
                        continue
                    if any(x[0] == "call" and ((x[1][0] == "attr" and x[1][2] in ("contains", "within", "covers", "is_valid")) or
                                               (x[1][0] == "ext" and x[1][1].split(".")[-1] in ("is_valid", "contains", "within", "covers", "make_valid")))
                           for e in vs.events for x in walk(e.term)) or any(x[0] == "attr" and x[2] == "is_valid" for e in vs.events for t_ in (e.term, e.live) for x in walk(t_)):
                        ring_inside = True
            if ring_inside:
                ctx.ok("R05.6", site, "the validators keep interior rings inside the shell: the envelope of the shell bounds every coordinate")
            else:
                ctx.bad("R05.6", s.module.relpath, "compute_bounds", "geometry_to_shapely(geometry).bounds (exterior-ring envelope) for polygons",
                        "compute_bounds is shapely's `.bounds`, which for a Polygon / MultiPolygon is the envelope of the exterior rings only; no "
                        "validator keeps an interior ring inside its shell, so for an accepted polygon whose hole reaches outside "
                        "(Polygon([[[1,1],[3,1],[3,3],[1,3]], [[2,2],[4,2],[2,2.5]]]): bounds (1,1,3,3), coordinates reach t=4) the bounds are not "
                        "min / max over its coordinates, and duration, bandwidth and every named position inherit the error", s.node.lineno,
                        witness={"polygon": [[[1, 1], [3, 1], [3, 3], [1, 3]], [[2, 2], [4, 2], [2, 2.5]]], "bounds": [1, 1, 3, 3], "required": [1, 1, 4, 3]})
        else:
            ctx.bad("R05.3", s.module.relpath, "compute_bounds", "return shp_geom.bounds",
                    f"compute_bounds returns {show(s.returns[0].term)[:80] if s.returns else '-'} instead of the converted "
                    f"shape's bounds", s.node.lineno)

    # ------------------------------------------------------------------ R05.1 (features table) + R05.4
    def check_features(self):
        """The dispatcher is evaluated once per geometry type: whatever the table holds (functions, records of a function and
        its switches) and wherever the per-type code lives (a named function of the reference tree, or a helper that is
        inlined), the rule looks at the feature list that comes out for that type."""
        ctx = self.ctx
        s = ctx.summ.of_func(FEAT, "compute_geometric_features")
        file = s.module.relpath
        g = ("param", s.params[0])
        tag = ("attr", g, "type")
        dsite = f"{file}:{s.node.lineno} compute_geometric_features"
        if not any(tag in set(walk(r.live)) | set(walk(r.term)) for r in s.raw_returns):
            ctx.bad("R05.1", file, "compute_geometric_features", "return _COMPUTE_FEATURES[geometry.type](geometry)",
                    f"dispatch is not by the geometry's own tag: {[show(r.term)[:60] for r in s.raw_returns]}", s.node.lineno)
            return
        ctx.ok("R05.1", dsite, "the result is selected by the geometry's own tag (geometry.type)")
        for c in self.classes:
            env = {tag: c.name}
            outs = []
            for r in s.raw_returns:
                lv = peval(r.live, env)
                if lv[0] == "const" and not lv[1]:
                    continue
                outs.append((lv, peval(r.term, env), r))
            outs = [o for o in outs if o[1][0] != "error"]
            if len(outs) != 1 or not (outs[0][0][0] == "const" and outs[0][0][1]):
                if not outs:
                    ctx.bad("R05.1", file, "_COMPUTE_FEATURES", f"{c.name} row missing",
                            f"no feature function for geometry type {c.name}: compute_geometric_features raises for it", s.node.lineno)
                else:
                    ctx.undec("R05.1", dsite, f"{c.name}: result not decided by the type alone ({[show(o[1])[:40] for o in outs]})")
                continue
            _, val, r = outs[0]
            if val[0] == "call" and val[1][0] == "global" and val[1][2] == "func":
                modname, fname = val[1][1].split(":")
                fs = ctx.summ.of_func(modname, fname)
                if tuple(val[2]) != (g,) or val[3]:
                    ctx.bad("R05.1", file, "compute_geometric_features", f"{c.name} -> {fname}({show(val)[:50]})",
                            f"the feature function of {c.name} does not receive the geometry itself", r.lineno)
                    continue
                other = self.ann_accepts(fs, fs.params[0], c.qual)
                if other is not None:
                    ctx.bad("R05.1", file, "_COMPUTE_FEATURES", f"{c.name} -> {fname}",
                            f"features of {c.name} are computed by {fname}, which is written for {other}", r.lineno)
                    continue
                ctx.ok("R05.1", dsite, f"{c.name} -> {fname}")
                if len(fs.returns) != 1 or fs.returns[0].term[0] != "list":
                    ctx.undec("R05.4", f"{fs.module.relpath}:{fs.node.lineno} {fname}", "does not return a literal list of Feature(...)")
                    continue
                self.check_feature_list(c.name, fs.returns[0].term, ("param", fs.params[0]), fs.module.relpath, fname, fs.returns[0].lineno)
            elif val[0] == "list":
                ctx.ok("R05.1", dsite, f"{c.name} -> feature list (helpers inlined)")
                self.check_feature_list(c.name, val, g, file, "compute_geometric_features", r.lineno)
            else:
                ctx.undec("R05.1", dsite, f"{c.name}: result is neither a feature function's nor a feature list: {show(val)[:60]}")

    def check_feature_list(self, name: str, lst, g, file, fn, lineno):
        ctx = self.ctx

        class _R:  # the list's position, as the return event it came from
            pass
        r = _R()
        r.term, r.lineno = lst, lineno
        shp = ("call", ("global", f"{CONV}:geometry_to_shapely", "func"), (g,), ())
        bnd = ("attr", shp, "bounds")
        cb = ("call", ("global", f"{OPS}:compute_bounds", "func"), (g,), ())
        c = ("attr", g, "coordinates")

        def b(i):
            return [("sub", bnd, ("const", i)), ("sub", cb, ("const", i))]

        def co(i):
            return ("sub", c, ("const", i))

        # value sources for start / low / end / high
        if name == "TimeInterval":
            src = {"start": [co(0)] + b(0), "end": [co(1)] + b(2), "low": b(1), "high": b(3)}
        elif name == "BoundingBox":
            src = {"start": [co(0)] + b(0), "low": [co(1)] + b(1), "end": [co(2)] + b(2), "high": [co(3)] + b(3)}
        elif name == "TimeStamp":
            src = {"start": [c] + b(0), "end": [c] + b(2), "low": b(1), "high": b(3)}
        elif name == "Point":
            src = {"start": [co(0)] + b(0), "end": [co(0)] + b(2), "low": [co(1)] + b(1), "high": [co(1)] + b(3)}
        else:
            src = {"start": b(0), "low": b(1), "end": b(2), "high": b(3)}

        def extremes_as_bounds(t):
            """for a flat list of (time, frequency) points: min / max of one component over all points is that bound"""
            if not isinstance(t, tuple) or not t:
                return t
            t = tuple(extremes_as_bounds(x) if isinstance(x, tuple) else x for x in t)
            if t[0] == "call" and t[1] in (("builtin", "min"), ("builtin", "max")) and len(t[2]) == 1 and not t[3] \
                    and t[2][0][0] == "comp" and t[2][0][1] in ("list", "gen") and len(t[2][0][3]) == 1:
                lid_, it_, conds_ = t[2][0][3][0]
                elt_ = t[2][0][2]
                if it_ == c and not conds_ and elt_[0] == "sub" and elt_[1] == ("elem", lid_) and elt_[2] in (("const", 0), ("const", 1)):
                    k_ = elt_[2][1]
                    return ("sub", bnd, ("const", k_ if t[1][1] == "min" else k_ + 2))
            return t

        def variants(expr_fn):
            outs = []
            for st in src["start"]:
                for en in src["end"]:
                    for lo in src["low"]:
                        for hi in src["high"]:
                            outs.append(canon(expr_fn(st, lo, en, hi)))
            return outs

        ZERO = canon(("const", 0))
        zero_dur = name in ("TimeStamp", "Point")
        zero_bw = name == "Point"
        spec = {
            "duration": variants(lambda s, l, e, h: ("bin", "-", e, s)) + ([ZERO] if zero_dur else []),
            "low_freq": variants(lambda s, l, e, h: l),
            "high_freq": variants(lambda s, l, e, h: h),
            "bandwidth": variants(lambda s, l, e, h: ("bin", "-", h, l)) + ([ZERO] if zero_bw else []),
            "num_segments": [canon(("call", ("builtin", "len"), (("attr", shp, "geoms"),), ())),
                             canon(("call", ("builtin", "len"), (c,), ()))],
        }
        required = {"duration"} if name in TIME_ONLY else {"duration", "low_freq", "high_freq", "bandwidth"}
        if name in MULTI:
            required = required | {"num_segments"}
        seen = set()
        for item in r.term[1]:
            site = f"{file}:{r.lineno} {fn}"
            if not (item[0] == "call" and item[1][0] == "global" and item[1][1].endswith(":Feature")):
                ctx.undec("R05.4", site, f"list element is not Feature(...): {show(item)[:50]}")
                continue
            kw = callkw(item)
            term, val = kw.get("term"), kw.get("value")
            if term is None or val is None or term[0] != "global":
                ctx.undec("R05.4", site, f"Feature without resolvable term/value: {show(item)[:60]}")
                continue
            tname = term[1].split(":")[1]
            if tname in seen:
                ctx.bad("R05.4", file, fn, f"Feature(term=terms.{tname}) twice", f"term {tname} appears twice in the features of {name}", r.lineno)
            seen.add(tname)
            if tname not in spec:
                ctx.undec("R05.4", site, f"feature term {tname} has no specification")
                continue
            if canon(val) in spec[tname] or (name in ("LineString", "MultiPoint") and canon(extremes_as_bounds(val)) in spec[tname]):
                ctx.ok("R05.4", site, f"{name}: {tname} = {show(val)[:50]}")
            else:
                ctx.bad("R05.4", file, fn, f"Feature(term=terms.{tname}, value={show(val)[:60]})",
                        f"{name}: the value attached to term {tname!r} is {show(val)[:80]}, which is not "
                        f"{ {'duration': 'end - start', 'low_freq': 'the lower frequency bound', 'high_freq': 'the upper frequency bound', 'bandwidth': 'high - low', 'num_segments': 'the number of parts'}[tname]}"
                        f" of the geometry's bounds", r.lineno)
        for t in sorted(required - seen):
            ctx.bad("R05.4", file, fn, f"Feature(term=terms.{t}) missing", f"{name}: required feature {t} is not reported", r.lineno)

    # ------------------------------------------------------------------ R05.5
    def check_positions(self):
        ctx = self.ctx
        s = ctx.summ.of_func(OPS, "get_geometry_point")
        file = s.module.relpath
        g, pos = ("param", s.params[0]), ("param", s.params[1])
        m, lit = ctx.index.need_assign(OPS, "Positions")
        shape = ctx.models.shape(m, lit)
        names = list(shape[1]) if shape[0] == "lit" else []
        want_names = {"bottom-left", "bottom-right", "top-left", "top-right", "center-left", "center-right", "top-center",
                      "bottom-center", "center", "centroid", "point_on_surface"}
        if set(names) == want_names:
            ctx.ok("R05.5", f"{file}:{lit.lineno} Positions", f"{len(names)} named positions")
        else:
            ctx.bad("R05.5", file, "Positions", "Positions = Literal[...]",
                    f"named positions differ from the documented ones: missing {sorted(want_names - set(names))}, extra {sorted(set(names) - want_names)}",
                    lit.lineno)
        cb = ("call", ("global", f"{OPS}:compute_bounds", "func"), (g,), ())
        shp = ("call", ("global", f"{CONV}:geometry_to_shapely", "func"), (g,), ())
        B = [("sub", cb, ("const", i)) for i in range(4)]
        B2 = [("sub", ("attr", shp, "bounds"), ("const", i)) for i in range(4)]

        def mid(a, b):
            return ("bin", "/", ("bin", "+", a, b), ("const", 2))

        tsel = {"left": B[0], "center": mid(B[0], B[2]), "right": B[2]}
        fsel = {"bottom": B[1], "center": mid(B[1], B[3]), "top": B[3]}
        # `get_args(Positions)` is the tuple of the literal's names
        from sa.sym import Event, subst as _subst
        ga = {("call", ("ext", "typing.get_args"), (("global", f"{OPS}:Positions", "assign"),), ()):
              ("tuple", tuple(("const", n) for n in names))}
        s_returns = [Event(r.kind, _subst(r.live, ga), _subst(r.term, ga), r.node, r.loops, r.idx) for r in s.returns]
        s_raises = [Event(r.kind, _subst(r.live, ga), _subst(r.term, ga), r.node, r.loops, r.idx) for r in s.raises]
        # shapely hands out coordinate tuples, never None (trusted): a helper that returns `<shape point> or None` and is
        # tested with `is not None` is decided by that
        shape_points = [("sub", ("attr", ("attr", shp, "centroid"), "coords"), ("const", 0)),
                        ("sub", ("attr", ("call", ("ext", "shapely.point_on_surface"), (shp,), ()), "coords"), ("const", 0)),
                        ("sub", ("attr", ("call", ("attr", shp, "representative_point"), (), ()), "coords"), ("const", 0)),
                        ("sub", ("attr", ("call", ("attr", shp, "point_on_surface"), (), ()), "coords"), ("const", 0))]
        not_none = {}
        for w_ in shape_points:
            not_none[("cmp", "isnot", w_, NONE)] = True
            not_none[("cmp", "is", w_, NONE)] = False
        for p in sorted(want_names):
            env = {pos: p}
            env.update(not_none)
            outs = []
            for r in s_returns:
                lv = peval(fold_str_methods(peval(r.live, env)), {})
                if lv[0] == "const" and not lv[1]:
                    continue
                val = peval(fold_str_methods(peval(r.term, env)), {})
                from sa.sym import fold_sub as _fs
                val = _fs(self._expand_new_helpers(val, s.module))
                outs.append((lv, val, r))
            rs = [x for x in s_raises if peval(fold_str_methods(peval(x.live, env)), {}) == ("const", True)]
            definite = [o for o in outs if o[0] == ("const", True)]
            site = f"{file}:{s.node.lineno} get_geometry_point[{p}]"
            if rs or len(definite) != 1:
                ctx.bad("R05.5", file, "get_geometry_point", f"position {p!r}",
                        f"position {p!r} {'raises' if rs else 'has no single definite result'}", s.node.lineno)
                continue
            val = definite[0][1]
            # normalise bounds source
            from sa.sym import subst
            val = subst(val, {b2: b for b, b2 in zip(B, B2)})
            if p == "centroid":
                want = ("sub", ("attr", ("attr", shp, "centroid"), "coords"), ("const", 0))
                ok = val == want
                if ok:
                    # R05.7: the GEOS centroid is a weighted mean computed in doubles (and uses signed areas): on a zero-extent axis
                    # it can come out 1-3 ulp off the only coordinate, and for a self-crossing ring (accepted by the validators)
                    # outside the bounds altogether -- "the centroid lies inside the bounds" needs the value clamped into them
                    ctx.bad("R05.7", file, "get_geometry_point", "return shp_geom.centroid.coords[0] (not clamped into the bounds)",
                            "position 'centroid' returns the GEOS centroid as computed: for degenerate zero-extent geometries (LineString "
                            "[[0,0.1],[0.1,0.1]]: frequency 0.10000000000000002 with low = high = 0.1) it lies 1-3 ulp outside the bounds, "
                            "and for a self-crossing polygon the validators accept ([[0,0],[0,2],[1,0],[2,1]]) at (-0.333, 1.0), a negative "
                            "time -- the statement requires the centroid inside the bounds for every geometry, zero-extent cases included",
                            s.node.lineno, witness={"geometry": "LineString [[0,0.1],[0.1,0.1]]", "centroid_frequency": 0.10000000000000002, "bounds": [0, 0.1, 0.1, 0.1]})
                elif val[0] == "tuple" and all(any(y == want for y in walk(c_)) and c_[0] == "call" and c_[1] in (("builtin", "min"), ("builtin", "max")) for c_ in val[1]):
                    ctx.ok("R05.7", site, "centroid clamped into the bounds")
                    ok = True
            elif p == "point_on_surface":
                w1 = ("sub", ("attr", ("call", ("ext", "shapely.point_on_surface"), (shp,), ()), "coords"), ("const", 0))
                w2 = ("sub", ("attr", ("call", ("attr", shp, "representative_point"), (), ()), "coords"), ("const", 0))
                w3 = ("sub", ("attr", ("call", ("attr", shp, "point_on_surface"), (), ()), "coords"), ("const", 0))
                ok = val in (w1, w2, w3)
                want = w1
            else:
                if p == "center":
                    want = ("tuple", (tsel["center"], fsel["center"]))
                else:
                    y, x = p.split("-")
                    want = ("tuple", (tsel[x], fsel[y]))
                ok = val[0] == "tuple" and len(val[1]) == 2 and same(val[1][0], want[1][0]) and same(val[1][1], want[1][1])
            if ok:
                ctx.ok("R05.5", site, f"{p} -> {show(want)[:70]}")
            else:
                ctx.bad("R05.5", file, "get_geometry_point", f"position {p!r} -> {show(val)[:80]}",
                        f"position {p!r} evaluates to {show(val)[:100]} but must be {show(want)[:100]} "
                        f"(time, frequency) over the bounds (start, low, end, high)", s.node.lineno,
                        witness={"position": p})
        # invalid names are rejected
        env = {pos: "no-such-position"}
        rs = [x for x in s_raises if peval(fold_str_methods(peval(x.live, env)), {}) == ("const", True)]
        if rs:
            ctx.ok("R05.5", f"{file}:{s.node.lineno} get_geometry_point", "unknown position rejected")
        else:
            ctx.bad("R05.5", file, "get_geometry_point", "unknown position", "an unknown position name is not rejected up front", s.node.lineno)


def run_conversion_subset(ctx: Ctx):
    """What every computation on geometries rests on (buffering, affinity, overlap predicates, rasterisation delegate to it):
    geometry_to_shapely dispatches every type to its own converter, the converters hand the coordinates to shapely unchanged,
    compute_bounds is the converted shape's bounds."""
    with ctx.delegated("C05/"):
        ctx.rule("R05.1", "dispatch tables exhaustive and type-aligned", 9)
        ctx.rule("R05.2", "converters pass coordinates to shapely unchanged in (time, frequency) order", 9)
        ctx.rule("R05.3", "compute_bounds == converted shape's bounds", 1)
        c = C05(ctx)
        c.check_conversion()
        c.check_bounds(full=False)


def run(ctx: Ctx):
    ctx.rule("R05.1", "dispatch tables exhaustive and type-aligned", 19)
    ctx.rule("R05.2", "converters pass coordinates to shapely unchanged in (time, frequency) order", 9)
    ctx.rule("R05.3", "compute_bounds == converted shape's bounds", 1)
    ctx.rule("R05.4", "each feature value is the expression its term names, required term set per type", 33)
    ctx.rule("R05.5", "every named position evaluates to the specified point of the bounds", 13)
    ctx.rule("R05.6", "bounds cover every coordinate of polygons (interior rings included)", 1)
    ctx.rule("R05.7", "the centroid is kept inside the bounds", 1)
    c = C05(ctx)
    if len(c.names) != 9:
        ctx.note(f"{len(c.names)} geometry classes discovered (9 at the pinned commit)")
    c.check_conversion()
    c.check_bounds()
    c.check_features()
    c.check_positions()
    # "agree with the coordinates": the coordinates a geometry holds are the ones it was built from (C03's validator rules)
    from . import c03
    c03.run_validation_subset(ctx)
    return EXPLANATION, ASSUMPTIONS
