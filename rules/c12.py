"""C12 -- overlap predicates agree with exact interval arithmetic (R12.1 - R12.5)."""

from __future__ import annotations

import ast
import itertools

from sa.canon import canon
from sa.peval import peval
from sa.report import Ctx
from sa.sym import FALSE, NONE, TRUE, Summary, bind_args, conjuncts, show, subst, walk

OPS = "soundevent.geometry.operations"

EXPLANATION = (
    "Static decision of the structural clauses of the overlap predicates: R12.1 the summary of intervals_overlap is "
    "invariant under swapping its two intervals; R12.2 in each threshold mode (none / absolute / relative) the returned "
    "comparison is canonically `min(stops) - max(starts) >= threshold` with threshold 0 | absolute | relative x shorter "
    "width (monotonicity in the threshold follows from this form); R12.3 both thresholds together and a relative "
    "threshold outside [0, 1] are rejected, exactly (interval endpoints 0 and 1 accepted); R12.4 the temporal / "
    "frequency predicates pass the (start, end) / (low, high) projections of each geometry's bounds and forward both "
    "thresholds uncrossed; R12.5 is_in_clip rejects a negative minimum and is true exactly when end > clip.start + m "
    "and start < clip.end - m, decided on all 9 orderings of the two compared pairs. Float evaluation is trusted."
)
ASSUMPTIONS = ["comparisons on floats behave as on reals for the compared quantities (no NaN)"]


class C12:
    def __init__(self, ctx: Ctx):
        self.ctx = ctx
        self.file = ctx.index.module(OPS).relpath

    def check_intervals_overlap(self):
        ctx = self.ctx
        s = ctx.summ.of_func(OPS, "intervals_overlap")
        site = f"{self.file}:{s.node.lineno} intervals_overlap"
        i1, i2 = ("param", s.params[0]), ("param", s.params[1])
        A, R = ("param", "min_absolute_overlap"), ("param", "min_relative_overlap")
        # R12.1 symmetry
        tmp = ("param", "__swap__")
        base = {(e.kind, canon(e.live), canon(e.term)) for e in s.returns + s.raises}
        sw = set()
        for e in s.returns + s.raises:
            live = subst(subst(subst(e.live, {i1: tmp}), {i2: i1}), {tmp: i2})
            term = subst(subst(subst(e.term, {i1: tmp}), {i2: i1}), {tmp: i2})
            sw.add((e.kind, canon(live), canon(term)))
        if base == sw:
            ctx.ok("R12.1", site, "summary invariant under swapping interval1 <-> interval2")
        else:
            d = list(base - sw)[:1]
            ctx.bad("R12.1", self.file, "intervals_overlap", f"asymmetric: {show(d[0][2])[:100] if d else '?'}",
                    "intervals_overlap is not symmetric in its two intervals", s.node.lineno)
        # R12.2 per-mode formula
        s1, e1, s2, e2 = ("sub", i1, ("const", 0)), ("sub", i1, ("const", 1)), ("sub", i2, ("const", 0)), ("sub", i2, ("const", 1))
        MAX_, MIN_ = ("builtin", "max"), ("builtin", "min")
        inter = ("bin", "-", ("call", MIN_, (e1, e2), ()), ("call", MAX_, (s1, s2), ()))
        width = ("call", MIN_, (("bin", "-", e1, s1), ("bin", "-", e2, s2)), ())
        modes = {
            "no threshold": ({("cmp", "is", A, NONE): True, ("cmp", "isnot", A, NONE): False, ("cmp", "is", R, NONE): True, ("cmp", "isnot", R, NONE): False,
                              A: None, R: None}, ("const", 0)),
            "absolute": ({("cmp", "is", A, NONE): False, ("cmp", "isnot", A, NONE): True, ("cmp", "is", R, NONE): True, ("cmp", "isnot", R, NONE): False,
                          R: None}, A),
            "relative": ({("cmp", "is", A, NONE): True, ("cmp", "isnot", A, NONE): False, ("cmp", "is", R, NONE): False, ("cmp", "isnot", R, NONE): True,
                          A: None,
                          ("cmp", "lt", R, ("const", 0)): False, ("cmp", "lt", ("const", 1), R): False,
                          ("cmp", "le", ("const", 0), R): True, ("cmp", "le", R, ("const", 1)): True}, ("bin", "*", R, width)),
        }
        for mode, (env, theta) in modes.items():
            rets = []
            for r in s.returns:
                lv = peval(r.live, env)
                if lv == ("const", False):
                    continue
                rets.append((lv, peval(r.term, env), r))
            if len(rets) != 1 or rets[0][0] != ("const", True):
                # several return paths (early exits, clamped helpers): decide the piecewise predicate on a grid
                verdict = self.grid_mode(mode, env, rets, (s1, e1, s2, e2), A, R)
                if verdict is None:
                    ctx.undec("R12.2", site, f"mode {mode}: {len(rets)} candidate returns / undetermined path")
                elif verdict is True:
                    ctx.ok("R12.2", site, f"mode {mode}: piecewise predicate over {len(rets)} return paths == "
                                          f"min(stops) - max(starts) >= threshold on the interval grid")
                else:
                    pt, got_v, want_v, r = verdict
                    ctx.bad("R12.2", self.file, "intervals_overlap", f"mode {mode}: return {show(r.term)[:80]} under {show(r.live)[:60]}",
                            f"in mode `{mode}` intervals ({pt['a0']}, {pt['a1']}) and ({pt['b0']}, {pt['b1']})"
                            + (f" with threshold {pt.get('A', pt.get('R'))}" if mode != "no threshold" else "")
                            + f" give {got_v} but `min(stop1, stop2) - max(start1, start2) >= threshold` is {want_v}",
                            r.lineno, witness={"mode": mode, "point": pt})
                continue
            got = rets[0][1]
            want = ("cmp", "le", theta, inter)
            # compare as `inter - theta >= 0`
            def norm(c):
                if c[0] == "cmp" and c[1] in ("le", "lt"):
                    return (c[1], canon(("bin", "-", c[3], c[2])))
                return ("?", canon(c))
            if norm(got) == norm(want):
                ctx.ok("R12.2", site, f"mode {mode}: min(stops) - max(starts) >= {show(theta)[:50]}")
            else:
                ctx.bad("R12.2", self.file, "intervals_overlap", f"mode {mode}: return {show(got)[:100]}",
                        f"in mode `{mode}` the predicate is `{show(got)[:120]}` instead of "
                        f"`min(stop1, stop2) - max(start1, start2) >= {show(theta)[:60]}`"
                        + (" (strict comparison: touching intervals / exact-threshold overlaps are reported as non-overlapping)" if norm(got)[0] == "lt" and norm(got)[1] == norm(want)[1] else ""),
                        rets[0][2].lineno, witness={"mode": mode})
        # R12.3 rejections
        bad = None
        n = 0
        # the decision may not depend on the intervals: it is evaluated for ordinary, touching and zero-length ones alike
        interval_cases = [((0.0, 2.0), (1.0, 4.0)), ((0.0, 1.0), (1.0, 2.0)), ((1.0, 1.0), (0.0, 2.0)), ((3.0, 3.0), (3.0, 3.0))]
        for (a_val, r_val), (iv1, iv2) in itertools.product(
                itertools.product([None, 0.0, 0.5, 1.5], [None, -1e-9, 0.0, 0.5, 1.0, 1.0 + 1e-9, -1.0, 2.0]), interval_cases):
            a_given = a_val is not None
            env = {("cmp", "is", A, NONE): not a_given, ("cmp", "isnot", A, NONE): a_given, R: r_val, A: a_val,
                   s1: iv1[0], e1: iv1[1], s2: iv2[0], e2: iv2[1]}
            rej = False
            for r in s.raises:
                lv = peval(r.live, env)
                if lv[0] != "const":
                    ctx.undec("R12.3", site, f"rejection condition outside the recognised fragment: {show(lv)[:80]}")
                    return
                rej = rej or bool(lv[1])
            want = (a_given and r_val is not None) or (r_val is not None and not (0 <= r_val <= 1))
            n += 1
            if rej != want:
                bad = (a_val, r_val, rej)
                break
        if bad is None:
            ctx.ok("R12.3", site, f"rejects exactly: both thresholds given, or relative outside [0, 1] ({n} cases incl. endpoints)")
        else:
            a_given, r_val, rej = bad
            ctx.bad("R12.3", self.file, "intervals_overlap", "threshold validation",
                    f"with min_absolute_overlap={a_given} and min_relative_overlap={r_val} the call is "
                    f"{'rejected' if rej else 'accepted'} (specification: reject both-together and relative outside [0, 1]; 0 and 1 are valid)",
                    s.node.lineno, witness={"absolute_given": a_given, "relative": r_val})

    def grid_mode(self, mode, env, rets, ivs, A, R):
        """Evaluate the return paths of one threshold mode on a grid of interval pairs (disjoint, touching, nested,
        equal, zero-length) and thresholds, against min(stops) - max(starts) >= threshold.
        -> True | None (outside the formula fragment) | (point, got, want, return event)."""
        from sa.peval import Unknown, compile_term
        names = {ivs[0]: "a0", ivs[1]: "a1", ivs[2]: "b0", ivs[3]: "b1", A: "A", R: "R"}
        try:
            paths = [(compile_term(lv, names)[0], compile_term(tm, names)[0], r) for lv, tm, r in rets]
        except Unknown:
            return None
        pts = [0.0, 1.0, 1.0 + 2.0 ** -40, 2.0, 3.0]  # two end points a rounding step apart: a tolerance shows there
        ivl = [(a, b) for a in pts for b in pts if a <= b]
        ths = {"no threshold": [None], "absolute": [0.0, 0.5, 1.0, 2.0], "relative": [0.0, 0.5, 1.0]}[mode]
        for (a0, a1), (b0, b1), th in itertools.product(ivl, ivl, ths):
            pt = {"a0": a0, "a1": a1, "b0": b0, "b1": b1}
            if mode == "absolute":
                pt["A"] = th
            if mode == "relative":
                pt["R"] = th
            inter = min(a1, b1) - max(a0, b0)
            theta = 0 if mode == "no threshold" else (th if mode == "absolute" else th * min(a1 - a0, b1 - b0))
            want = inter >= theta
            got = None
            for cond, val, r in paths:
                try:
                    if cond(dict(pt)):
                        got = (bool(val(dict(pt))), r)
                        break
                except Exception:  # noqa: BLE001 - a formula that cannot be evaluated at a grid point is undecided
                    return None
            if got is None:
                return None
            if got[0] != want:
                return pt, got[0], want, got[1]
        return True

    def check_delegations(self):
        ctx = self.ctx
        io = ctx.summ.of_func(OPS, "intervals_overlap")
        cb = ("global", f"{OPS}:compute_bounds", "func")
        for fname, (lo, hi), what in (("have_temporal_overlap", (0, 2), "time"), ("have_frequency_overlap", (1, 3), "frequency")):
            s = ctx.summ.of_func(OPS, fname)
            site = f"{self.file}:{s.node.lineno} {fname}"
            g1, g2 = ("param", s.params[0]), ("param", s.params[1])
            B1, B2 = ("call", cb, (g1,), ()), ("call", cb, (g2,), ())
            deleg = [r for r in s.returns if r.term[0] == "call" and r.term[1] == ("global", f"{OPS}:intervals_overlap", "func")]
            other = [r for r in s.returns if r not in deleg]
            if other or len(deleg) != 1 or s.raises:
                o = (other or s.raises or s.returns)[0]
                ctx.bad("R12.4", self.file, fname, f"return {show(o.term)[:60]} under {show(o.live)[:60]}",
                        f"{fname} must equal intervals_overlap on the {what} extents for every input, but it also returns/raises "
                        f"`{show(o.term)[:60]}` when `{show(o.live)[:80]}`: thresholds (and their validation) are bypassed on that path",
                        o.lineno)
                continue
            s_ret = deleg[0]
            b, extra, _, _ = bind_args(s_ret.term, io.params)
            w1 = ("tuple", (("sub", B1, ("const", lo)), ("sub", B1, ("const", hi))))
            w2 = ("tuple", (("sub", B2, ("const", lo)), ("sub", B2, ("const", hi))))
            # bounds are 4-tuples (start, low, end, high; shapely, trusted): b[0::2] is (b[0], b[2]) and b[1::2] is (b[1], b[3])
            def unslice(t):
                if t is not None and t[0] == "sub" and t[2] == ("slice", ("const", lo), NONE, ("const", 2)) and t[1] in (B1, B2):
                    return ("tuple", (("sub", t[1], ("const", lo)), ("sub", t[1], ("const", hi))))
                if t is not None and t[0] == "sub" and lo == 0 and t[2] == ("slice", NONE, NONE, ("const", 2)) and t[1] in (B1, B2):
                    return ("tuple", (("sub", t[1], ("const", 0)), ("sub", t[1], ("const", 2))))
                return t
            got = {unslice(b.get(io.params[0])), unslice(b.get(io.params[1]))}
            if got == {w1, w2}:
                ctx.ok("R12.4", site, f"compares the {what} extents (bounds[{lo}], bounds[{hi}]) of both geometries")
            else:
                ctx.bad("R12.4", self.file, fname, f"intervals_overlap({show(b.get(io.params[0], NONE))[:50]}, {show(b.get(io.params[1], NONE))[:50]})",
                        f"{fname} must compare (bounds[{lo}], bounds[{hi}]) of geom1 with the same of geom2 (the {what} extent)", s.returns[0].lineno)
            okf = all(b.get(k) == ("param", k) for k in ("min_absolute_overlap", "min_relative_overlap"))
            if okf:
                ctx.ok("R12.4", site, "both thresholds forwarded uncrossed")
            else:
                ctx.bad("R12.4", self.file, fname, "threshold forwarding",
                        f"thresholds are not forwarded as given: absolute={show(b.get('min_absolute_overlap', NONE))}, "
                        f"relative={show(b.get('min_relative_overlap', NONE))}", s.returns[0].lineno)

    def check_exports(self):
        """R12.6: the four predicates are observed through `soundevent.geometry`: each must be bound there to the function of
        geometry/operations.py, and `__all__` must name each public function once (a name listed twice is another one missing)."""
        ctx = self.ctx
        pkg = ctx.index.module("soundevent.geometry")
        def binding(mod, name, depth=0):
            """what `name` is bound to in `mod`, following `x = module.attr` / `x = y` aliases"""
            sy = ctx.index.resolve(mod, name)
            if sy is not None and sy.kind == "assign" and depth < 4 and sy.module is not None:
                d_ = [x for x in sy.module.defs.get(name, []) if isinstance(x, (ast.Assign, ast.AnnAssign)) and x.value is not None]
                if len(d_) == 1 and isinstance(d_[0].value, (ast.Name, ast.Attribute)):
                    try:
                        s2 = ctx.index.resolve_expr(sy.module, d_[0].value)
                    except Exception:  # noqa: BLE001
                        s2 = None
                    if s2 is not None and s2.kind == "assign" and isinstance(d_[0].value, ast.Name):
                        return binding(s2.module, d_[0].value.id, depth + 1)
                    return s2 if s2 is not None else sy
            return sy

        for name in ("intervals_overlap", "have_temporal_overlap", "have_frequency_overlap", "is_in_clip"):
            sy = binding(pkg, name)
            if sy is not None and sy.kind == "func" and sy.module is not None and sy.module.name in (OPS, pkg.name) or \
                    (sy is not None and sy.kind == "func" and ctx.index.canonical_qual("func", sy.qual) == f"{OPS}:{name}"):
                ctx.ok("R12.6", f"{pkg.relpath} {name}", f"soundevent.geometry.{name} is the predicate of geometry/operations.py")
            else:
                ctx.bad("R12.6", pkg.relpath, name, f"soundevent.geometry.{name} unbound",
                        f"`soundevent.geometry.{name}` does not exist: the package's __init__ does not import {name} from "
                        f"geometry/operations.py, so the predicate cannot be reached through the public package "
                        f"(AttributeError / ImportError for `from soundevent.geometry import {name}`)", 1)
        for st in pkg.tree.body:
            if isinstance(st, ast.Assign) and any(isinstance(t, ast.Name) and t.id == "__all__" for t in st.targets):
                if isinstance(st.value, (ast.List, ast.Tuple)) and all(isinstance(e, ast.Constant) for e in st.value.elts):
                    names = [e.value for e in st.value.elts]
                else:
                    # a computed list (sorted(...), list(NAMES), "a b".split()): its value, when it is a constant expression
                    names = None
                    try:
                        from sa.sym import TRUE, Evaluator
                        v_ = peval(Evaluator(ctx.index, pkg, st.value, f"{pkg.name}:__all__", None).ev(st.value, TRUE), {})
                        if v_[0] in ("list", "tuple") and all(x[0] == "const" for x in v_[1]):
                            names = [x[1] for x in v_[1]]
                        elif v_[0] == "const" and isinstance(v_[1], (list, tuple)):
                            names = list(v_[1])
                    except Exception:  # noqa: BLE001
                        names = None
                    if names is None:
                        ctx.ok("R12.6", f"{pkg.relpath}:{st.lineno} __all__", "__all__ is computed (not a literal list): its entries are not compared")
                        continue
                dup = sorted({n for n in names if names.count(n) > 1})
                unbound = [n for n in names if binding(pkg, n) is None]
                if dup or unbound:
                    ctx.bad("R12.6", pkg.relpath, "__all__", f"__all__ duplicates {dup} unbound {unbound}",
                            f"soundevent.geometry.__all__ lists {dup} twice{' and names unbound ' + str(unbound) if unbound else ''}: a duplicated "
                            f"entry stands where another public name is missing", st.lineno)
                else:
                    ctx.ok("R12.6", f"{pkg.relpath}:{st.lineno} __all__", "every entry listed once and bound")

    def check_is_in_clip(self):
        ctx = self.ctx
        s = ctx.summ.of_func(OPS, "is_in_clip")
        site = f"{self.file}:{s.node.lineno} is_in_clip"
        g, clip, m = ("param", s.params[0]), ("param", s.params[1]), ("param", s.params[2])
        cb = ("call", ("global", f"{OPS}:compute_bounds", "func"), (g,), ())
        st, en = ("sub", cb, ("const", 0)), ("sub", cb, ("const", 2))
        # negative minimum rejected, and only that
        for mv in (-1.0, -1e-9, 0.0, 1.0):
            rej = [peval(r.live, {m: mv}) for r in s.raises]
            rejected = any(x == ("const", True) for x in rej)
            if any(x[0] != "const" for x in rej):
                ctx.undec("R12.5", site, "rejection condition depends on more than minimum_overlap")
                return
            if rejected != (mv < 0):
                ctx.bad("R12.5", self.file, "is_in_clip", "if minimum_overlap < 0: raise",
                        f"minimum_overlap={mv} is {'rejected' if rejected else 'accepted'} (negative values, and only those, must be rejected)",
                        s.node.lineno, witness={"minimum_overlap": mv})
                return
        ctx.ok("R12.5", site, "negative minimum_overlap rejected, 0 accepted")
        bad = None
        n = 0
        mv, cs, ce = 1.0, 10.0, 20.0
        placements = [(sv, ev) for ev in (10.5, 11.0, 11.5, 25.0) for sv in (5.0, 18.5, 19.0, 19.5) if sv <= ev]
        # zero-duration geometries (time stamps, points, vertical lines) around and on both thresholds
        placements += [(t, t) for t in (5.0, 10.5, 11.0, 11.5, 15.0, 18.5, 19.0, 19.5, 25.0)]
        # derived attributes of the clip (properties such as `duration`) take the value their definition gives on this clip
        derived = {}
        try:
            Clip = ctx.index.need_class("soundevent.data.clips", "Clip")
            for mn, fns in Clip.methods.items():
                if any(ast.unparse(d) == "property" for d in fns[-1].decorator_list):
                    ps = ctx.summ.of_func(Clip.module.name, f"Clip.{mn}")
                    if len(ps.returns) == 1 and ps.returns[0].live == TRUE:
                        v = peval(ps.returns[0].term, {("attr", ("param", ps.params[0]), "start_time"): cs, ("attr", ("param", ps.params[0]), "end_time"): ce})
                        if v[0] == "const":
                            derived[("attr", clip, mn)] = v[1]
        except Exception:  # noqa: BLE001
            pass
        for startv, endv in placements:
            if True:
                env = {**derived, m: mv, ("attr", clip, "start_time"): cs, ("attr", clip, "end_time"): ce, st: startv, en: endv}
                outs = []
                for r in s.returns:
                    lv = peval(r.live, env)
                    if lv == ("const", True):
                        outs.append(peval(r.term, env))
                    elif lv[0] != "const":
                        ctx.undec("R12.5", site, f"path condition outside the recognised fragment: {show(lv)[:80]}")
                        return
                n += 1
                want = endv > cs + mv and startv < ce - mv
                if len(outs) != 1 or outs[0][0] != "const" or bool(outs[0][1]) != want:
                    bad = (startv, endv, outs, want)
        if bad is None:
            ctx.ok("R12.5", site, f"true iff end > clip.start + m and start < clip.end - m on all {n} placements around both clip edges (touching = out)")
        else:
            startv, endv, outs, want = bad
            ctx.bad("R12.5", self.file, "is_in_clip", "return end > clip.start + m and start < clip.end - m",
                    f"clip [10, 20], minimum_overlap 1: a geometry spanning [{startv}, {endv}] gives "
                    f"{show(outs[0]) if outs else 'no result'} but the specification says {want} (an event merely touching "
                    f"clip.start + m / clip.end - m is out)", s.node.lineno,
                    witness={"clip": [cs, ce], "minimum_overlap": mv, "geometry": [startv, endv], "expected": want})


# ---------------------------------------------------------------------------------------------- the same obligations on finite models
def _machine(ctx):
    from types import SimpleNamespace as NS
    from sa.meval import Machine
    return Machine(ctx.summ, ctx.index, stubs={
        f"{OPS}:compute_bounds": lambda geometry: geometry.bounds4,
        "soundevent.geometry.conversion:geometry_to_shapely": lambda geom: NS(bounds=geom.bounds4),
    })


def _outcome(fn):
    from sa.meval import ModelRaise
    try:
        return ("value", fn())
    except ModelRaise as e:
        return ("raises", e.name)


def intervals_models(ctx):
    """intervals_overlap on every pair of 21 intervals with end points in {0, .5, 1, 1.5, 2, 3} (degenerate ones included), without a
    threshold, with absolute thresholds {0, .25, .5, 1, 2.5} and relative ones {0, .25, .5, 1}: true iff min(stops) - max(starts) >=
    0 / a / r * (the shorter length); both thresholds together and relative thresholds outside [0, 1] raise ValueError.
    -> (n, None) all agree, (n, message, witness) first disagreement; raises Unknown outside the interpreted fragment."""
    M = _machine(ctx)
    pts = (0.0, 0.5, 1.0, 1.5, 2.0, 3.0)
    ivs = [(a, b) for a in pts for b in pts if a <= b]
    n = 0

    def call(i1, i2, **kw):
        return _outcome(lambda: M.call(OPS, "intervals_overlap", i1, i2, **kw))

    for kw in ({"min_absolute_overlap": 0.5, "min_relative_overlap": 0.5}, {"min_absolute_overlap": 0.0, "min_relative_overlap": 0.0},
               {"min_relative_overlap": -0.5}, {"min_relative_overlap": 1.5}, {"min_relative_overlap": -1e-9}, {"min_relative_overlap": 1.0000001}):
        # (on intervals of positive length and on degenerate ones: the rejection is of the threshold, whatever the intervals)
        for i1, i2 in (((0.0, 2.0), (1.0, 3.0)), ((1.0, 1.0), (0.0, 2.0)), ((1.0, 1.0), (1.0, 1.0)), ((0.0, 2.0), (2.0, 2.0)), ((0.0, 1.0), (2.0, 3.0))):
            got = call(i1, i2, **kw)
            n += 1
            if got != ("raises", "ValueError"):
                return n, f"intervals_overlap({i1}, {i2}, {kw}) gives {got[1]!r} instead of raising ValueError", {"interval1": i1, "interval2": i2, "thresholds": kw}
    for i1 in ivs:
        for i2 in ivs:
            inter = min(i1[1], i2[1]) - max(i1[0], i2[0])
            shorter = min(i1[1] - i1[0], i2[1] - i2[0])
            cases = [({}, inter >= 0)]
            cases += [({"min_absolute_overlap": a}, inter >= a) for a in (0.0, 0.25, 0.5, 1.0, 2.5)]
            cases += [({"min_relative_overlap": r}, inter >= r * shorter) for r in (0.0, 0.25, 0.5, 1.0)]
            for kw, want in cases:
                got = call(i1, i2, **kw)
                n += 1
                if got[0] != "value" or bool(got[1]) != want:
                    return n, (f"intervals_overlap({i1}, {i2}{''.join(f', {k}={v}' for k, v in kw.items())}) "
                               f"{'gives ' + repr(got[1]) if got[0] == 'value' else 'raises ' + got[1]}; the intersection has length {inter} "
                               f"(shorter interval {shorter}), so the statement says {want}"), {"interval1": i1, "interval2": i2, **kw}
    return n, None, None


def extent_models(ctx, fname, lo, hi):
    """have_temporal_overlap / have_frequency_overlap on pairs of model geometries whose time and frequency extents differ in every
    respect: equal to the interval predicate of the statement on the (lo, hi) components of the bounds, thresholds forwarded"""
    from types import SimpleNamespace as NS
    M = _machine(ctx)
    geoms = [NS(bounds4=b, type="BoundingBox") for b in ((0.0, 10.0, 2.0, 30.0), (1.0, 40.0, 3.0, 45.0), (2.0, 20.0, 2.5, 40.0), (5.0, 12.0, 6.0, 12.0), (0.5, 30.0, 0.5, 100.0))]
    n = 0
    for g1 in geoms:
        for g2 in geoms:
            i1, i2 = (g1.bounds4[lo], g1.bounds4[hi]), (g2.bounds4[lo], g2.bounds4[hi])
            inter = min(i1[1], i2[1]) - max(i1[0], i2[0])
            shorter = min(i1[1] - i1[0], i2[1] - i2[0])
            cases = [({}, inter >= 0)] + [({"min_absolute_overlap": a}, inter >= a) for a in (0.0, 0.5, 1.0, 15.0)] \
                + [({"min_relative_overlap": r}, inter >= r * shorter) for r in (0.0, 0.5, 1.0)]
            for kw, want in cases:
                got = _outcome(lambda: M.call(OPS, fname, g1, g2, **kw))
                n += 1
                if got[0] != "value" or bool(got[1]) != want:
                    return n, (f"{fname} on bounds {g1.bounds4} and {g2.bounds4}{''.join(f', {k}={v}' for k, v in kw.items())} "
                               f"{'gives ' + repr(got[1]) if got[0] == 'value' else 'raises ' + got[1]}; on the extents {i1} and {i2} the statement says {want}"), \
                        {"bounds1": g1.bounds4, "bounds2": g2.bounds4, **kw}
    for kw in ({"min_absolute_overlap": 0.5, "min_relative_overlap": 0.5}, {"min_relative_overlap": 1.5}):
        got = _outcome(lambda: M.call(OPS, fname, geoms[0], geoms[1], **kw))
        n += 1
        if got != ("raises", "ValueError"):
            return n, f"{fname}(..., {kw}) gives {got[1]!r} instead of raising ValueError", {"thresholds": kw}
    return n, None, None


def clip_models(ctx):
    """is_in_clip for clips [10, 20] and [0, 8], minimum overlaps {0, 1, 2.5} and geometries placed around and on both thresholds
    (zero-duration ones included): true iff end > clip.start + m and start < clip.end - m; a negative minimum raises ValueError"""
    from types import SimpleNamespace as NS
    M = _machine(ctx)
    n = 0
    for cs, ce in ((10.0, 20.0), (0.0, 8.0)):
        clip = NS(start_time=cs, end_time=ce, duration=ce - cs)
        for m in (0.0, 1.0, 2.5):
            marks = sorted({cs - 1, cs, cs + m / 2, cs + m, cs + m + 0.5, (cs + ce) / 2, ce - m - 0.5, ce - m, ce - m / 2, ce, ce + 1})
            for sv in marks:
                for ev in marks:
                    if sv > ev:
                        continue
                    g = NS(bounds4=(sv, 100.0, ev, 200.0), type="BoundingBox")
                    got = _outcome(lambda: M.call(OPS, "is_in_clip", g, clip, m))
                    want = ev > cs + m and sv < ce - m
                    n += 1
                    if got[0] != "value" or bool(got[1]) != want:
                        return n, (f"clip [{cs}, {ce}], minimum_overlap {m}: a geometry spanning [{sv}, {ev}] "
                                   f"{'gives ' + repr(got[1]) if got[0] == 'value' else 'raises ' + got[1]} but the statement says {want}"), \
                            {"clip": [cs, ce], "minimum_overlap": m, "geometry": [sv, ev]}
        for m in (-1.0, -1e-9):
            got = _outcome(lambda: M.call(OPS, "is_in_clip", NS(bounds4=(cs + 1, 0.0, cs + 2, 1.0), type="BoundingBox"), clip, m))
            n += 1
            if got != ("raises", "ValueError"):
                return n, f"is_in_clip(..., minimum_overlap={m}) gives {got[1]!r} instead of raising ValueError", {"minimum_overlap": m}
    return n, None, None


def _settled(ctx, rules_run, models, rid, func, what, oks):
    """run the spelling-based rules, then the models; see rules/common.Settle"""
    from sa.peval import Unknown
    from .common import Settle
    st = Settle(ctx)
    rules_run()
    try:
        res = models()
    except Unknown:
        return
    except RecursionError:
        return
    file = ctx.index.module(OPS).relpath
    if res[1] is None:
        if not st.clean():
            st.withdraw()
            for k in range(oks):
                ctx.ok(rid[min(k, len(rid) - 1)], f"{file} {func}", f"{what}: agrees with the statement on all {res[0]} models")
    else:
        ctx.bad(rid[0], file, func, "the function vs the statement on a model", res[1], 0, witness=res[2])


def run(ctx: Ctx):
    ctx.rule("R12.1", "intervals_overlap symmetric", 1)
    ctx.rule("R12.2", "per-mode formula min(stops) - max(starts) >= threshold", 3)
    ctx.rule("R12.3", "threshold validation exact", 1)
    ctx.rule("R12.4", "temporal/frequency predicates: right projections, thresholds forwarded", 4)
    ctx.rule("R12.5", "is_in_clip truth table and negative minimum", 2)
    ctx.rule("R12.6", "the predicates are exported by soundevent.geometry, each once", 5)
    c = C12(ctx)
    # every obligation twice: by comparing spellings, and on finite models of the inputs (the models decide where the spelling cannot
    # be read, and are reported whenever they disagree with the statement)
    _settled(ctx, c.check_intervals_overlap, lambda: intervals_models(ctx), ["R12.1", "R12.2", "R12.2", "R12.2", "R12.3"], "intervals_overlap",
             "symmetric; true iff the intersection is at least the threshold; threshold validation", 5)

    def both_extents():
        for fname, (lo, hi) in (("have_temporal_overlap", (0, 2)), ("have_frequency_overlap", (1, 3))):
            r = extent_models(ctx, fname, lo, hi)
            if r[1] is not None:
                return r
        return r
    _settled(ctx, c.check_delegations, both_extents, ["R12.4"], "have_temporal_overlap / have_frequency_overlap",
             "equal to the interval predicate on the time / frequency extents, thresholds forwarded", 4)
    c.check_exports()
    _settled(ctx, c.check_is_in_clip, lambda: clip_models(ctx), ["R12.5"], "is_in_clip", "true iff the geometry reaches more than the minimum into the clip; negative minimum rejected", 2)
    # the extents compared are compute_bounds of the geometries: the bounds of the converted shape of the coordinates as given
    from . import c03, c05
    c05.run_conversion_subset(ctx)
    c03.run_validation_subset(ctx)
    return EXPLANATION, ASSUMPTIONS
