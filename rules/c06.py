"""C06 -- affinity is a symmetric intersection-over-union in [0, 1] (R06.1 - R06.5)."""

from __future__ import annotations

import ast
from typing import Dict, List, Optional, Tuple

from sa.canon import canon, same
from sa.index import AnalysisError
from sa.peval import PURE_FUNCS, Unknown, compile_term, peval  # noqa: F401
from sa.report import Ctx
from sa.sym import FALSE, NONE, TRUE, Summary, bind_args, conjuncts, show, subst, walk

AFF = "soundevent.evaluation.affinity"
OPS = "soundevent.geometry.operations"
CONV = "soundevent.geometry.conversion"
GEO = "soundevent.data.geometries"

EXPLANATION = (
    "Static decision of the structural clauses of the affinity: R06.1 the function summaries (all guarded returns) of "
    "compute_affinity and compute_affinity_in_time are invariant under swapping the two geometries once max/min/or/+ "
    "and shapely's intersection are treated as commutative; R06.2 the time-only and buffer type sets are exactly "
    "{TimeStamp, TimeInterval} and the five 0-/1-dimensional types, and the time branch is taken iff either geometry "
    "is time-only; R06.3 both geometries are prepared with the caller's buffers, forwarded uncrossed; R06.4 both "
    "branches are the canonical intersection / (a1 + a2 - intersection) with a zero-union guard; R06.5 a quotient of "
    "separately computed shapely areas has no static upper bound of 1, so the area branch must clamp its result. "
    "Numerical IoU values, disjoint => 0 and shift invariance depend on shapely and are not decided."
    'The buffered types are decided by evaluating _prepare_geometry once per geometry type; the return paths of both branches are evaluated as functions of (intersection, union) on a grid (zero union, quotient, clamp), whatever the spelling of guard and clamp. '
)
ASSUMPTIONS = [
    "shapely's intersection(...).area is symmetric and areas are >= 0 (trusted)",
    "the time-branch quotient is built from one subtraction chain over the same four floats and does not exceed 1 (argued in DESIGN.md; no clamp demanded)",
]

TIME_TYPES = {"TimeStamp", "TimeInterval"}
BUFFER_TYPES = {"TimeStamp", "Point", "MultiPoint", "LineString", "MultiLineString"}
ALL_TYPES = ("TimeStamp", "TimeInterval", "BoundingBox", "Point", "LineString", "Polygon", "MultiPoint", "MultiLineString", "MultiPolygon")


class C06:
    def __init__(self, ctx: Ctx):
        self.ctx = ctx
        self.file = ctx.index.module(AFF).relpath

    def type_set(self, name, _depth=0) -> Optional[set]:
        m, node = self.ctx.index.need_assign(AFF, name)
        return self._type_set_of(m, node, _depth)

    def _type_set_of(self, m, node, _depth=0) -> Optional[set]:
        if isinstance(node, ast.BinOp) and isinstance(node.op, (ast.BitOr, ast.Sub, ast.BitAnd)) and _depth < 4:
            a, b = self._type_set_of(m, node.left, _depth + 1), self._type_set_of(m, node.right, _depth + 1)
            if a is None or b is None:
                return None
            return a | b if isinstance(node.op, ast.BitOr) else (a - b if isinstance(node.op, ast.Sub) else a & b)
        if isinstance(node, ast.Name) and _depth < 4:
            try:
                return self.type_set(node.id, _depth + 1)
            except AnalysisError:
                return None
        if not isinstance(node, (ast.Set, ast.List, ast.Tuple)) and not (isinstance(node, ast.Call) and ast.unparse(node.func) in ("set", "frozenset")
                                                                        and node.args and hasattr(node.args[0], "elts")):
            return self._type_set_by_engine(m, node)
        elts = node.elts if not isinstance(node, ast.Call) else (node.args[0].elts if node.args and hasattr(node.args[0], "elts") else [])
        out = set()
        for e in elts:
            if isinstance(e, ast.Constant) and isinstance(e.value, str):
                out.add(e.value)
            elif isinstance(e, ast.Call) and isinstance(e.func, ast.Attribute) and e.func.attr == "geom_type":
                s = self.ctx.index.resolve_expr(m, e.func.value)
                if s is None or s.kind != "class":
                    return None
                out.add(s.qual.split(":")[1])
            else:
                return None
        return out

    def _type_set_by_engine(self, m, node) -> Optional[set]:
        """another spelling of the table (`frozenset(c.geom_type() for c in (A, B))`, a comprehension over a display): the engine's
        value of the expression, when that is a display of constant type names"""
        from sa.sym import Evaluator
        try:
            v = Evaluator(self.ctx.index, m, node, f"{m.name}:<table>", None).ev(node, TRUE)
        except (AnalysisError, RecursionError):
            return None
        while v[0] == "call" and v[1] in (("builtin", "set"), ("builtin", "frozenset"), ("builtin", "tuple"), ("builtin", "list")) \
                and len(v[2]) == 1 and not v[3]:
            v = v[2][0]
        if v[0] in ("set", "tuple", "list") and v[1] and all(x[0] == "const" and isinstance(x[1], str) for x in v[1]):
            return {x[1] for x in v[1]}
        return None

    # ------------------------------------------------------------------ R06.2
    def check_sets(self):
        ctx = self.ctx
        for name, want, why in (("TIME_GEOMETRY_TYPES", TIME_TYPES, "the types without frequency extent"),
                                ("BUFFER_GEOMETRY_TYPES", BUFFER_TYPES, "the types of topological dimension < 2 (no area unless buffered)")):
            try:
                got = self.type_set(name)
            except AnalysisError:
                continue  # the table is gone: the per-type evaluation of _prepare_geometry / the branch rule of compute_affinity decide
            m, node = ctx.index.need_assign(AFF, name)
            if got is None:
                ctx.undec("R06.2", f"{self.file}:{node.lineno} {name}", "not a literal set of geometry types")
            elif got == want:
                ctx.ok("R06.2", f"{self.file}:{node.lineno} {name}", f"== {sorted(want)}")
            else:
                ctx.bad("R06.2", self.file, name, f"{name} = {sorted(got)}",
                        f"{name} must be {why}: missing {sorted(want - got)}, extra {sorted(got - want)}"
                        + ("; an unbuffered zero-area geometry gives affinity 0 with everything, including itself" if name.startswith("BUFFER") and want - got else ""),
                        node.lineno)

    # ------------------------------------------------------------------ R06.1
    def summary_set(self, s: Summary, mapping=None):
        items = set()
        for e in s.returns + s.raises:
            live, term = e.live, e.term
            if mapping:
                live, term = subst(live, mapping), subst(term, mapping)
            items.add((e.kind, canon(live), canon(term)))
        return items

    def check_symmetry(self):
        ctx = self.ctx
        proven = ()
        for fname in ("compute_affinity_in_time", "compute_affinity"):
            try:
                s = ctx.summ.of_func(AFF, fname)
            except AnalysisError:
                if fname == "compute_affinity":
                    raise
                continue  # reported by the branch rule below
            a, b = ("param", s.params[0]), ("param", s.params[1])
            tmp = ("param", "__swap__")
            nc = ctx.normcalls
            site = f"{self.file}:{s.node.lineno} {fname}"
            if fname == "compute_affinity_in_time":
                reg = self.time_iou_by_regions(s)
                if reg is not None and reg[0]:
                    proven = proven + (("global", f"{AFF}:{fname}", "func"),)
                    ctx.ok("R06.1", site, f"equals the (symmetric) interval IoU on all {self._regions_n} orderings of the four time bounds")
                    continue
                if reg is not None:
                    continue  # the time-branch rule reports the deviating ordering (R06.4)

            def merged(events, swap):
                """outcomes with one value reached on several paths count once, under the disjunction of their conditions"""
                by = {}
                for e in events:
                    live, term = e.live, e.term
                    if swap:
                        live = subst(subst(subst(live, {a: tmp}), {b: a}), {tmp: b})
                        term = subst(subst(subst(term, {a: tmp}), {b: a}), {tmp: b})
                    by.setdefault((e.kind, canon(nc(term), proven)), []).append(nc(live))
                from sa.sym import OR as OR_
                return {(k, canon(OR_(*lvs), proven), t) for (k, t), lvs in by.items()}

            base, swapped = merged(s.returns + s.raises, False), merged(s.returns + s.raises, True)
            if base == swapped:
                # a function proven symmetric is an order-free callee for its callers
                proven = proven + (("global", f"{AFF}:{fname}", "func"),)
                ctx.ok("R06.1", site, f"summary ({len(base)} guarded outcomes) invariant under swapping {s.params[0]} <-> {s.params[1]}")
            else:
                diff = list(base - swapped)[:1]
                what = show(diff[0][2])[:120] if diff else "?"
                ctx.bad("R06.1", self.file, fname, f"asymmetric outcome: {what}",
                        f"{fname} is not symmetric in its two geometries: the outcome `{what}` changes when the arguments "
                        f"are swapped (e.g. only one geometry is buffered, or an extent of one side is used twice)",
                        s.node.lineno)

    def time_iou_by_machine(self, ts: Summary):
        """The same decision as time_iou_by_regions for spellings its term abstraction cannot read (functional pipelines, records with
        methods, strategy objects): the SUMMARY of compute_affinity_in_time is interpreted (sa/meval.Machine) on model geometries that
        only have bounds, on the same orderings / sample points and the same decimal grid.  None = outside the interpreted fragment."""
        import itertools
        from types import SimpleNamespace as NS
        from sa.meval import Machine, ModelRaise
        from sa.peval import Unknown
        M = Machine(self.ctx.summ, self.ctx.index, stubs={
            f"{OPS}:compute_bounds": lambda geometry: geometry.bounds4,
            f"{CONV}:geometry_to_shapely": lambda geom: NS(bounds=geom.bounds4),
        })

        def run(s1, e1, s2, e2):
            g1, g2 = NS(bounds4=(s1, 100.0, e1, 200.0), type="TimeInterval"), NS(bounds4=(s2, 300.0, e2, 900.0), type="TimeInterval")
            try:
                return ("value", M.apply_summary(ts, [g1, g2], {}, {}))
            except ModelRaise as e:
                return ("raises", e.name)

        class _E:  # what a report points at
            kind, term, lineno = "return", ("const", None), ts.node.lineno
        try:
            n_regions = 0
            gaps = ((1.0, 2.0, 0.5, 3.25), (0.125, 4.0, 1.5, 0.75), (2.5, 0.25, 0.25, 6.0), (1.0, 1.0, 1.0, 1.0), (7.0, 0.375, 2.125, 0.5))
            for ranks in itertools.product(range(4), repeat=4):
                if sorted(set(ranks)) != list(range(len(set(ranks)))) or ranks[0] > ranks[1] or ranks[2] > ranks[3]:
                    continue
                n_regions += 1
                for k, gp in enumerate(gaps):
                    levels, cur = [], 0.375 * (k + 1)
                    for r in range(4):
                        cur += gp[r]
                        levels.append(cur)
                    s1, e1, s2, e2 = [levels[r] for r in ranks]
                    inter = max(0.0, min(e1, e2) - max(s1, s2))
                    union = (e1 - s1) + (e2 - s2) - inter
                    want = 0.0 if union == 0 else inter / union
                    where = {"geometry1": [s1, e1], "geometry2": [s2, e2]}
                    got = run(s1, e1, s2, e2)
                    if got[0] == "raises":
                        self._regions_n = n_regions
                        return (False, f"raises {got[1]} for the time extents {where} (the intersection-over-union there is {want})"
                                + (": the zero-union guard is missing" if got[1] == "ZeroDivisionError" or union == 0 else ""), (_E, where))
                    v = got[1]
                    if isinstance(v, bool) or not isinstance(v, (int, float)) or v != want:
                        self._regions_n = n_regions
                        return (False, f"gives {v!r} for the time extents {where}; the intersection-over-union of the two intervals is {want!r}", (_E, where))
            grid = [k / 10 for k in (0, 1, 2, 3, 6, 7, 9, 11, 12)]  # (interpreting is slower than folding terms: a coarser decimal grid)
            for s1, e1, s2, e2 in itertools.product(grid, repeat=4):
                if s1 > e1 or s2 > e2 or (e1 - s1) + (e2 - s2) == 0:
                    continue
                got = run(s1, e1, s2, e2)
                where = {"geometry1": [s1, e1], "geometry2": [s2, e2]}
                if got[0] == "raises":
                    continue
                v = got[1]
                if not isinstance(v, (int, float)) or isinstance(v, bool):
                    continue
                if (e1 <= s2 or e2 <= s1) and v != 0:
                    self._regions_n = n_regions
                    return (False, f"gives {v!r} for the time extents {where}, which are disjoint or merely touch: the affinity must be exactly 0 "
                                   f"there (a positive value, however small, makes the matcher pair the two)", (_E, where))
                if (s1, e1) == (s2, e2) and e1 > s1 and v != 1:
                    self._regions_n = n_regions
                    return (False, f"gives {v!r} for the extent {[s1, e1]} compared with itself: the affinity must be exactly 1", (_E, where))
                if not (0 <= v <= 1):
                    self._regions_n = n_regions
                    return (False, f"gives {v!r} for the time extents {where}: outside [0, 1]", (_E, where))
        except (Unknown, RecursionError, ZeroDivisionError):
            return None
        self._regions_n = n_regions
        return (True, "equals the interval IoU on every ordering of the four time bounds (summary interpreted on model geometries)", None)

    def time_iou_by_regions(self, ts: Summary):
        """compute_affinity_in_time as a function of the four time bounds (s1, e1, s2, e2) = compute_bounds(g)[0], [2]: where its
        return paths only compare and add / subtract / divide these four numbers (max / min / abs included), the function is
        piecewise rational over the orderings of the four values -- it is evaluated on every weak ordering with s1 <= e1 and s2 <= e2
        (5 sample points each, dyadic values so that sums are exact) and compared with the intersection-over-union of the two
        intervals (0 where the union is 0).  -> None: outside that fragment; else (ok, message, witness)."""
        if getattr(self, "_regions_cache", None) is not None and self._regions_cache[0] is ts:
            return self._regions_cache[1]
        import itertools
        a, b = ("param", ts.params[0]), ("param", ts.params[1])
        cb = ("global", f"{OPS}:compute_bounds", "func")
        V = [("param", f"__{n}__") for n in ("s1", "e1", "s2", "e2")]
        leaves = {}
        for g, (vs, ve) in ((a, (V[0], V[1])), (b, (V[2], V[3]))):
            for B in (("call", cb, (g,), ()), ("call", cb, (), (("geometry", g),))):
                leaves[("sub", B, ("const", 0))] = vs
                leaves[("sub", B, ("const", 2))] = ve

        def abstract(t):
            if not isinstance(t, tuple) or not t:
                return t
            if t in leaves:
                return leaves[t]
            return tuple(abstract(x) if isinstance(x, tuple) else x for x in t)

        outcomes = [(e.kind, abstract(e.live), abstract(e.term), e) for e in ts.returns + ts.raises]
        allowed = set(V)
        for _, lv, tm, _ in outcomes:
            for x in list(walk(lv)) + list(walk(tm)):
                if x[0] == "param" and x not in allowed:
                    self._regions_cache = (ts, self.time_iou_by_machine(ts))
                    return self._regions_cache[1]
                if x[0] in ("global", "attr", "elem", "ext", "alloc", "lambda", "comp") or (x[0] == "call" and x[1] not in PURE_FUNCS):
                    if not (x[0] in ("builtin", "ext") and len(x) == 2):
                        self._regions_cache = (ts, self.time_iou_by_machine(ts))
                        return self._regions_cache[1]
        result = (True, f"equals the interval IoU on every ordering of the four time bounds", None)
        n_regions = 0
        gaps = ((1.0, 2.0, 0.5, 3.25), (0.125, 4.0, 1.5, 0.75), (2.5, 0.25, 0.25, 6.0), (1.0, 1.0, 1.0, 1.0), (7.0, 0.375, 2.125, 0.5))
        for ranks in itertools.product(range(4), repeat=4):
            if sorted(set(ranks)) != list(range(len(set(ranks)))) or ranks[0] > ranks[1] or ranks[2] > ranks[3]:
                continue
            n_regions += 1
            for k, gp in enumerate(gaps):
                levels, cur = [], 0.375 * (k + 1)
                for r in range(4):
                    cur += gp[r]
                    levels.append(cur)
                vals = [levels[r] for r in ranks]
                env = dict(zip(V, vals))
                s1, e1, s2, e2 = vals
                inter = max(0.0, min(e1, e2) - max(s1, s2))
                union = (e1 - s1) + (e2 - s2) - inter
                want = 0.0 if union == 0 else inter / union
                alive = []
                undecided = False
                for kind, lv, tm, e in outcomes:
                    on = True
                    for c in conjuncts(lv):
                        v = peval(c, env)
                        if v[0] != "const":
                            if any(x[0] == "bin" and x[1] in ("/", "//", "%") for x in walk(v) if isinstance(x, tuple)):
                                on = None
                                break
                            undecided = True
                            break
                        if not v[1]:
                            on = False
                            break
                    if undecided:
                        break
                    if on is None or on:
                        alive.append((kind, tm, e, on is None))
                if undecided or len(alive) != 1:
                    self._regions_cache = (ts, self.time_iou_by_machine(ts))
                    return self._regions_cache[1]
                kind, tm, e, div0 = alive[0]
                where = {"geometry1": [s1, e1], "geometry2": [s2, e2]}
                if kind == "raise":
                    result = (False, f"raises for the time extents {where} (the intersection-over-union there is {want})", (e, where))
                    break
                v = peval(tm, env)
                if div0 or v[0] != "const":
                    if div0 or any(x[0] == "bin" and x[1] in ("/", "//") for x in walk(v) if isinstance(x, tuple)):
                        result = (False, f"divides by zero for the time extents {where} (two zero-extent geometries at the same instant, or "
                                         f"union 0): the zero-union guard is missing", (e, where))
                        break
                    self._regions_cache = (ts, None)
                    return None
                if isinstance(v[1], bool) or not isinstance(v[1], (int, float)) or v[1] != want:
                    result = (False, f"gives {v[1]!r} for the time extents {where}; the intersection-over-union of the two intervals is {want!r}", (e, where))
                    break
            if not result[0]:
                break
        if result[0]:
            # the same function in floating point, on a decimal grid (end points that are not exactly representable): the clauses of
            # the statement that are exact -- 0 for extents that are disjoint or merely touch, 1 for an extent compared with itself,
            # never outside [0, 1].  (An algebraically equal formula such as "durations minus span" fails here: 2.2e-16 for 0.1-0.2
            # against 0.2-1.1, which the matcher treats as an overlap.)
            grid = [k / 10 for k in range(0, 13)]
            for s1, e1, s2, e2 in itertools.product(grid, repeat=4):
                if s1 > e1 or s2 > e2:
                    continue
                disjoint = e1 <= s2 or e2 <= s1
                same = (s1, e1) == (s2, e2) and e1 > s1
                env = dict(zip(V, (s1, e1, s2, e2)))
                val = None
                for kind, lv, tm, e in outcomes:
                    on = True
                    for c in conjuncts(lv):
                        cv = peval(c, env)
                        if cv[0] != "const" or not cv[1]:
                            on = False
                            break
                    if on:
                        v = peval(tm, env) if kind == "return" else None
                        val = v[1] if v is not None and v[0] == "const" and isinstance(v[1], (int, float)) and not isinstance(v[1], bool) else None
                        break
                if val is None:
                    continue  # union 0 / outside the fragment here: decided above on the exact grid
                where = {"geometry1": [s1, e1], "geometry2": [s2, e2]}
                if disjoint and val != 0:
                    result = (False, f"gives {val!r} for the time extents {where}, which are disjoint or merely touch: the affinity must be exactly 0 "
                                     f"there (a positive value, however small, makes the matcher pair the two)", (e, where))
                    break
                if same and val != 1:
                    result = (False, f"gives {val!r} for the extent {[s1, e1]} compared with itself: the affinity must be exactly 1", (e, where))
                    break
                if not (0 <= val <= 1):
                    result = (False, f"gives {val!r} for the time extents {where}: outside [0, 1]", (e, where))
                    break
        self._regions_n = n_regions
        self._regions_cache = (ts, result)
        return result

    def check_body_inlined(self, s, g1, g2, tb, fb, site):
        """compute_affinity without the _prepare_geometry helper: the same obligations on the written-out form"""
        ctx = self.ctx
        conv = ("global", f"{CONV}:geometry_to_shapely", "func")
        tsym = ("global", f"{AFF}:compute_affinity_in_time", "func")
        bsym = ("global", f"{OPS}:buffer_geometry", "func")
        bs = ctx.summ.of_func(OPS, "buffer_geometry")
        convs = [e.term[2][0] for e in s.calls if e.term[1] == conv and len(e.term[2]) == 1]
        P = {}
        for g in (g1, g2):
            cands = [t for t in convs if any(x == g for x in walk(t)) and not any(x == (g2 if g == g1 else g1) for x in walk(t))]
            if len(set(cands)) != 1:
                ctx.undec("R06.3", site, f"the prepared form of {show(g)} is not a single expression handed to geometry_to_shapely")
                return
            P[g] = cands[0]
        P1, P2 = P[g1], P[g2]
        # per type: buffered with the caller's buffers for exactly the buffer types, left alone otherwise
        genv = {}
        for x in list(walk(P1)) + list(walk(P2)):
            if x[0] == "global" and x[2] == "assign" and x not in genv and x[1].startswith(AFF + ":"):
                try:
                    genv[x] = frozenset(self.type_set(x[1].split(":")[1]))
                except AnalysisError:
                    pass
        ok_all = True
        for g, Pg in ((g1, P1), (g2, P2)):
            for T in ALL_TYPES:
                env = dict(genv)
                env[("attr", g, "type")] = T
                v = peval(Pg, env)
                if T in BUFFER_TYPES:
                    bound = bind_args(v, bs.params)[0] if (v[0] == "call" and v[1] == bsym) else None
                    good = bound is not None and bound.get(bs.params[0]) == g and bound.get("time_buffer") == tb and bound.get("freq_buffer") == fb
                else:
                    good = v == g
                if not good:
                    ok_all = False
                    ctx.bad("R06.3", self.file, "compute_affinity", f"{show(g)} of type {T} -> {show(v)[:60]}",
                            f"a {T} given as {show(g)} is prepared as `{show(v)[:80]}`: "
                            + ("it has no area of its own and must be buffered with the caller's (time_buffer, freq_buffer)" if T in BUFFER_TYPES
                               else "it has an extent of its own and must be compared as it is"), s.node.lineno, witness={"type": T})
        if ok_all:
            ctx.ok("R06.3", site, "both geometries buffered with the caller's buffers for exactly the buffer types (helper written out)")
            ctx.ok("R06.3", site, "geometry1 prepared")
            ctx.ok("R06.3", site, "geometry2 prepared")
        TIME = ("global", f"{AFF}:TIME_GEOMETRY_TYPES", "assign")
        raw_branch = canon(("or", (("cmp", "in", ("attr", g1, "type"), TIME), ("cmp", "in", ("attr", g2, "type"), TIME))))
        branch = canon(("or", (("cmp", "in", ("attr", P1, "type"), TIME), ("cmp", "in", ("attr", P2, "type"), TIME))))
        trets = [r for r in s.returns if r.term[0] == "call" and r.term[1] == tsym]
        def time_branch_ok(lv):
            return canon(lv) in (branch, raw_branch)

        if len(trets) == 1 and time_branch_ok(trets[0].live) and set(trets[0].term[2]) == {P1, P2}:
            ctx.ok("R06.2", site, "time-only branch taken iff either geometry is time-only; both prepared geometries forwarded")
        else:
            ctx.bad("R06.2", self.file, "compute_affinity", f"time branch: {show(trets[0].live)[:90] if trets else 'missing'}",
                    "the time-only branch must be taken exactly when geometry1 OR geometry2 is a TimeStamp/TimeInterval and "
                    f"pass both prepared geometries (found condition {show(trets[0].live)[:100] if trets else '-'})", s.node.lineno)
        S1, S2 = ("call", conv, (P1,), ()), ("call", conv, (P2,), ())
        inter = ("attr", ("call", ("attr", S1, "intersection"), (S2,), ()), "area")
        union = ("bin", "-", ("bin", "+", ("attr", S1, "area"), ("attr", S2, "area")), inter)
        arets = [r for r in s.returns if not (r.term[0] == "call" and r.term[1] == tsym)]
        self.fast_leaves = (P1, P2)
        self.check_iou("compute_affinity", s, arets, inter, union, clamp_required=True)
        self.fast_leaves = None
        self.check_time_function(s)

    # ------------------------------------------------------------------ R06.2 (branch) / R06.3 / R06.4 / R06.5
    def check_body(self):
        ctx = self.ctx
        s = ctx.summ.of_func(AFF, "compute_affinity")
        g1, g2 = ("param", s.params[0]), ("param", s.params[1])
        tb, fb = ("param", "time_buffer"), ("param", "freq_buffer")
        prep_sym = ("global", f"{AFF}:_prepare_geometry", "func")
        site = f"{self.file}:{s.node.lineno} compute_affinity"
        try:
            ps = ctx.summ.of_func(AFF, "_prepare_geometry")
        except AnalysisError:
            ps = None
        if ps is None:
            # the private helper is gone (its body written out in compute_affinity): the prepared geometries are the values handed
            # to the converter / the time branch, read as functions of the geometry they derive from
            return self.check_body_inlined(s, g1, g2, tb, fb, site)
        preps = [e for e in s.calls if e.term[1] == prep_sym]
        prepared = {}
        for e in preps:
            bound, extra, spreads, _ = bind_args(e.term, ps.params)
            g = bound.get(ps.params[0])
            good = bound.get("time_buffer") == tb and bound.get("freq_buffer") == fb
            if g in (g1, g2):
                prepared[g] = e.term
            if good:
                ctx.ok("R06.3", f"{self.file}:{e.lineno} compute_affinity", f"_prepare_geometry({show(g)}, time_buffer, freq_buffer)")
            else:
                ctx.bad("R06.3", self.file, "compute_affinity", f"{show(e.term)[:80]}",
                        f"geometry {show(g)} is prepared with buffers (time={show(bound.get('time_buffer', NONE))}, "
                        f"freq={show(bound.get('freq_buffer', NONE))}) instead of the caller's (time_buffer, freq_buffer)", e.lineno)
        if set(prepared) != {g1, g2}:
            ctx.bad("R06.3", self.file, "compute_affinity", "_prepare_geometry on both geometries",
                    f"only {[show(x) for x in prepared]} of the two geometries is prepared (buffered): a 0-/1-dimensional "
                    f"geometry on the other side has no area", s.node.lineno)
            return
        P1, P2 = prepared[g1], prepared[g2]
        TIME = ("global", f"{AFF}:TIME_GEOMETRY_TYPES", "assign")
        branch = canon(("or", (("cmp", "in", ("attr", P1, "type"), TIME), ("cmp", "in", ("attr", P2, "type"), TIME))))
        raw_branch = canon(("or", (("cmp", "in", ("attr", g1, "type"), TIME), ("cmp", "in", ("attr", g2, "type"), TIME))))
        tsym = ("global", f"{AFF}:compute_affinity_in_time", "func")
        trets = [r for r in s.returns if r.term[0] == "call" and r.term[1] == tsym]
        if len(trets) > 1 and len({r.term for r in trets}) == 1:
            # one outcome reached by several guard clauses (`if g1 is time-only: return t` / `if g2 is time-only: return t`): taken
            # under the disjunction of their conditions
            from sa.sym import OR as OR_, Event
            trets = [Event("return", OR_(*[r.live for r in trets]), trets[0].term, trets[0].node, (), trets[0].idx)]
        if len(trets) == 1 and canon(trets[0].live) in (branch, raw_branch) and set(trets[0].term[2]) == {P1, P2}:
            ctx.ok("R06.2", site, "time-only branch taken iff either (prepared) geometry is time-only; both prepared geometries forwarded")
        else:
            ctx.bad("R06.2", self.file, "compute_affinity", f"time branch: {show(trets[0].live)[:90] if trets else 'missing'}",
                    "the time-only branch must be taken exactly when geometry1 OR geometry2 is a TimeStamp/TimeInterval and "
                    f"pass both prepared geometries (found condition {show(trets[0].live)[:100] if trets else '-'})", s.node.lineno)
        # area branch
        conv = ("global", f"{CONV}:geometry_to_shapely", "func")
        S1, S2 = ("call", conv, (P1,), ()), ("call", conv, (P2,), ())
        inter = ("attr", ("call", ("attr", S1, "intersection"), (S2,), ()), "area")
        union = ("bin", "-", ("bin", "+", ("attr", S1, "area"), ("attr", S2, "area")), inter)
        arets = [r for r in s.returns if not (r.term[0] == "call" and r.term[1] == tsym)]
        self.fast_leaves = (P1, P2)
        self.check_iou("compute_affinity", s, arets, inter, union, clamp_required=True)
        self.fast_leaves = None
        # _prepare_geometry itself, evaluated once per geometry type (whatever tables / tests select the types)
        g = ("param", ps.params[0])
        tag = ("attr", g, "type")
        bsym = ("global", f"{OPS}:buffer_geometry", "func")
        bs = ctx.summ.of_func(OPS, "buffer_geometry")
        psite = f"{self.file}:{ps.node.lineno} _prepare_geometry"
        genv = {}
        for r in ps.raw_returns:
            for x in list(walk(r.live)) + list(walk(r.term)):
                if x[0] == "global" and x[2] == "assign" and x not in genv and x[1].startswith(AFF + ":"):
                    try:
                        ts_ = self.type_set(x[1].split(":")[1])
                    except AnalysisError:
                        ts_ = None
                    if ts_ is not None:
                        genv[x] = frozenset(ts_)
        buffered, same, odd, mixed = set(), set(), [], []
        for T in ALL_TYPES:
            env = dict(genv)
            env[tag] = T
            outs = []
            for r in ps.raw_returns:
                lv = peval(r.live, env)
                if lv[0] == "const" and not lv[1]:
                    continue
                outs.append((lv, peval(r.term, env), r))
            if len(outs) != 1 or not (outs[0][0][0] == "const" and outs[0][0][1]):
                # the outcome depends on more than the type: what CAN happen to a geometry of this type?
                kinds = {"buffer" if (o[1][0] == "call" and o[1][1] == bsym) else ("same" if o[1] == g else "other") for o in outs}
                cond = next((o[0] for o in outs if o[0][0] != "const"), None)
                if T not in BUFFER_TYPES and "buffer" in kinds:
                    mixed.append((T, f"a {T} (which has an extent of its own) is buffered when `{show(cond)[:90] if cond else '?'}`: its affinities are no longer the IoU of the geometries themselves"))
                elif T in BUFFER_TYPES and "same" in kinds:
                    mixed.append((T, f"a {T} (no area of its own) is left unbuffered when `{show(cond)[:90] if cond else '?'}`: it has affinity 0 with everything, including itself"))
                else:
                    odd.append((T, "outcome not decided by the type alone"))
                continue
            val = outs[0][1]
            if val == g:
                same.add(T)
            elif val[0] == "call" and val[1] == bsym:
                bound, extra, _, _ = bind_args(val, bs.params)
                if bound.get(bs.params[0]) == g and bound.get("time_buffer") == ("param", "time_buffer") and bound.get("freq_buffer") == ("param", "freq_buffer") and not extra:
                    buffered.add(T)
                else:
                    odd.append((T, f"buffered with {show(val)[:70]}"))
            else:
                odd.append((T, f"returns {show(val)[:60]}"))
        for T_, why_ in mixed:
            ctx.bad("R06.2", self.file, "_prepare_geometry", f"{T_}: buffered or not depending on the coordinates", why_, ps.node.lineno)
        if mixed:
            pass
        elif odd and all(w == "outcome not decided by the type alone" for _, w in odd):
            ctx.undec("R06.3", psite, f"result for {[t for t, _ in odd]} is not decided by the geometry type alone")
        elif odd:
            ctx.bad("R06.3", self.file, "_prepare_geometry", "buffer_geometry(geometry, time_buffer=time_buffer, freq_buffer=freq_buffer)",
                    f"_prepare_geometry must return buffer_geometry(geometry, time_buffer, freq_buffer) or the geometry itself: {odd[:3]}",
                    ps.node.lineno)
        else:
            ctx.ok("R06.3", psite, "every type: buffer_geometry(geometry, time_buffer, freq_buffer) uncrossed, or the geometry itself")
            if buffered == BUFFER_TYPES:
                ctx.ok("R06.2", psite, f"the buffered types are exactly {sorted(BUFFER_TYPES)} (evaluated per type)")
            else:
                ctx.bad("R06.2", self.file, "_prepare_geometry", f"buffered types = {sorted(buffered)}",
                        f"_prepare_geometry buffers {sorted(buffered)} but must buffer exactly the types of topological dimension < 2 "
                        f"({sorted(BUFFER_TYPES)}): missing {sorted(BUFFER_TYPES - buffered)}, extra {sorted(buffered - BUFFER_TYPES)}"
                        + ("; an unbuffered zero-area geometry gives affinity 0 with everything, including itself" if BUFFER_TYPES - buffered else "")
                        + ("; buffering a geometry that already has an extent changes its affinities" if buffered - BUFFER_TYPES else ""),
                        ps.node.lineno)
        self.check_time_function(s)

    def check_time_function(self, s):
        ctx = self.ctx
        # time branch function
        try:
            ts = ctx.summ.of_func(AFF, "compute_affinity_in_time")
        except AnalysisError:
            ctx.bad("R06.4", self.file, "compute_affinity", "compute_affinity_in_time removed",
                    "there is no time-only affinity any more: a geometry without frequency extent is compared as a full-band box, so a "
                    "TimeInterval against a BoundingBox over the same time span gives area ratios (0.0008) instead of the temporal IoU (1.0)",
                    s.node.lineno)
            return
        a, b = ("param", ts.params[0]), ("param", ts.params[1])
        cb = ("global", f"{OPS}:compute_bounds", "func")
        B1, B2 = ("call", cb, (a,), ()), ("call", cb, (b,), ())
        s1, e1, s2, e2 = ("sub", B1, ("const", 0)), ("sub", B1, ("const", 2)), ("sub", B2, ("const", 0)), ("sub", B2, ("const", 2))
        MAX_, MIN_ = ("builtin", "max"), ("builtin", "min")
        tinter = ("call", MAX_, (("const", 0), ("bin", "-", ("call", MIN_, (e1, e2), ()), ("call", MAX_, (s1, s2), ()))), ())
        tunion = ("bin", "-", ("bin", "+", ("bin", "-", e1, s1), ("bin", "-", e2, s2)), tinter)
        reg = self.time_iou_by_regions(ts)
        if reg is not None:
            tsite = f"{self.file}:{ts.node.lineno} compute_affinity_in_time"
            if reg[0]:
                ctx.ok("R06.4", tsite, f"intersection / (extent1 + extent2 - intersection), 0 where the union is 0: {reg[1]} ({self._regions_n} orderings x 5 points)")
                ctx.ok("R06.4", tsite, "union 0 -> returns 0 without dividing (the orderings with two zero extents)")
                ctx.ok("R06.5", tsite, "time quotient of interval lengths: never above 1 on any ordering")
            else:
                e_, where = reg[2]
                ctx.bad("R06.4", self.file, "compute_affinity_in_time", f"{e_.kind} {show(e_.term)[:80]}",
                        f"compute_affinity_in_time {reg[1]}", e_.lineno, witness=where)
            return
        self.check_iou("compute_affinity_in_time", ts, ts.returns, tinter, tunion, clamp_required=False)

    @staticmethod
    def _unclamp(t):
        ONE = (("const", 1), ("const", 1.0))
        if t[0] == "call" and t[1] == ("builtin", "min") and len(t[2]) == 2 and any(x in ONE for x in t[2]):
            return [x for x in t[2] if x not in ONE][0], True
        if t[0] == "call" and t[1] == ("builtin", "float") and len(t[2]) == 1:
            return t[2][0], False
        return t, False

    def fast_paths(self, fname, s: Summary, extra):
        """Closed-form return paths taken when both geometries are bounding boxes: the piecewise function they define
        over the eight box coordinates must equal the intersection-over-union of the two boxes on a grid of box pairs
        (disjoint in one axis, in both, touching, nested, identical, degenerate).  Returns True (all fine, instances
        recorded), False (violation recorded) or None (outside the fragment)."""
        ctx = self.ctx
        P1, P2 = self.fast_leaves
        BB = ("call", ("attr", ("global", "soundevent.data.geometries:BoundingBox", "class"), "geom_type"), (), ())
        BB2 = ("call", ("global", "soundevent.data.geometries:BoundingBox.geom_type", "func"), (), ())
        is_bb = lambda P: [("cmp", "eq", ("attr", P, "type"), BB), ("cmp", "eq", BB, ("attr", P, "type")),
                           ("cmp", "eq", ("attr", P, "type"), BB2), ("cmp", "eq", BB2, ("attr", P, "type")),
                           ("cmp", "eq", ("attr", P, "type"), ("const", "BoundingBox")),
                           ("call", ("builtin", "isinstance"), (P, ("global", "soundevent.data.geometries:BoundingBox", "class")), ())]
        names = {}
        for gi, P in enumerate((P1, P2)):
            for i in range(4):
                names[("sub", ("attr", P, "coordinates"), ("const", i))] = f"b{gi}_{i}"
        paths = []
        for r in extra:
            conj = list(conjuncts(r.live))
            if not (any(c in is_bb(P1) for c in conj) and any(c in is_bb(P2) for c in conj)):
                return None
            rest = [c for c in conj if c not in is_bb(P1) + is_bb(P2) and not (c[0] in ("not", "cmp") and any(
                x == ("global", f"{AFF}:TIME_GEOMETRY_TYPES", "assign") for x in walk(c)))]
            try:
                from sa.sym import AND
                paths.append((compile_term(AND(*rest), names)[0], compile_term(r.term, names)[0], r))
            except Unknown:
                return None
        if not paths:
            return None
        pts = [0.0, 1.0, 2.0, 3.0, 5.0]
        n = 0
        import itertools
        ivs = [(a, b) for a in pts for b in pts if a <= b]
        for (s1, e1), (s2, e2), (l1, h1), (l2, h2) in itertools.product(ivs, ivs, [(0.0, 1.0), (1.0, 3.0), (2.0, 2.0)], [(0.0, 1.0), (0.5, 2.0), (4.0, 5.0)]):
            env = {"b0_0": s1, "b0_1": l1, "b0_2": e1, "b0_3": h1, "b1_0": s2, "b1_1": l2, "b1_2": e2, "b1_3": h2}
            it = max(0.0, min(e1, e2) - max(s1, s2)) * max(0.0, min(h1, h2) - max(l1, l2))
            un = (e1 - s1) * (h1 - l1) + (e2 - s2) * (h2 - l2) - it
            want = 0.0 if un == 0 else it / un
            got = None
            for cond, val, r in paths:
                try:
                    if cond(env):
                        got = (val(env), r)
                        break
                except ZeroDivisionError:
                    got = ("ZeroDivisionError", r)
                    break
            n += 1
            if got is None:
                continue  # falls through to the canonical path
            if got[0] == "ZeroDivisionError" or abs(got[0] - want) > 1e-12:
                r = got[1]
                ctx.bad("R06.4", self.file, fname, f"return {show(r.term)[:90]} (bounding-box path)",
                        f"{fname}: the closed-form path for two bounding boxes gives {got[0]} for boxes "
                        f"[{s1}, {l1}, {e1}, {h1}] and [{s2}, {l2}, {e2}, {h2}] whose intersection over union is {want}",
                        r.lineno, witness={"box1": [s1, l1, e1, h1], "box2": [s2, l2, e2, h2], "got": got[0], "want": want})
                return False
        ctx.ok("R06.4", f"{self.file}:{paths[0][2].lineno} {fname}", f"closed-form bounding-box path equals the IoU on {n} box pairs")
        return True

    def iou_by_evaluation(self, fname, s: Summary, rets, inter, union, clamp_required: bool) -> bool:
        """Decide R06.4 / R06.5 by evaluating the return paths as functions of (intersection I, union U) on a grid, whatever
        the spelling of the guard (`U == 0`, `not U`, `U <= 0`) and of the clamp (min, conditional, clip).  False = the
        paths are not functions of I and U alone (the syntactic rule below decides)."""
        ctx = self.ctx
        ci, cu = canon(inter), canon(union)
        I, U = ("param", "__I__"), ("param", "__U__")

        def abstract(t):
            if not isinstance(t, tuple) or not t:
                return t
            if isinstance(t[0], str) and t[0] in ("bin", "attr", "call", "sub", "neg"):
                try:
                    c = canon(t)
                except Exception:  # noqa: BLE001
                    c = None
                if c == cu:
                    return U
                if c == ci:
                    return I
            return tuple(abstract(x) if isinstance(x, tuple) else x for x in t)

        paths = []
        for r in rets:
            lv, tm = abstract(r.live), abstract(r.term)
            paths.append((lv, tm, r))
        # conditions shared by all paths that do not mention I / U (the branch selection) are dropped
        def mentions(t):
            return any(x in (I, U) for x in walk(t))
        stripped = []
        for lv, tm, r in paths:
            cj = [c for c in conjuncts(lv) if mentions(c)]
            if any(x[0] in ("call", "attr", "sub", "global", "elem") and not mentions(x) and x[0] != "call" for x in walk(tm) if isinstance(x, tuple)) and not mentions(tm) and tm[0] != "const":
                return False
            stripped.append((cj, tm, r))
        funcs = dict(PURE_FUNCS)
        funcs[("ext", "numpy.clip")] = lambda x, lo, hi: min(max(x, lo), hi)
        funcs[("ext", "numpy.minimum")] = min
        site = f"{self.file}:{s.node.lineno} {fname}"
        grid = [(0.0, 0.0)]
        for u in (1.0, 3.0, 0.3):
            grid += [(0.0, u), (u / 4, u), (u, u), (u * (1 + 2 ** -40), u)]
        verdict = {"guard": None, "quot": None, "clamp": None}
        for iv, uv in grid:
            env = {I: iv, U: uv}
            live_paths = []
            for cj, tm, r in stripped:
                alive = True
                for c in cj:  # in path order: a false earlier test means the later ones are never evaluated
                    v = peval(c, env, funcs)
                    if v[0] != "const":
                        return False
                    if not v[1]:
                        alive = False
                        break
                if alive:
                    live_paths.append((tm, r))
            if len(live_paths) != 1:
                return False
            tm, r = live_paths[0]
            v = peval(tm, env, funcs)
            if uv == 0.0:
                if v[0] != "const":
                    if any(x[0] == "bin" and x[1] in ("/", "//") for x in walk(v) if isinstance(x, tuple)):
                        verdict["guard"] = verdict["guard"] or ("divides", r)
                        continue
                    return False
                if v[1] != 0:
                    verdict["guard"] = verdict["guard"] or ("value", r, v[1])
                continue
            if v[0] != "const" or isinstance(v[1], bool) or not isinstance(v[1], (int, float)):
                return False
            want = iv / uv
            if iv > uv:
                if clamp_required and v[1] > 1.0:
                    verdict["clamp"] = verdict["clamp"] or (r, v[1])
                elif v[1] not in (want, 1.0):
                    verdict["quot"] = verdict["quot"] or (r, iv, uv, v[1])
                continue
            if v[1] != want:
                verdict["quot"] = verdict["quot"] or (r, iv, uv, v[1])
        r0 = stripped[-1][2]
        if verdict["guard"] is None:
            ctx.ok("R06.4", site, "union 0 -> returns 0 without dividing (evaluated on the (intersection, union) grid)")
        else:
            ctx.bad("R06.4", self.file, fname, "if union == 0: return 0",
                    f"{fname} has no zero-union guard: two zero-extent geometries divide by zero"
                    if verdict["guard"][0] == "divides" else f"{fname} returns {verdict['guard'][2]} instead of 0 when the union is 0", s.node.lineno)
        if verdict["quot"] is None:
            ctx.ok("R06.4", f"{self.file}:{r0.lineno} {fname}", f"returns intersection / (extent1 + extent2 - intersection) on all {len(grid)} grid points")
        else:
            r, iv, uv, got = verdict["quot"]
            ctx.bad("R06.4", self.file, fname, f"return {show(r.term)[:100]}",
                    f"{fname} does not return intersection / (extent1 + extent2 - intersection): for intersection={iv}, union={uv} "
                    f"it returns {got} instead of {iv / uv}", r.lineno, witness={"intersection": iv, "union": uv, "returned": got})
            return True
        if clamp_required:
            if verdict["clamp"] is None:
                ctx.ok("R06.5", f"{self.file}:{r0.lineno} {fname}", "area quotient clamped to <= 1 (intersection slightly above union -> 1.0)")
            else:
                r, got = verdict["clamp"]
                ctx.bad("R06.5", self.file, fname, "return intersection / union (unclamped area quotient)",
                        "the quotient of separately computed shapely areas is returned unclamped: for a geometry compared with "
                        "itself intersection.area can exceed area1 + area2 - intersection.area by rounding, so the affinity "
                        "exceeds 1 (e.g. a buffered LineString with itself: 1.000000000000067) and Match(affinity=...) rejects it",
                        r.lineno, witness={"geometry": "LineString [[3.1869, 17566.9], [5.8090, 31877.99]] with itself",
                                           "observed": 1.000000000000067})
        else:
            ctx.ok("R06.5", f"{self.file}:{r0.lineno} {fname}", "time quotient: one subtraction chain over the same four floats (no clamp needed)")
        return True

    def check_iou(self, fname, s: Summary, rets, inter, union, clamp_required: bool):
        ctx = self.ctx
        try:
            if self.iou_by_evaluation(fname, s, rets, inter, union, clamp_required):
                return
        except RecursionError:
            pass
        site = f"{self.file}:{s.node.lineno} {fname}"
        ci, cu = canon(inter), canon(union)
        zero_guard = canon(("cmp", "eq", union, ("const", 0)))
        nonzero = canon(("cmp", "ne", union, ("const", 0)))
        q = canon(("bin", "/", inter, union))
        zero_ret = [r for r in rets if canon(r.term) == canon(("const", 0))]
        quot = [r for r in rets if r not in zero_ret]
        has_zero = any(zero_guard in [canon(c) for c in conjuncts(r.live)] or canon(("cmp", "le", union, ("const", 0))) in [canon(c) for c in conjuncts(r.live)]
                       for r in zero_ret)
        if has_zero:
            ctx.ok("R06.4", site, "zero-union guard returns 0")
        else:
            ctx.bad("R06.4", self.file, fname, "if union == 0: return 0",
                    f"{fname} has no zero-union guard: two zero-extent geometries divide by zero", s.node.lineno)
        if len(quot) != 1:
            # additional return paths (a closed-form fast path for some pair of types): decided by evaluating the path's
            # formula on a grid of box pairs against the IoU it has to equal
            canonical = [r for r in quot if self._unclamp(r.term)[0] is not None and canon(self._unclamp(r.term)[0]) == q]
            extra = [r for r in rets if r not in canonical and not (r in zero_ret and any(
                canon(c) in (zero_guard, canon(("cmp", "le", union, ("const", 0)))) for c in conjuncts(r.live)))]
            if len(canonical) != 1 or not getattr(self, "fast_leaves", None):
                ctx.undec("R06.4", site, f"{len(quot)} non-zero returns (expected the single IoU quotient)")
                return
            verdict = self.fast_paths(fname, s, extra)
            if verdict is None:
                ctx.undec("R06.4", site, f"{len(quot)} non-zero returns; the additional path is outside the formula fragment")
                return
            quot = canonical
        r = quot[0]
        t = r.term
        clamped = False
        inner = t
        ONE = (("const", 1), ("const", 1.0))
        if t[0] == "call" and t[1] == ("builtin", "min") and len(t[2]) == 2 and any(x in ONE for x in t[2]):
            inner = [x for x in t[2] if x not in ONE][0]
            clamped = True
        elif t[0] == "call" and t[1][0] == "ext" and t[1][1] in ("numpy.clip", "numpy.minimum") and t[2]:
            inner = t[2][0]
            clamped = (t[1][1] == "numpy.minimum" and any(x in ONE for x in t[2])) or \
                      (t[1][1] == "numpy.clip" and len(t[2]) == 3 and t[2][2] in ONE)
            if t[1][1] == "numpy.minimum":
                inner = [x for x in t[2] if x not in ONE][0]
        elif t[0] == "ite" and (t[2] in ONE or t[3] in ONE):
            inner = t[3] if t[2] in ONE else t[2]
            clamped = True
        elif t[0] == "call" and t[1] == ("builtin", "float") and len(t[2]) == 1:
            inner = t[2][0]
        if canon(inner) == q:
            ctx.ok("R06.4", f"{self.file}:{r.lineno} {fname}", "returns intersection / (extent1 + extent2 - intersection)")
        else:
            ctx.bad("R06.4", self.file, fname, f"return {show(t)[:100]}",
                    f"{fname} does not return intersection / (extent1 + extent2 - intersection): found {show(inner)[:140]}", r.lineno)
            return
        if clamp_required:
            if clamped:
                ctx.ok("R06.5", f"{self.file}:{r.lineno} {fname}", "area quotient clamped to <= 1")
            else:
                ctx.bad("R06.5", self.file, fname, "return intersection / union (unclamped area quotient)",
                        "the quotient of separately computed shapely areas is returned unclamped: for a geometry compared with "
                        "itself intersection.area can exceed area1 + area2 - intersection.area by rounding, so the affinity "
                        "exceeds 1 (e.g. a buffered LineString with itself: 1.000000000000067) and Match(affinity=...) rejects it",
                        r.lineno, witness={"geometry": "LineString [[3.1869, 17566.9], [5.8090, 31877.99]] with itself",
                                           "observed": 1.000000000000067})
        else:
            ctx.ok("R06.5", f"{self.file}:{r.lineno} {fname}", "time quotient: one subtraction chain over the same four floats (no clamp needed)")


# ------------------------------------------------------------------------------------------- compute_affinity on rectangle models
class _Rect:
    """the converted shape of a model geometry: an axis-aligned rectangle (possibly of zero width / height), with the two operations
    compute_affinity uses (the engine writes shapely.intersection(a, b) / shapely.area(a) in this method / attribute form)"""
    def __init__(self, s, lo, e, hi):
        self.b = (s, lo, e, hi)

    @property
    def bounds(self):
        return self.b

    excess = 1.0

    @property
    def area(self):
        s, lo, e, hi = self.b
        return max(e - s, 0.0) * max(hi - lo, 0.0) * self.excess

    def intersection(self, other):
        s, lo, e, hi = max(self.b[0], other.b[0]), max(self.b[1], other.b[1]), min(self.b[2], other.b[2]), min(self.b[3], other.b[3])
        r = _Rect(s, lo, e, hi) if s <= e and lo <= hi else _Rect(0.0, 0.0, 0.0, 0.0)
        if self.b == other.b:
            # GEOS computes the three areas separately: for a shape with itself the intersection can come out a few ulp ABOVE the
            # shape's own area (1.000000000000067 was observed on the real library) -- modelled by a dyadic excess, so that a quotient
            # that is not clamped exceeds 1 here as well
            r.excess = 1.0 + 2.0 ** -20
        return r

    def union(self, other):
        raise Unknown("union of shapes is not modelled")


_LOW_DIM = ("TimeStamp", "Point", "MultiPoint", "LineString", "MultiLineString")


def affinity_models(ctx):
    """compute_affinity on model geometries that are rectangles in the time-frequency plane, tagged with every geometry type (the
    library's buffering is modelled as the widening it is for a rectangle, the conversion as the rectangle itself): for all ordered
    pairs of types, five placements (overlapping, nested, touching in time, disjoint, identical) and two unequal buffer pairs the
    value must be the statement's: 0-/1-dimensional types are widened by the buffers first, the others are not; if either geometry
    is a TimeStamp / TimeInterval the IoU of the time extents, else the area IoU (at most 1); 0 where the union is 0; and the same
    with the arguments swapped.  -> (n, None, None) / (n, message, witness); Unknown outside the interpreted fragment."""
    from types import SimpleNamespace as NS
    from sa.meval import Machine, ModelRaise
    MAXF = 5_000_000.0

    def widen(g, tb, fb):
        s, lo, e, hi = g.bounds4
        if g.type in ("TimeStamp", "TimeInterval"):
            return NS(type="TimeInterval", bounds4=(max(s - tb, 0.0), lo, e + tb, hi), coordinates=None)
        return NS(type="Polygon" if g.type != "BoundingBox" else "BoundingBox",
                  bounds4=(max(s - tb, 0.0), max(lo - fb, 0.0), e + tb, min(hi + fb, MAXF)), coordinates=None)

    def buffer_stub(geometry, time_buffer=0, freq_buffer=0, **kw):
        if time_buffer < 0 or freq_buffer < 0:
            raise ModelRaise("ValueError")
        return widen(geometry, time_buffer, freq_buffer)

    M = Machine(ctx.summ, ctx.index, stubs={
        f"{OPS}:compute_bounds": lambda geometry: geometry.bounds4,
        f"{OPS}:buffer_geometry": buffer_stub,
        f"{CONV}:geometry_to_shapely": lambda geom: _Rect(*geom.bounds4),
    })
    types = ("TimeStamp", "TimeInterval", "Point", "LineString", "Polygon", "BoundingBox", "MultiPoint", "MultiLineString", "MultiPolygon")

    def shape_of(t, s, lo, e, hi):
        if t == "TimeStamp":
            return NS(type=t, bounds4=(s, 0.0, s, MAXF), coordinates=s)
        if t == "TimeInterval":
            return NS(type=t, bounds4=(s, 0.0, e, MAXF), coordinates=[s, e])
        if t in ("Point", "MultiPoint"):
            return NS(type=t, bounds4=(s, lo, s, lo), coordinates=None)
        if t in ("LineString", "MultiLineString"):
            return NS(type=t, bounds4=(s, lo, e, lo), coordinates=None)  # a horizontal line
        return NS(type=t, bounds4=(s, lo, e, hi), coordinates=None)

    def oracle(g1, g2, tb, fb):
        p1 = widen(g1, tb, fb) if g1.type in _LOW_DIM else g1
        p2 = widen(g2, tb, fb) if g2.type in _LOW_DIM else g2
        if p1.type in ("TimeStamp", "TimeInterval") or p2.type in ("TimeStamp", "TimeInterval"):
            s1, _, e1, _ = p1.bounds4
            s2, _, e2, _ = p2.bounds4
            inter = max(0.0, min(e1, e2) - max(s1, s2))
            union = (e1 - s1) + (e2 - s2) - inter
            return 0.0 if union == 0 else inter / union
        r1, r2 = _Rect(*p1.bounds4), _Rect(*p2.bounds4)
        inter = r1.intersection(r2).area
        union = r1.area + r2.area - inter
        return 0.0 if union == 0 else min(inter / union, 1.0)

    placements = (((1.0, 100.0, 3.0, 300.0), (2.0, 200.0, 5.0, 500.0)), ((1.0, 100.0, 9.0, 900.0), (2.0, 200.0, 3.0, 300.0)),
                  ((1.0, 100.0, 2.0, 300.0), (2.0, 100.0, 4.0, 300.0)), ((1.0, 100.0, 2.0, 200.0), (6.0, 700.0, 8.0, 900.0)),
                  ((2.0, 200.0, 4.0, 400.0), (2.0, 200.0, 4.0, 400.0)),
                  # zero extent in time on both sides (union 0 unless a buffer widens them): the result is 0, not a division by zero
                  ((2.0, 200.0, 2.0, 400.0), (2.0, 200.0, 2.0, 400.0)), ((2.0, 200.0, 2.0, 400.0), (6.0, 200.0, 6.0, 400.0)))
    n = 0
    for t1 in types:
        for t2 in types:
            for b1, b2 in placements:
                for tb, fb in ((0.5, 16.0), (0.125, 64.0)):
                    g1, g2 = shape_of(t1, *b1), shape_of(t2, *b2)
                    want = oracle(g1, g2, tb, fb)
                    for a, b in ((g1, g2), (g2, g1)):
                        try:
                            got = ("value", M.call(AFF, "compute_affinity", a, b, time_buffer=tb, freq_buffer=fb))
                        except ModelRaise as e:
                            got = ("raises", e.name)
                        n += 1
                        if got[0] != "value" or isinstance(got[1], bool) or not isinstance(got[1], (int, float)) or got[1] != want:
                            w = {"geometry1": {"type": a.type, "bounds": list(a.bounds4)}, "geometry2": {"type": b.type, "bounds": list(b.bounds4)},
                                 "time_buffer": tb, "freq_buffer": fb, "expected": want, "got": got[1]}
                            return n, (f"compute_affinity of a {a.type} with bounds {list(a.bounds4)} and a {b.type} with bounds {list(b.bounds4)} "
                                       f"(time_buffer {tb}, freq_buffer {fb}; shapes modelled as rectangles) "
                                       f"{'gives ' + repr(got[1]) if got[0] == 'value' else 'raises ' + got[1]}; the statement gives {want!r}"), w
    return n, None, None


def _settle_affinity(ctx, c, symmetry=True):
    """the spelling-based rules of compute_affinity (type tables included), then the rectangle models (rules/common.Settle)"""
    from .common import Settle
    st = Settle(ctx)
    c.check_sets()
    if symmetry:
        c.check_symmetry()
    c.check_body()
    try:
        res = affinity_models(ctx)
    except (Unknown, RecursionError):
        return
    file = ctx.index.module(AFF).relpath
    # compute_affinity_in_time has its own decision on models (orderings of the bounds + decimal grid): its reports stay
    own = lambda text: "compute_affinity_in_time" in (text or "")  # noqa: E731
    if res[1] is None:
        if not st.clean_except(own):
            st.withdraw(keep=own)
            what = f"agrees with the statement on all {res[0]} rectangle models (every ordered pair of geometry types, five placements, two buffer pairs, both argument orders)"
            for rid, k in (("R06.1", 2 if symmetry else 0), ("R06.2", 3), ("R06.3", 3), ("R06.4", 4), ("R06.5", 2)):
                for _ in range(k):
                    ctx.ok(rid, f"{file} compute_affinity", what)
    else:
        ctx.bad("R06.4", file, "compute_affinity", "the function vs the statement on a rectangle model", res[1], 0, witness=res[2])


def run(ctx: Ctx):
    ctx.rule("R06.1", "summaries invariant under swapping the two geometries", 2)
    ctx.rule("R06.2", "type sets exact; time branch iff either geometry is time-only", 3)
    ctx.rule("R06.3", "both geometries prepared with the caller's buffers, exactly the buffer types buffered", 3)
    ctx.rule("R06.4", "canonical IoU with zero-union guard in both branches", 4)
    ctx.rule("R06.5", "returned value cannot exceed 1 (area quotient clamped)", 2)
    c = C06(ctx)
    _settle_affinity(ctx, c)
    # 0-/1-dimensional geometries get their area from buffer_geometry (anchored file geometry/operations.py): its rules
    # (C11) are necessary conditions of the affinity of such geometries
    from . import c11
    with ctx.delegated("C11/"):
        c11.run_affinity_subset(ctx)
    # areas and extents are those of the converted shapes (anchored file geometry/conversion.py) of the geometries as given
    from . import c03, c05
    c05.run_conversion_subset(ctx)
    c03.run_validation_subset(ctx)
    return EXPLANATION, ASSUMPTIONS


def run_for_detection(ctx: Ctx):
    """The clauses C08 rests on: affinity is the IoU of the two prepared geometries (positive only when they overlap)."""
    ctx.rule("R06.2", "type sets exact; time branch iff either geometry is time-only", 3)
    ctx.rule("R06.3", "both geometries prepared with the caller's buffers, exactly the buffer types buffered", 3)
    ctx.rule("R06.4", "canonical IoU with zero-union guard in both branches", 4)
    ctx.rule("R06.5", "returned value cannot exceed 1 (area quotient clamped)", 2)
    c = C06(ctx)
    _settle_affinity(ctx, c, symmetry=False)
    # "overlap" is the overlap of the shapes the geometries are converted / buffered to: a converter that drops a hole, or a
    # buffering step that fills one, reports an overlap the geometries do not have
    from . import c03, c05, c11
    with ctx.delegated("C11/"):
        c11.run_affinity_subset(ctx)
    c05.run_conversion_subset(ctx)
    c03.run_validation_subset(ctx)
