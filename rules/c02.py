"""C02 -- AOEF documents are closed under reference and resolvable in one pass (R02.1 - R02.6)."""

from __future__ import annotations

import ast
from typing import Dict, List, Optional, Set, Tuple

from sa.index import AnalysisError, ClassInfo
from sa.models import shape_str, strip_opt
from sa.report import Ctx
from sa.sym import NONE, Evaluator, Summary, show, subst, walk, conjuncts

from .aoef import ADAPTERS_MOD, AOEF_PKG, DATA_ADAPTER, Aoef, Collection, Leaf, attr_reads, camel, relfile
from .c01 import C01, Types

EXPLANATION = (
    "Static decision of the structural clauses that make a written document closed under reference: R02.1 in every "
    "collection writer no conversion that can write a store executes after that store was snapshot with values() "
    "(Python evaluation order, including later keyword arguments of the same call and super() results); R02.2 every "
    "reference keyword (UUID / id lists) derives from the owning adapter's to_aoef(...).uuid|.id with matching data "
    "class; R02.3 every sub-adapter is constructed from the collection's shared adapters, bound to the right "
    "parameter; R02.4 id allocation: new id taken before insertion, tag ids = size of the key table, tag key == the "
    "stored (key, value); R02.5 an object is stored only after it was assembled (so nested references are already "
    "stored) and values() keeps insertion order; R02.6 only DataAdapter's own methods write the stores."
)
ASSUMPTIONS = [
    "Python evaluates call arguments left to right, positional before keyword, keywords in source order",
    "dict preserves insertion order",
    "distinctness of objects = distinct uuids / (label, value) pairs at run time (trusted)",
]

STORES = ("_mapping", "_aoef_store", "_soundevent_store")
MUTATORS = ("update", "pop", "clear", "setdefault", "popitem", "__setitem__", "__delitem__")


class C02:
    def __init__(self, ctx: Ctx):
        self.ctx = ctx
        self.c1 = C01(ctx)
        self.ao = self.c1.ao
        self._writes: Dict[str, Set[str]] = {}

    # ------------------------------------------------------------------ writes*(leaf)
    def writes(self, leaf: Leaf, seen=None) -> Set[str]:
        if leaf.ci.qual in self._writes:
            return self._writes[leaf.ci.qual]
        seen = seen or set()
        if leaf.ci.qual in seen:
            return set()
        seen = seen | {leaf.ci.qual}
        out = {leaf.ci.qual} if leaf.has_store else set()
        for e in leaf.writer.calls:
            mc = self.ao.method_call(e.term)
            if mc and mc[1] == "to_aoef" and mc[0]:
                dep = leaf.dep_attrs.get(mc[0])
                if dep is not None and dep.qual in self.ao.leaves:
                    out |= self.writes(self.ao.leaves[dep.qual], seen)
        self._writes[leaf.ci.qual] = out
        return out

    # ------------------------------------------------------------------ R02.1
    def timeline(self, col: Collection, owner: ClassInfo) -> Tuple[Summary, List[dict]]:
        """Events of owner.to_aoef in evaluation order: snapshots, conversions, super calls."""
        fn = owner.methods["to_aoef"][-1]
        s = self.ctx.summ.of_node(owner.module, fn, f"{owner.qual}.to_aoef", owner)
        out = []
        for e in s.calls:
            t = e.term
            if self.ao.is_super_call(t, "to_aoef"):
                # the base timeline, collapsed at this index
                mro = col.ci.mro()
                idx = [c.qual for c in mro].index(owner.qual)
                base = next((c for c in mro[idx + 1:] if "to_aoef" in c.methods), None)
                w: Set[str] = set()
                snaps: Dict[str, Set[str]] = {}
                if base is not None:
                    _, btl = self.timeline(col, base)
                    for b in btl:
                        if b["kind"] == "conv":
                            w |= b["writes"]
                        if b["kind"] == "super":
                            w |= b["writes"]
                out.append({"kind": "super", "idx": e.idx, "writes": w, "event": e, "term": t, "base": base})
                continue
            mc = self.ao.method_call(t)
            if not mc or not mc[0]:
                continue
            attr, meth, _ = mc
            wire = col.wires.get(attr)
            if wire is None:
                continue
            leaf = self.ao.leaves[wire.cls.qual]
            if meth == "values":
                out.append({"kind": "snap", "idx": e.idx, "attr": attr, "store": leaf.ci.qual, "event": e, "term": t})
            elif meth == "to_aoef":
                out.append({"kind": "conv", "idx": e.idx, "attr": attr, "writes": self.writes(leaf), "event": e, "term": t})
        return s, out

    def check_order(self, col: Collection):
        ctx = self.ctx
        found = col.ci.find_method("to_aoef")
        owner = found[0]
        if owner.qual != col.ci.qual:
            return  # inherited unchanged: checked with the base row
        try:
            wt, wk, ws, wowner, wret = self.c1.result_kwargs(col.ci, "to_aoef", "O")
        except AnalysisError as e:
            ctx.undec("R02.1", e.site, str(e))
            return
        s, tl = self.timeline(col, owner)
        file, func = owner.module.relpath, f"{owner.name}.to_aoef"
        convs = [x for x in tl if x["kind"] in ("conv", "super")]
        # snapshots that reach the document
        for g, v in wk.items():
            snaps = []  # (idx, store qual, description)
            if v[0] == "from_super":
                inner = v[2]
                mc = self.ao.method_call(inner)
                if mc and mc[1] == "values" and mc[0] and mc[0] in col.wires:
                    sup = [x for x in tl if x["kind"] == "super"]
                    if sup:
                        snaps.append((sup[0]["idx"], col.wires[mc[0]].cls.qual, f"{g}=<super().to_aoef(obj)>.{v[1]} (snapshot of self.{mc[0]} taken inside super())"))
            else:
                for x in tl:
                    if x["kind"] == "snap" and any(y == x["term"] for y in walk(v)):
                        snaps.append((x["idx"], x["store"], f"{g}=self.{x['attr']}.values()"))
            for idx, store, desc in snaps:
                late = [c for c in convs if c["idx"] > idx and store in c["writes"]]
                if not late:
                    ctx.ok("R02.1", f"{file}:{wret.lineno} {func}", f"{desc}: no later conversion can write the {store.split(':')[1]} store")
                    continue
                c = late[0]
                what = (f"self.{c['attr']}.to_aoef(...)" if c["kind"] == "conv" else "super().to_aoef(obj)")
                ctx.bad("R02.1", file, func, f"{desc} before {what}",
                        f"the {store.split(':')[1]} store is snapshot ({desc}) before {what} at line {c['event'].lineno} "
                        f"runs, which can register new objects in it: they are referenced by the document but missing "
                        f"from its top-level list", c["event"].lineno,
                        witness={"snapshot": desc, "later_conversion": show(c["term"])[:120],
                                 "evaluation_order": [f"{x['kind']}:{x.get('attr', 'super')}@{x['event'].lineno}" for x in tl]})

    # ------------------------------------------------------------------ R02.2
    def _ref_shape(self, shape) -> bool:
        s = strip_opt(shape)
        if s == ("prim", "UUID"):
            return True
        if s[0] == "list":
            e = s[1]
            if e in (("prim", "UUID"), ("prim", "int")):
                return True
            if e[0] == "tuple" and e[1] and e[1][0] == ("prim", "int"):
                return True
        return False

    def _expand_new_adapter_methods(self, t, dep_cls, owner, depth=0):
        """`self.<adapter>.reference(x)` where `reference` is a method the reference tree does not have (`return
        self._get_aoef_key(self.to_aoef(obj))`): its value, with `_get_aoef_key(<converted object>)` read as the identifier of that object"""
        from sa.sym import PINNED, fold_sub
        if not isinstance(t, tuple) or not t or depth > 3:
            return t
        if not isinstance(t[0], str):
            return tuple(self._expand_new_adapter_methods(c, dep_cls, owner, depth) for c in t)
        t = tuple(self._expand_new_adapter_methods(c, dep_cls, owner, depth) if isinstance(c, tuple) else c for c in t)
        SELF = ("param", "self")
        if t[0] == "call" and t[1][0] == "attr" and t[1][2] == "_get_aoef_key" and len(t[2]) == 1 and not t[3]:
            return ("attr", t[2][0], "uuid")
        if t[0] == "call" and t[1][0] == "attr" and t[1][1][0] == "attr" and t[1][1][1] == SELF and t[1][2] not in ("to_aoef", "to_soundevent", "from_id", "values"):
            cls = dep_cls.get(t[1][1][2])
            found = cls.find_method(t[1][2]) if cls is not None else None
            if found is not None and f"{found[0].name}.{t[1][2]}" not in PINNED.get(found[0].module.name, ()):
                try:
                    ms = self.ctx.summ.of_node(found[0].module, found[1], f"{found[0].qual}.{t[1][2]}", found[0])
                except Exception:  # noqa: BLE001
                    return t
                if len(ms.returns) == 1 and not ms.raises and not ms.of("store") and len(t[2]) == len(ms.params) - 1 and not t[3]:
                    mp = {("param", ms.params[0]): t[1][1]}
                    mp.update({("param", p_): a_ for p_, a_ in zip(ms.params[1:], t[2])})
                    return self._expand_new_adapter_methods(fold_sub(subst(ms.returns[0].term, mp)), dep_cls, owner, depth + 1)
        return t

    def check_refs(self, name, owner: ClassInfo, meth: str, D: ClassInfo, O: ClassInfo, dep_cls):
        """Reference keywords of one writer; dep_cls: attr -> adapter class (or '' for self)."""
        ctx, m = self.ctx, self.ctx.models
        try:
            wt, wk, ws, wowner, wret = self.c1.result_kwargs(owner, meth, "O")
        except AnalysisError as e:
            ctx.undec("R02.2", e.site, str(e))
            return
        Of = m.field_map(O)
        wobj = ("param", ws.params[1])
        ty = Types(ctx, ws, wobj, D)
        file, func = wowner.module.relpath, f"{wowner.name}.{meth}"
        for g, v in wk.items():
            if v[0] in ("from_super", "from_super_default"):
                continue
            if g not in Of or not self._ref_shape(Of[g].shape):
                continue
            if g in ("uuid", "id"):
                continue
            site = f"{file}:{wret.lineno} {func}"
            v = self._expand_new_adapter_methods(v, dep_cls, owner)
            convs = []
            for x in walk(v):
                mc = self.ao.method_call(x)
                if mc and mc[1] == "to_aoef":
                    convs.append((mc[0], x))
            # obj-derived identifiers that bypass registration
            bypass = [x for x in walk(v) if x[0] == "attr" and x[2] in ("uuid", "id")
                      and not (x[1][0] == "call" and self.ao.method_call(x[1]) and self.ao.method_call(x[1])[1] == "to_aoef")
                      and self._derives_from(x[1], wobj, ws)]
            # results of conversions bound to a local (e.g. `prediction = adapter.to_aoef(..); prediction.uuid`) are fine
            bypass = [x for x in bypass if not any(x[1] == c[1] for c in convs) and not self._is_conv_alias(x[1], convs)]

            def through_pairs(t_):
                """elem(L)[k] where L iterates a list of tuples built by a comprehension: the k-th component of those tuples"""
                if t_[0] == "sub" and t_[1][0] == "elem" and t_[2][0] == "const" and isinstance(t_[2][1], int) and t_[1][1] in ws.loops:
                    it_ = ws.loops[t_[1][1]].iter
                    while it_[0] == "call" and it_[1] in (("builtin", "list"), ("builtin", "tuple")) and len(it_[2]) == 1:
                        it_ = it_[2][0]
                    if it_[0] == "comp" and it_[2][0] == "tuple" and 0 <= t_[2][1] < len(it_[2][1]):
                        return it_[2][1][t_[2][1]]
                return t_
            bypass = [x for x in bypass if not (self.ao.method_call(through_pairs(x[1])) and self.ao.method_call(through_pairs(x[1]))[1] == "to_aoef")]
            if bypass:
                ctx.bad("R02.2", file, func, f"{O.name}({g}={show(bypass[0])[:60]})",
                        f"reference {O.name}.{g} is taken directly from the object ({show(bypass[0])[:60]}) instead of "
                        f"the owning adapter's to_aoef(...): the referenced object is never registered, so the document "
                        f"mentions an identifier it does not define", wret.lineno)
                continue
            if not convs:
                ctx.bad("R02.2", file, func, f"{O.name}({g}=...)",
                        f"reference keyword {O.name}.{g} ({shape_str(Of[g].shape)}) does not derive from any adapter "
                        f"to_aoef(...) call: {show(v)[:80]}", wret.lineno)
                continue
            for attr, call in convs:
                cls = owner if attr == "" else dep_cls.get(attr)
                if cls is None or cls.qual not in self.ao.leaves:
                    ctx.undec("R02.2", site, f"cannot resolve the adapter class of self.{attr}")
                    continue
                leaf = self.ao.leaves[cls.qual]
                arg = call[2][0] if call[2] else None
                ashape = ty.shape_of(arg) if arg is not None else None
                if ashape is None:
                    ctx.undec("R02.2", site, f"cannot type the argument of self.{attr}.to_aoef({show(arg)[:40] if arg else ''})")
                    continue
                core = strip_opt(ashape)
                if core == ("cls", leaf.D.qual):
                    ctx.ok("R02.2", site, f"{O.name}.{g} <- self.{attr or 'self'}.to_aoef(<{leaf.D.name}>)")
                else:
                    ctx.bad("R02.2", file, func, f"{O.name}({g}=self.{attr}.to_aoef({show(arg)[:40]}))",
                            f"{shape_str(ashape)} is converted with {leaf.name} (adapter of {leaf.D.name}): the id is "
                            f"defined in the wrong top-level list", wret.lineno)

    def _derives_from(self, t, obj, summ: Summary) -> bool:
        for x in walk(t):
            if x == obj:
                return True
            if x[0] == "elem" and x[1] in summ.loops and self._derives_from(summ.loops[x[1]].iter, obj, summ):
                return True
        return False

    def _is_conv_alias(self, t, convs) -> bool:
        return any(t == c[1] for c in convs)

    # ------------------------------------------------------------------ R02.3
    def check_wiring(self, col: Collection):
        ctx = self.ctx
        for attr, w in col.wires.items():
            if w.owner.qual not in [c.qual for c in col.chain]:
                continue
            if w.owner.qual != col.ci.qual and any(w.owner.qual == c.ci.qual for c in self.ao.collections):
                continue  # wired by a base class that has its own table row: checked there
            leaf = self.ao.leaves[w.cls.qual]
            file, func = w.owner.module.relpath, f"{w.owner.name}.__init__"
            # an adapter handed in by the caller takes the place of the one built here: it must be the parameter meant for THIS
            # attribute (its annotation names the class that would be constructed; without one, its name is the attribute's)
            if w.param is not None:
                import ast as _ast
                init = w.owner.methods["__init__"][-1]
                a_ = next((x for x in list(init.args.args) + list(init.args.kwonlyargs) if x.arg == w.param), None)
                anntext = _ast.unparse(a_.annotation) if a_ is not None and a_.annotation is not None else ""
                names = {n_ for n_ in __import__("re").findall(r"[A-Za-z_][A-Za-z0-9_]*", anntext)} - {"Optional", "Union", "None", "typing"}
                if names:
                    fits = w.cls.name in names or any(b.name in names for b in w.cls.mro())
                else:
                    fits = w.param == attr or w.param.strip("_") == attr.strip("_")
                if fits:
                    ctx.ok("R02.3", f"{file}:{w.node.lineno} {func}", f"self.{attr}: the injected adapter is the parameter `{w.param}` ({anntext or 'same name'})")
                else:
                    ctx.bad("R02.3", file, func, f"self.{attr} = {w.param} or {w.cls.name}(...)",
                            f"self.{attr} takes the caller's `{w.param}` ({anntext or 'unannotated'}) where a {w.cls.name} is built otherwise: an injected "
                            f"adapter of another kind converts these objects, and the one meant for this attribute is ignored", w.node.lineno)
            params = leaf.init_params
            bound: List[Tuple[str, tuple]] = []
            for i, a in enumerate(w.args):
                if i < len(params):
                    bound.append((params[i], a))
                else:
                    ctx.bad("R02.3", file, func, f"self.{attr} = {w.cls.name}(...)", "too many positional arguments", w.node.lineno)
            for k, a in w.kwargs.items():
                bound.append((k, a))
            given = {p for p, _ in bound}
            for p in params:
                if p not in given and p != "audio_dir" and not (p in leaf.init_defaults and leaf.init_param_cls.get(p) is None):
                    ctx.bad("R02.3", file, func, f"self.{attr} = {w.cls.name}(... {p} missing)",
                            f"constructor parameter {p!r} of {w.cls.name} is not supplied", w.node.lineno)
            for p, a in bound:
                site = f"{file}:{w.node.lineno} {func}"
                if p == "audio_dir":
                    continue  # C18
                want = leaf.init_param_cls.get(p)
                src = self.ao.self_attr(a)
                if src is None:
                    # the object itself instead of the attribute it was stored in (a helper that builds the shared adapters and hands
                    # them out as a record): the same value as one of the wires, every constructor in it evaluated exactly once
                    same = [o_attr for o_attr, ow in col.wires.items() if ow.value == a and o_attr != attr]
                    ctor_calls = [x for x in walk(a) if x[0] == "call" and x[1][0] == "global" and x[1][2] == "class"]
                    once = w.summ is not None and all(sum(1 for e_ in w.summ.calls if e_.term == c_) == 1 for c_ in ctor_calls)
                    if same and once:
                        src = same[0]
                if src is None:
                    ctx.bad("R02.3", file, func, f"self.{attr} = {w.cls.name}({p}={show(a)[:50]})",
                            f"sub-adapter self.{attr} is constructed with {show(a)[:50]} instead of one of the collection's "
                            f"shared adapters: its references are registered in a private store that is never written "
                            f"to the document", w.node.lineno)
                    continue
                srcw = col.wires.get(src)
                if srcw is None:
                    ctx.undec("R02.3", site, f"self.{src} passed to {w.cls.name} is not a wired sub-adapter")
                    continue
                # wired earlier?
                order = list(col.wires)
                if order.index(src) >= order.index(attr):
                    ctx.bad("R02.3", file, func, f"self.{attr} = {w.cls.name}({p}=self.{src})",
                            f"self.{src} is used before it is assigned", w.node.lineno)
                    continue
                if want is None:
                    ctx.undec("R02.3", site, f"cannot tell the expected adapter class of parameter {p!r} of {w.cls.name}")
                    continue
                if srcw.cls.qual == want.qual:
                    ctx.ok("R02.3", site, f"self.{attr}: {p}=self.{src} ({want.name})")
                else:
                    ctx.bad("R02.3", file, func, f"self.{attr} = {w.cls.name}({p}=self.{src})",
                            f"parameter {p!r} of {w.cls.name} expects a {want.name} but receives self.{src} "
                            f"({srcw.cls.name})", w.node.lineno)

    # ------------------------------------------------------------------ R02.4 / R02.5
    def check_allocation(self):
        ctx = self.ctx
        DA = ctx.index.need_class(ADAPTERS_MOD, "DataAdapter")
        file = DA.module.relpath
        SELF = ("param", "self")

        def store_attr(t):
            return ("attr", SELF, t)

        # get_id
        from sa.memo import memo_verdict, scenarios
        s = ctx.summ.of_func(ADAPTERS_MOD, "DataAdapter.get_id")
        obj = ("param", s.params[1])
        site = f"{file}:{s.node.lineno} DataAdapter.get_id"
        key = ("call", ("attr", SELF, "_get_soundevent_key"), (obj,), ())
        newid = ("call", ("attr", SELF, "get_new_id"), (obj,), ())
        sc = scenarios(s, store_attr("_mapping"), key)
        good, why = memo_verdict(sc, store_attr("_mapping"), key, lambda v: v == newid)
        if good:
            ctx.ok("R02.4", site, "a known key keeps its id; an unseen key gets get_new_id(obj), recorded once and returned")
        else:
            ctx.bad("R02.4", file, "DataAdapter.get_id", "self._mapping[key] = obj_id",
                    "id allocation is not `if key not in _mapping: _mapping[key] = get_new_id(obj)` / `return _mapping[key]` "
                    f"with the key from _get_soundevent_key(obj): {why}; ids may collide or be re-allocated for known objects",
                    s.node.lineno)
        # TagAdapter.get_new_id
        tm = "soundevent.io.aoef.tag"
        s = ctx.summ.of_func(tm, "TagAdapter.get_new_id")
        tfile = s.module.relpath
        site = f"{tfile}:{s.node.lineno} TagAdapter.get_new_id"
        want = ("call", ("builtin", "len"), (store_attr("_mapping"),), ())
        got_id = s.returns[0].term if len(s.returns) == 1 else None
        # attributes the constructor sets from options the reference constructor did not have, at the options' defaults
        tci = ctx.index.class_by_qual(f"{tm}:TagAdapter")
        init = tci.find_method("__init__") if tci is not None else None
        if got_id is not None and init is not None and ctx.index.canonical_qual("class", init[0].qual) != DATA_ADAPTER:
            isum = ctx.summ.of_node(init[0].module, init[1], f"{init[0].qual}.__init__", init[0])
            fixed = {}
            for e in isum.of("store"):
                tgt, val = e.term[1], e.term[2]
                if tgt[0] == "attr" and tgt[1] == SELF and val[0] == "param" and val[1] in isum.defaults and isum.defaults[val[1]][0] == "const":
                    fixed[tgt] = isum.defaults[val[1]]
            if fixed:
                from sa.sym import subst
                from sa.canon import canon
                if canon(subst(got_id, fixed)) == canon(want):
                    got_id = want
        if got_id == want:
            ctx.ok("R02.4", site, "tag id = len(self._mapping) (dense, allocated before insertion)")
        else:
            ctx.bad("R02.4", tfile, "TagAdapter.get_new_id", "return len(self._mapping)",
                    f"tag ids are not allocated from the size of the key table: returns "
                    f"{show(s.returns[0].term) if s.returns else '-'}; ids may repeat or leave the dense range", s.node.lineno)
        # TagAdapter key == stored (key, value)
        ks = ctx.summ.of_func(tm, "TagAdapter._get_soundevent_key")
        leaf = self.ao.leaves.get(f"{tm}:TagAdapter")
        if leaf is None:
            ctx.undec("R02.4", f"{tfile} TagAdapter", "TagAdapter not discovered as a leaf adapter")
        else:
            kobj = ("param", ks.params[1])
            try:
                _, wk, ws, _, wret = self.c1.result_kwargs(leaf.ci, "assemble_aoef", "O")
                wobj = ("param", ws.params[1])
                from sa.sym import subst
                stored = tuple(subst(wk[k], {wobj: kobj}) for k in sorted(wk) if k not in ("id",))
                kret = ks.returns[0].term if len(ks.returns) == 1 else None
                comps = tuple(sorted(kret[1], key=repr)) if kret is not None and kret[0] == "tuple" else None
                if comps is not None and comps == tuple(sorted(stored, key=repr)):
                    ctx.ok("R02.4", f"{tfile}:{ks.node.lineno} TagAdapter._get_soundevent_key",
                           "tag identity key == the (key, value) stored in TagObject")
                else:
                    ctx.bad("R02.4", tfile, "TagAdapter._get_soundevent_key", "return (key_from_term(obj.term), obj.value)",
                            f"the key that decides whether two tags share an id ({show(kret) if kret else '-'}) differs from "
                            f"what TagObject stores ({', '.join(show(x) for x in stored)}): distinct stored tags may share "
                            f"an id, or equal ones get two ids", ks.node.lineno)
            except AnalysisError as e:
                ctx.undec("R02.4", e.site, str(e))
        # R02.5: store after assemble, values() in insertion order
        s = ctx.summ.of_func(ADAPTERS_MOD, "DataAdapter.to_aoef")
        obj = ("param", s.params[1])
        site = f"{file}:{s.node.lineno} DataAdapter.to_aoef"
        idterm = ("call", ("attr", SELF, "get_id"), (obj,), ())
        asm = ("call", ("attr", SELF, "assemble_aoef"), (obj, idterm), ())
        sc = scenarios(s, store_attr("_aoef_store"), idterm)
        good, why = memo_verdict(sc, store_attr("_aoef_store"), idterm, lambda v: v == asm)
        if good and sc["present"].calls(("attr", SELF, "assemble_aoef")):
            good, why = False, "an already registered object is assembled again (its nested objects are converted twice)"
        if good:
            ctx.ok("R02.5", site, "_aoef_store[id] = assemble_aoef(obj, id) once per id, stored only after the nested "
                                  "conversions finished; the stored document object is returned")
        else:
            ctx.bad("R02.5", file, "DataAdapter.to_aoef", "self._aoef_store[obj_id] = aoef_obj",
                    f"to_aoef is not `if id not in _aoef_store: _aoef_store[id] = assemble_aoef(obj, id)` / `return "
                    f"_aoef_store[id]` with id = get_id(obj): {why}; a child could precede its parent in the top-level list, "
                    f"an entry could be overwritten or the caller could reference an unregistered object", s.node.lineno)
        s = ctx.summ.of_func(ADAPTERS_MOD, "DataAdapter.values")
        site = f"{file}:{s.node.lineno} DataAdapter.values"
        vals = ("call", ("attr", store_attr("_aoef_store"), "values"), (), ())
        good = False
        for r in s.returns:
            if r.term == NONE:
                continue
            good = r.term == ("call", ("builtin", "list"), (vals,), ()) or r.term == vals
            if not good:
                ctx.bad("R02.5", file, "DataAdapter.values", "return list(self._aoef_store.values())",
                        f"values() does not return the store in insertion order: {show(r.term)[:80]}; a sequence may then "
                        f"be listed before its parent", r.lineno)
        # path-sensitive: with entries in the store the list is what is returned (None / empty only for an empty store)
        from sa.peval import peval as _pe, truth as _tr
        st_ = store_attr("_aoef_store")
        def dec_(t_, nonempty):
            lv_ = ("call", ("builtin", "list"), (vals,), ())
            asg = {st_: nonempty, ("not", st_): not nonempty}
            for c_ in (st_, vals, lv_):
                asg[("call", ("builtin", "len"), (c_,), ())] = 2 if nonempty else 0
                asg[("not", c_)] = not nonempty
            # the containers themselves stand for their truth value only inside conditions: decided through len / not above and
            # through the bare name as a condition
            t_ = subst_cond(t_, {vals: nonempty, lv_: nonempty})
            return _tr(_pe(t_, asg))
        live_nonempty = [r for r in s.returns if dec_(r.live, True) is not False]
        if good and live_nonempty and all(r.term != NONE and r.term != ("list", ()) for r in live_nonempty) and all(dec_(r.live, True) is True for r in live_nonempty):
            ctx.ok("R02.5", site, "values() == list(store.values()) (insertion order, no sort/set), returned whenever the store has entries")
        elif good:
            ctx.bad("R02.5", file, "DataAdapter.values", "values() of a non-empty store",
                    f"with entries in the store values() returns {[show(r.term)[:30] for r in live_nonempty] or 'nothing'}: the top-level "
                    f"list of every kind that has objects is dropped from the document, so every reference to them is undefined", s.node.lineno)
        if False:
            ctx.ok("R02.5", site, "values() == list(store.values()) (insertion order, no sort/set)")
        # subclasses must not override to_aoef / get_id / values
        for leaf in self.ao.leaves.values():
            if not leaf.has_store:
                continue
            for meth in ("to_aoef", "to_soundevent", "get_id", "values", "from_id"):
                if meth in leaf.ci.methods:
                    ctx.undec("R02.5", f"{relfile(leaf.ci)} {leaf.name}.{meth}",
                              f"{leaf.name} overrides DataAdapter.{meth}; the registration discipline must be re-confirmed")
            ctx.ok("R02.5", f"{relfile(leaf.ci)}:{leaf.ci.node.lineno} {leaf.name}", "inherits to_aoef/get_id/values unchanged")

    # ------------------------------------------------------------------ R02.6
    def check_who_may_write(self):
        ctx = self.ctx
        allowed = {f"{DATA_ADAPTER}.{m}" for m in ("__init__", "to_aoef", "to_soundevent", "get_id")}
        n = 0
        for mod in ctx.index.modules.values():
            funcs = []
            for name, defs in mod.defs.items():
                for d in defs:
                    if isinstance(d, ast.FunctionDef):
                        funcs.append((f"{mod.name}:{name}", d, None))
            for ci in mod.classes.values():
                for mn, fns in ci.methods.items():
                    for fn in fns:
                        funcs.append((f"{ci.qual}.{mn}", fn, ci))
            for qual, fn, ci in funcs:
                # cheap pre-filter on the text
                seg = ast.get_source_segment(mod.src, fn) or ""
                if not any(s in seg for s in STORES):
                    continue
                s = ctx.summ.of_node(mod, fn, qual, ci)
                for e in s.events:
                    hit = None
                    if e.kind in ("store", "delete"):
                        tgt = e.term[1] if e.kind == "store" else e.term
                        for x in walk(tgt):
                            if x[0] == "attr" and x[2] in STORES:
                                hit = x[2]
                    elif e.kind == "call":
                        f = e.term[1]
                        if f[0] == "attr" and f[2] in MUTATORS and f[1][0] == "attr" and f[1][2] in STORES:
                            hit = f[1][2]
                    if hit is None:
                        continue
                    # `self.<store>` inside a class that is not a DataAdapter is an unrelated attribute of that name
                    base_is_self = any(x[0] == "attr" and x[2] == hit and x[1] == ("param", "self") for x in walk(e.term))
                    if base_is_self and ci is not None and not any(
                            ctx.index.canonical_qual("class", k.qual) == DATA_ADAPTER for k in ci.mro()):
                        continue
                    n += 1
                    site = f"{mod.relpath}:{e.lineno} {qual.split(':')[1]}"
                    cqual = qual
                    if ci is not None:
                        cqual = ctx.index.canonical_qual("class", ci.qual) + "." + qual.split(".")[-1]
                    helper_ok = False
                    mname = cqual.split(".")[-1]
                    if cqual.startswith(DATA_ADAPTER + "._") and not mname.startswith("__") and ci is not None:
                        # a private helper of DataAdapter itself: it writes on behalf of the methods that call it
                        callers = set()
                        for cj in ctx.index.all_classes():
                            for mn2, fns2 in cj.methods.items():
                                for fn2 in fns2:
                                    if any(isinstance(x, ast.Call) and isinstance(x.func, ast.Attribute) and x.func.attr == mname
                                           and isinstance(x.func.value, ast.Name) and x.func.value.id in ("self", "cls") for x in ast.walk(fn2)):
                                        callers.add(ctx.index.canonical_qual("class", cj.qual) + "." + mn2)
                        helper_ok = bool(callers) and callers <= allowed
                    if cqual in allowed:
                        ctx.ok("R02.6", site, f"write to {hit} inside DataAdapter")
                    elif helper_ok:
                        ctx.ok("R02.6", site, f"write to {hit} in a private helper of DataAdapter called only from its registration methods")
                    else:
                        ctx.bad("R02.6", mod.relpath, qual.split(":")[1], f"write to {hit}: {show(e.term)[:80]}",
                                f"lookup table {hit} is written outside DataAdapter.{{__init__,to_aoef,to_soundevent,get_id}}: "
                                f"objects can enter or leave the document without going through registration", e.lineno)
        return n



def subst_cond(t, truth_of):
    """replace a container term by its truth value where it stands as a condition (operand of and / or / not, test of a conditional)"""
    if not isinstance(t, tuple) or not t:
        return t
    def cond(x):
        if x in truth_of:
            return ("const", truth_of[x])
        return subst_cond(x, truth_of)
    if t[0] in ("and", "or"):
        return (t[0], tuple(cond(x) for x in t[1]))
    if t[0] == "not":
        return ("not", cond(t[1]))
    if t[0] == "ite":
        return ("ite", cond(t[1]), subst_cond(t[2], truth_of), subst_cond(t[3], truth_of))
    return t if t not in truth_of else ("const", truth_of[t])


def check_own_list_uniqueness(ctx: Ctx, c):
    """R02.7: "identifiers are unique within their list".  The lists of the sub-adapters' stores (`<adapter>.values()`) are unique by
    construction (one entry per key).  A collection's OWN list written as `[adapter.to_aoef(o) for o in obj.<field>]` repeats an
    entry for every repeated element of obj.<field> (the data models accept `Dataset(recordings=[r, r])`)."""
    for col in c.ao.collections:
        ci = col.ci
        if "to_aoef" not in ci.methods:
            continue
        try:
            s = ctx.summ.of_func(ci.module.name, f"{ci.name}.to_aoef")
        except Exception:  # noqa: BLE001
            continue
        objp = ("param", s.params[1]) if len(s.params) > 1 else None
        for r in s.returns:
            t = r.term
            if t[0] != "call" or t[1][0] != "global":
                continue
            for k, v in t[3]:
                if v[0] == "comp" and v[1] == "list" and len(v[3]) == 1 and v[3][0][1][0] == "attr" and v[3][0][1][1] == objp and not v[3][0][2] \
                        and v[2][0] == "call" and v[2][1][0] == "attr" and v[2][1][2] == "to_aoef":
                    fld = v[3][0][1][2]
                    # the list belongs to the most general collection that has it (a Dataset is a RecordingSet: the same list, the same
                    # repeated input, whichever of the two classes spells the conversion out)
                    own = ci
                    by_qual = {c_.ci.qual: c_ for c_ in c.ao.collections}
                    for anc in ci.mro():
                        c_ = by_qual.get(anc.qual)
                        if c_ is not None and k in ctx.models.field_map(c_.O):
                            own = anc
                    ctx.bad("R02.7", own.module.relpath, f"{own.name}.to_aoef", f"{k}=[<adapter>.to_aoef(o) for o in obj.{fld}]",
                            f"the top-level list `{k}` of the document is the collection's own list converted element by element: an object "
                            f"that occurs twice in obj.{fld} (the data models accept it) is written twice with the same identifier, so "
                            f"identifiers are not unique within the list (the sub-adapter's values() would list it once)", r.lineno,
                            witness={"input": f"{ci.name.replace('Adapter', '')}({fld}=[x, x])", "observed": "two entries with the same uuid"})
                elif v[0] == "call" and v[1][0] == "attr" and v[1][2] == "values":
                    ctx.ok("R02.7", f"{ci.module.relpath}:{r.lineno} {ci.name}.to_aoef", f"{k} = <adapter>.values() (one entry per identifier)")


def check_own_list_kept(ctx: Ctx, c, rule="R01.9"):
    """(for C01) The converse: a list that IS a declared list field of the collection (Evaluation.clip_evaluations) must be written
    element by element; written as `<adapter>.values()` -- one entry per identifier -- a repeated element is written once and the
    loaded list is shorter than the saved one."""
    m = ctx.models
    for col in c.ao.collections:
        ci = col.ci
        if "to_aoef" not in ci.methods or col.D is None:
            continue
        try:
            s = ctx.summ.of_func(ci.module.name, f"{ci.name}.to_aoef")
        except Exception:  # noqa: BLE001
            continue
        dfields = {f.name: f for f in m.fields(col.D)}
        for r in s.returns:
            t = r.term
            if t[0] != "call" or t[1][0] != "global":
                continue
            for k, v in t[3]:
                f = dfields.get(k)
                if f is None or f.shape[0] != "list":
                    continue
                if v[0] == "call" and v[1][0] == "attr" and v[1][2] == "values":
                    ctx.bad(rule, ci.module.relpath, f"{ci.name}.to_aoef", f"{k}=<adapter>.values() for the declared list field {col.D.name}.{k}",
                            f"`{k}` is a declared list of {col.D.name}, but the document gets the sub-adapter's values() -- one entry per "
                            f"identifier: an element that occurs twice in obj.{k} is written once, so the loaded list is shorter than the "
                            f"saved one ([A, B, A] comes back as [A, B]); every other collection writes its own list element by element",
                            r.lineno, witness={"input": f"{col.D.name}({k}=[A, B, A])", "loaded": "[A, B]"})
                else:
                    ctx.ok(rule, f"{ci.module.relpath}:{r.lineno} {ci.name}.to_aoef", f"{k} written from obj.{k} element by element")


def run(ctx: Ctx, who_may_write=True):
    ctx.rule("R02.1", "no conversion can write a store after it was snapshot (evaluation order)", 50)
    ctx.rule("R02.2", "reference keywords derive from the owning adapter's to_aoef with matching data class", 30)
    ctx.rule("R02.3", "sub-adapters are wired from the collection's shared adapters, to the right parameters", 60)
    ctx.rule("R02.4", "id allocation: before insertion, dense tag ids, tag key == stored fields", 3)
    ctx.rule("R02.5", "store after assemble; values() in insertion order; no overrides", 17)
    if who_may_write:
        ctx.rule("R02.6", "only DataAdapter methods write the lookup tables", 9)
    c = C02(ctx)
    for leaf in c.ao.leaves.values():
        c.check_refs(leaf.name, leaf.ci, leaf.writer_name, leaf.D, leaf.O, dict(leaf.dep_attrs))
    for col in c.ao.collections:
        c.check_order(col)
        c.check_wiring(col)
        found = col.ci.find_method("to_aoef")
        if found[0].qual == col.ci.qual:
            c.check_refs(col.ci.name, col.ci, "to_aoef", col.D, col.O, {a: w.cls for a, w in col.wires.items()})
    c.check_allocation()
    if who_may_write:
        c.check_who_may_write()
        ctx.rule("R02.7", "identifiers unique within each top-level list: own lists are not written element by element", 20)
        check_own_list_uniqueness(ctx, c)
        # "each identifier mentioned ... is defined in the corresponding top-level list": every store a conversion can fill is
        # written out as the document's list of that kind (C01's list-completeness rule is a necessary condition here too)
        from .c01 import C01
        with ctx.delegated("C01/"):
            ctx.rule("R01.4", "every store-bearing sub-adapter of a collection is written as its top-level list, by the matching adapter", 50)
            c1 = C01(ctx)
            for col in c1.ao.collections:
                c1.check_lists(col)
    return EXPLANATION, ASSUMPTIONS
