"""C18 -- audio paths are stored relative to the audio directory and relocate on load (R18.1 - R18.3)."""

from __future__ import annotations

import ast
from typing import Dict, List, Optional

from sa.index import AnalysisError, ClassInfo
from sa.report import Ctx
from sa.sym import callkw, NONE, NOT, Summary, bind_args, conjuncts, show, walk

from .aoef import AOEF_PKG, Aoef, relfile
from .c01 import C01

EXPLANATION = (
    "Static decision of the structural clauses of path relocation: R18.1 the audio_dir given to io.save / io.load "
    "flows, hop by hop (saver table -> aoef.save -> to_aeof -> adapter constructor -> RecordingAdapter), into the "
    "recording adapter of every one of the 8 collection adapters; R18.2 the stored path is obj.path made relative to "
    "audio_dir exactly when a directory was given (error not swallowed) and the loaded path is audio_dir / stored path "
    "exactly when given; R18.3 nothing is written before the whole conversion succeeded. pathlib semantics trusted."
)
ASSUMPTIONS = ["pathlib.Path.relative_to raises ValueError for paths outside the directory; `/` joins (trusted)"]

SELF = ("param", "self")


def strip_path(t):
    """Path(x) / pathlib.Path(x) -> x"""
    if t[0] == "call" and t[1][0] == "ext" and t[1][1].split(".")[-1] in ("Path", "PurePath") and len(t[2]) == 1 and not t[3]:
        return t[2][0]
    return t


class C18:
    def __init__(self, ctx: Ctx):
        self.ctx = ctx
        self.c1 = C01(ctx)
        self.ao = self.c1.ao

    # -------------------------------------------------------------- R18.1 hops
    def hop(self, modname, fname, callee_pred, callee_params, what, skip_first=False):
        """In modname:fname find the call selected by callee_pred; its audio_dir parameter must be the
        function's own `audio_dir` parameter."""
        ctx = self.ctx
        s = ctx.summ.of_func(modname, fname)
        file = s.module.relpath
        site = f"{file}:{s.node.lineno} {fname}"
        if "audio_dir" not in s.params:
            ctx.bad("R18.1", file, fname, f"def {fname}(... audio_dir ...)", f"{fname} has no audio_dir parameter", s.node.lineno)
            return
        calls = [e for e in s.calls if callee_pred(e.term)]
        if not calls:
            ctx.undec("R18.1", site, f"call to {what} not found")
            return
        for e in calls:
            bound, extra, spreads, _ = bind_args(e.term, callee_params, skip_first)
            got = bound.get("audio_dir")
            # the object and the path travel under their own names too
            crossed = [p_ for p_ in ("obj", "path") if p_ in s.params and p_ in callee_params and bound.get(p_) is not None
                       and bound.get(p_)[0] == "param" and bound.get(p_)[1] in ("obj", "path", "audio_dir") and bound.get(p_) != ("param", p_)]
            if crossed:
                ctx.bad("R18.1", file, fname, f"{what}({', '.join(p_ + '=' + show(bound[p_]) for p_ in crossed)})",
                        f"{fname} hands {', '.join(show(bound[p_]) + ' over as ' + p_ for p_ in crossed)} to {what}: the arguments are crossed", e.lineno)
            elif got == ("param", "audio_dir"):
                ctx.ok("R18.1", f"{file}:{e.lineno} {fname}", f"audio_dir forwarded to {what}")
            else:
                ctx.bad("R18.1", file, fname, f"{what}(... audio_dir={show(got) if got else 'missing'})",
                        f"{fname} does not forward its audio_dir to {what} (receives {show(got) if got else 'nothing'}): "
                        f"paths are stored/loaded without relocation", e.lineno)

    def table_entry(self, modname, table, key):
        m, val = self.ctx.index.need_assign(modname, table)
        if not isinstance(val, ast.Dict):
            return None, m, val
        for k, v in zip(val.keys, val.values):
            if isinstance(k, ast.Constant) and k.value == key:
                return self.ctx.index.resolve_expr(m, v), m, v
        return None, m, val

    def check_hops(self):
        ctx = self.ctx
        # io.save -> SAVERS['aoef'] -> aoef.save
        sym, m, node = self.table_entry("soundevent.io.saver", "SAVERS", "aoef")
        if sym is None or sym.qual != f"{AOEF_PKG}:save":
            ctx.bad("R18.1", m.relpath, "SAVERS", "SAVERS['aoef']", f"the aoef saver is {sym.qual if sym else 'missing'}, not io.aoef.save", node.lineno)
        else:
            ctx.ok("R18.1", f"{m.relpath}:{node.lineno} SAVERS", "SAVERS['aoef'] is io.aoef.save")
        save = ctx.summ.of_func(AOEF_PKG, "save")
        s = ctx.summ.of_func("soundevent.io.saver", "save")
        is_saver = lambda t: t[1][0] == "call" and t[1][1][0] == "attr" and t[1][1][2] == "get" and \
            t[1][1][1] == ("global", "soundevent.io.saver:SAVERS", "assign")
        is_saver2 = lambda t: (t[1][0] == "sub" and t[1][1] == ("global", "soundevent.io.saver:SAVERS", "assign"))
        is_saver3 = lambda t: t[1] == ("global", f"{AOEF_PKG}:save", "func")  # table lookup resolved by the engine
        self.hop("soundevent.io.saver", "save", lambda t: is_saver(t) or is_saver2(t) or is_saver3(t), save.params, "the format's saver")
        sym, m, node = self.table_entry("soundevent.io.loader", "LOADERS", "aoef")
        if sym is None or sym.qual != f"{AOEF_PKG}:load":
            ctx.bad("R18.1", m.relpath, "LOADERS", "LOADERS['aoef']", f"the aoef loader is {sym.qual if sym else 'missing'}, not io.aoef.load", node.lineno)
        else:
            ctx.ok("R18.1", f"{m.relpath}:{node.lineno} LOADERS", "LOADERS['aoef'] is io.aoef.load")
        load = ctx.summ.of_func(AOEF_PKG, "load")
        is_loader = lambda t: (t[1][0] == "call" and t[1][1][0] == "attr" and t[1][1][2] == "get" and
                               t[1][1][1] == ("global", "soundevent.io.loader:LOADERS", "assign")) or \
                              (t[1][0] == "sub" and t[1][1] == ("global", "soundevent.io.loader:LOADERS", "assign"))
        is_loader3 = lambda t: t[1] == ("global", f"{AOEF_PKG}:load", "func")
        self.hop("soundevent.io.loader", "load", lambda t: is_loader(t) or is_loader3(t), load.params, "the format's loader")
        # the format that selects the saver / loader is the caller's `format` when one is given and the one inferred from the path
        # otherwise (three scenarios of the condition under which the AOEF saver / loader is reached)
        from sa.peval import peval, truth
        for modname, fname, pred in (("soundevent.io.saver", "save", is_saver3), ("soundevent.io.loader", "load", is_loader3)):
            fs = ctx.summ.of_func(modname, fname)
            if "format" not in fs.params:
                continue
            F = ("param", "format")
            inf = ("call", ("global", "soundevent.io.formats:infer_format", "func"), (("param", "path"),), ())
            for e in fs.calls:
                if not pred(e.term):
                    continue
                site = f"{fs.module.relpath}:{e.lineno} {fname}"
                table = "SAVERS" if fname == "save" else "LOADERS"
                try:
                    _, tnode = ctx.index.need_assign(modname, table)
                    keys = {k.value for k in tnode.keys if isinstance(k, ast.Constant)} if isinstance(tnode, ast.Dict) else {"aoef"}
                except Exception:  # noqa: BLE001
                    keys = {"aoef"}

                def decide(env_, chosen):
                    """the condition under the scenario; a membership test in the format table and a caught KeyError of the
                    lookup are decided by whether the chosen format is a key of the table"""
                    r = peval(e.live, env_)
                    extra = {}
                    for x in walk(r):
                        if x[0] == "cmp" and x[1] in ("in", "notin") and x[3] == ("global", f"{modname}:{table}", "assign"):
                            v = peval(x[2], env_)
                            if v[0] == "const":
                                extra[x] = (v[1] in keys) == (x[1] == "in")
                        elif x[0] == "caught" and "KeyError" in x[2]:
                            extra[x] = chosen not in keys
                    return truth(peval(r, extra)) if extra else truth(r)
                got = (decide({F: "aoef", inf: "crowsetta"}, "aoef"), decide({F: "crowsetta", inf: "aoef"}, "crowsetta"),
                       decide({F: None, inf: "aoef"}, "aoef"), decide({F: None, inf: "crowsetta"}, "crowsetta"))
                if got == (True, False, True, False):
                    ctx.ok("R18.1", site, "reached exactly when the given format -- or, without one, the format inferred from the path -- is 'aoef'")
                elif None in got:
                    ctx.undec("R18.1", site, f"cannot decide when the AOEF {'saver' if fname == 'save' else 'loader'} is selected: {show(e.live)[:100]}")
                else:
                    ctx.bad("R18.1", fs.module.relpath, fname, f"format selection `{show(e.live)[:80]}`",
                            f"io.{fname}: the AOEF {'saver' if fname == 'save' else 'loader'} is selected under `{show(e.live)[:120]}` -- (format='aoef', format='crowsetta', no format + "
                            f"path inferred as aoef, no format + path inferred otherwise) -> {got}, expected (True, False, True, False): an "
                            f"explicitly given format is ignored or a missing one is not inferred", e.lineno)
        to_aeof = ctx.summ.of_func(AOEF_PKG, "to_aeof")
        to_se = ctx.summ.of_func(AOEF_PKG, "to_soundevent")
        self.hop(AOEF_PKG, "save", lambda t: t[1] == ("global", f"{AOEF_PKG}:to_aeof", "func"), to_aeof.params, "to_aeof")
        self.hop(AOEF_PKG, "load", lambda t: t[1] == ("global", f"{AOEF_PKG}:to_soundevent", "func"), to_se.params, "to_soundevent")
        for fname in ("to_aeof", "to_soundevent"):
            s = ctx.summ.of_func(AOEF_PKG, fname)
            from .aoef import adapter_selections
            sels = adapter_selections(s)
            if len(sels) != 1:
                ctx.undec("R18.1", f"{s.module.relpath}:{s.node.lineno} {fname}", "adapter construction from ADAPTERS not found")
                continue
            fterm = sels[0]["event"].term[1]
            self.hop(AOEF_PKG, fname, lambda t, fterm=fterm: t[1] == fterm, ["audio_dir"], "adapter_cls")

    # -------------------------------------------------------------- R18.1 collection constructors
    def check_constructors(self):
        ctx = self.ctx
        rec_leaf = self.ao.leaves.get(f"{AOEF_PKG}.recording:RecordingAdapter")
        if rec_leaf is None:
            raise AnalysisError("RecordingAdapter not discovered", rule="R18.1")
        for col in self.ao.collections:
            # the class must accept audio_dir (directly or through **kwargs forwarded to super().__init__)
            chain = [c for c in col.ci.mro() if "__init__" in c.methods]
            ok_accept = False
            for c in chain:
                s = ctx.summ.of_node(c.module, c.methods["__init__"][-1], f"{c.qual}.__init__", c)
                if "audio_dir" in s.params:
                    ok_accept = True
                    break
                fw = [e for e in s.calls if e.term[1][0] == "attr" and e.term[1][2] == "__init__" and e.term[1][1][0] == "call"
                      and e.term[1][1][1] == ("builtin", "super")]
                forwards = s.kwarg and fw and any(k == "**" and v == ("param", "**" + s.kwarg) for k, v in fw[0].term[3])
                if not forwards:
                    ctx.bad("R18.1", c.module.relpath, f"{c.name}.__init__", "super().__init__(**kwargs)",
                            f"{c.name}.__init__ neither takes audio_dir nor forwards its keyword arguments to the base "
                            f"constructor: adapter_cls(audio_dir=...) fails or the directory is dropped", s.node.lineno)
                    break
            else:
                ok_accept = False
            wires = [w for w in col.wires.values() if w.cls.qual == rec_leaf.ci.qual]
            site = f"{relfile(col.ci)} {col.ci.name}.__init__"
            if len(wires) != 1:
                ctx.undec("R18.1", site, f"{len(wires)} RecordingAdapter constructions found (expected 1)")
                continue
            w = wires[0]
            s = ctx.summ.of_node(w.owner.module, w.owner.methods["__init__"][-1], f"{w.owner.qual}.__init__", w.owner)
            bound, extra, spreads, _ = bind_args(w.call, rec_leaf.init_params)
            got = bound.get("audio_dir")
            good = got == ("param", "audio_dir")
            if not good and got == ("attr", SELF, "audio_dir"):
                good = any(e.term[1] == ("attr", SELF, "audio_dir") and e.term[2] == ("param", "audio_dir") and e.idx < 10 ** 9
                           for e in s.of("store"))
            # the constructor that is called (the first of the MRO) must hand its audio_dir up to the one that builds the recording
            # adapter: every super().__init__(...) on the way binds the next constructor's audio_dir to this one's
            if good and ok_accept and chain and chain[0].qual != w.owner.qual:
                for k_, c in enumerate(chain):
                    if c.qual == w.owner.qual:
                        break
                    s_ = ctx.summ.of_node(c.module, c.methods["__init__"][-1], f"{c.qual}.__init__", c)
                    nxt = chain[k_ + 1] if k_ + 1 < len(chain) else None
                    fw = [e for e in s_.calls if e.term[1][0] == "attr" and e.term[1][2] == "__init__" and e.term[1][1][0] == "call"
                          and e.term[1][1][1] == ("builtin", "super")]
                    if nxt is None or len(fw) != 1:
                        ctx.undec("R18.1", site, f"cannot follow the constructor chain of {col.ci.name} to {w.owner.name}.__init__")
                        good = None
                        break
                    ns_ = ctx.summ.of_node(nxt.module, nxt.methods["__init__"][-1], f"{nxt.qual}.__init__", nxt)
                    b_, _, sp_, _ = bind_args(fw[0].term, ns_.params[1:])
                    up = b_.get("audio_dir")
                    through_kwargs = s_.kwarg and any(k == "**" and v == ("param", "**" + s_.kwarg) for k, v in fw[0].term[3]) and "audio_dir" not in s_.params
                    kept_ = up == ("attr", SELF, "audio_dir") and any(e.term[1] == ("attr", SELF, "audio_dir") and e.term[2] == ("param", "audio_dir") and e.idx < fw[0].idx
                                                                     for e in s_.of("store"))
                    if not (up == ("param", "audio_dir") or through_kwargs or kept_):
                        ctx.bad("R18.1", c.module.relpath, f"{c.name}.__init__", f"super().__init__(... audio_dir={show(up) if up else 'missing'})",
                                f"{c.name}.__init__ takes audio_dir but hands {show(up) if up else 'nothing'} to {nxt.name}.__init__, which builds the "
                                f"recording adapter: recordings of {col.row} are stored with absolute paths / loaded without relocation",
                                fw[0].lineno)
                        good = None
                        break
            if good is None:
                continue
            if good and ok_accept:
                ctx.ok("R18.1", f"{w.owner.module.relpath}:{w.node.lineno} {col.ci.name}.__init__",
                       f"{col.row}: audio_dir reaches RecordingAdapter")
            elif not good:
                ctx.bad("R18.1", w.owner.module.relpath, f"{w.owner.name}.__init__",
                        f"RecordingAdapter(... audio_dir={show(got) if got else 'missing'})",
                        f"the recording adapter of {col.ci.name} ({col.row}) is not given the collection's audio_dir "
                        f"(receives {show(got) if got else 'nothing'}): recordings of this collection type are stored "
                        f"with absolute paths / loaded without relocation", w.node.lineno)
        # RecordingAdapter.__init__ keeps it
        ci = rec_leaf.ci
        s = ctx.summ.of_node(ci.module, ci.methods["__init__"][-1], f"{ci.qual}.__init__", ci)
        kept = [e for e in s.of("store") if e.term[1] == ("attr", SELF, "audio_dir")]
        if len(kept) == 1 and kept[0].term[2] == ("param", "audio_dir"):
            ctx.ok("R18.1", f"{ci.module.relpath}:{kept[0].lineno} RecordingAdapter.__init__", "self.audio_dir = audio_dir")
        else:
            ctx.bad("R18.1", ci.module.relpath, "RecordingAdapter.__init__", "self.audio_dir = audio_dir",
                    f"the recording adapter does not keep the audio_dir it is given ({[show(e.term[2]) for e in kept]})", s.node.lineno)

    # -------------------------------------------------------------- R18.2
    def _dir_given(self, c):
        """+1 if c means 'audio_dir given', -1 if 'not given', 0 unknown."""
        d = ("attr", SELF, "audio_dir")
        if c == ("cmp", "isnot", d, NONE):
            return 1
        if c == ("cmp", "is", d, NONE):
            return -1
        if c == d:
            return 1
        if c == ("not", d):
            return -1
        return 0

    def check_path_terms(self):
        ctx = self.ctx
        leaf = self.ao.leaves[f"{AOEF_PKG}.recording:RecordingAdapter"]
        d = ("attr", SELF, "audio_dir")
        for side, meth, objp in (("write", leaf.writer_name, leaf.wobj), ("read", leaf.reader_name, leaf.robj)):
            try:
                _, kw, s, owner, ret = self.c1.result_kwargs(leaf.ci, meth, "O")
            except AnalysisError as e:
                ctx.undec("R18.2", e.site, str(e))
                continue
            file, func = owner.module.relpath, f"{owner.name}.{meth}"
            site = f"{file}:{ret.lineno} {func}"
            v = kw.get("path")
            raw = ("attr", objp, "path")
            if v is None:
                ctx.bad("R18.2", file, func, "path=...", "no path keyword", ret.lineno)
                continue
            if v[0] != "ite" or self._dir_given(v[1]) == 0:
                ctx.bad("R18.2", file, func, f"path={show(v)[:80]}",
                        f"the {side} path is not a two-way choice on `self.audio_dir is None`: {show(v)[:100]}", ret.lineno)
                continue
            given, plain = (v[2], v[3]) if self._dir_given(v[1]) == 1 else (v[3], v[2])
            if strip_path(plain) == raw:
                ctx.ok("R18.2", site, f"{side}: path passes through unchanged when no audio_dir is given")
            else:
                ctx.bad("R18.2", file, func, f"path={show(plain)[:60]} (no audio_dir)",
                        f"without an audio directory the {side} path is {show(plain)[:60]}, not the recording's path", ret.lineno)
            if side == "write":
                good = (given[0] == "call" and given[1][0] == "attr" and given[1][2] == "relative_to"
                        and strip_path(given[1][1]) == raw and len(given[2]) == 1 and strip_path(given[2][0]) == d)
                if good:
                    ctx.ok("R18.2", site, "write: path = Path(obj.path).relative_to(self.audio_dir)")
                else:
                    ctx.bad("R18.2", file, func, f"path={show(given)[:80]} (audio_dir given)",
                            f"with an audio directory the stored path is {show(given)[:80]}, not obj.path relative to "
                            f"self.audio_dir", ret.lineno)
                # the ValueError of relative_to must not be swallowed
                for e in s.calls:
                    if e.term == given and e.handlers:
                        for tid in e.handlers:
                            for hid, names in s.tries[tid].handlers:
                                if any(n.split(".")[-1] in ("ValueError", "Exception", "BaseException") for n in names):
                                    ctx.bad("R18.2", file, func, "try: relative_to(...) except ValueError",
                                            "the error for a recording outside the audio directory is caught: saving "
                                            "continues and writes a document instead of failing", e.lineno)
                if not any(e.term == given and e.handlers for e in s.calls):
                    ctx.ok("R18.2", site, "write: relative_to error propagates (no enclosing handler)")
                # R18.4: Path.relative_to is a lexical prefix test -- audio_dir/../private/x.wav passes it although the recording
                # lies outside the directory.  Some rejection on this path must look at `..` in the (normalised) relative path.
                def mentions_rel(t):
                    return any(x[0] == "call" and x[1][0] == "attr" and x[1][2] == "relative_to" for x in walk(t))

                def mentions_pardir(t, depth=0):
                    for x in walk(t):
                        if x[0] == "const" and isinstance(x[1], str) and x[1].startswith(".."):
                            return True
                        # a helper predicate applied to the relative path (a loop with early returns is not inlined): look inside
                        if depth < 2 and x[0] == "call" and x[1][0] == "global" and x[1][2] == "func" and ":" in x[1][1] and any(mentions_rel(a) for a in x[2]):
                            try:
                                hs = ctx.summ.of_func(*x[1][1].split(":"))
                            except Exception:  # noqa: BLE001
                                continue
                            if any(mentions_pardir(t2, depth + 1) for e2 in hs.events for t2 in (e2.live, e2.term)):
                                return True
                    return False

                guard = None
                for r in s.raises:
                    loops_ = [s.loops[l] for l in r.loops if l in s.loops]
                    scope = [r.live] + [L_.iter for L_ in loops_]
                    # conditions may refer to loop-carried values (a depth counter over the parts): look at what the loops iterate
                    if any(mentions_pardir(t) for t in scope) and any(mentions_rel(t) for t in scope):
                        guard = r
                    elif any(mentions_pardir(t) for t in scope) and any(mentions_rel(e.term) for e in s.events if e.idx < r.idx):
                        # the relative path went through a local name the condition reads indirectly (loop over its parts)
                        if any(mentions_rel(L_.iter) or any(mentions_rel(x) for x in walk(L_.iter)) for L_ in s.loops.values()):
                            guard = r
                crossed = False
                if guard is not None:
                    # polarity: where the test is a plain membership / equality on the parent-directory name, the rejection is live
                    # with `..` present and not live without it
                    from sa.peval import peval as _pe, truth as _tr
                    atoms = [x for x in walk(guard.live) if x[0] == "cmp" and x[1] in ("in", "notin", "eq", "ne")
                             and any(y in (("const", ".."), ("ext", "os.pardir"), ("ext", "os.path.pardir")) for y in (x[2], x[3]))]
                    if atoms:
                        present = {a_: a_[1] in ("in", "eq") for a_ in atoms}
                        absent = {a_: not v_ for a_, v_ in present.items()}
                        if _tr(_pe(guard.live, present)) is False or _tr(_pe(guard.live, absent)) is True:
                            crossed = True
                if crossed:
                    ctx.bad("R18.4", file, func, f"raise under `{show(guard.live)[:70]}`",
                            f"the containment test is crossed: the rejection `{show(guard.live)[:100]}` is live for a relative path WITHOUT a `..` "
                            f"part (every recording inside the directory is refused) and not live for one that climbs out of it", guard.lineno)
                elif guard is not None:
                    ctx.ok("R18.4", f"{file}:{guard.lineno} {func}", "write: a relative path that climbs out of the directory (`..`) is rejected")
                else:
                    ctx.bad("R18.4", file, func, "Path(obj.path).relative_to(self.audio_dir) (lexical containment only)",
                            "`relative_to` only compares path components as written: a recording at <audio_dir>/../private/x.wav lies outside "
                            "the audio directory but passes, is stored as '../private/x.wav' and is loaded under another directory B as "
                            "B/../private/x.wav -- outside B too. Saving must fail for it: no rejection on this path examines `..` in the "
                            "(normalised) relative path", ret.lineno,
                            witness={"audio_dir": "/data/audio", "recording": "/data/audio/../private/x.wav", "stored": "../private/x.wav"})
            else:
                good = (given[0] == "bin" and given[1] == "/" and strip_path(given[2]) == d and strip_path(given[3]) == raw)
                if not good:
                    # other spellings of the join: Path(os.path.join(dir, rel)), Path(dir, rel), Path(dir).joinpath(rel)
                    g_ = given
                    if g_[0] == "call" and g_[1] in (("ext", "pathlib.Path"), ("ext", "pathlib.PurePath")) and len(g_[2]) == 1 and not g_[3]:
                        inner_ = g_[2][0]
                        if inner_[0] == "call" and inner_[1] == ("ext", "os.path.join") and len(inner_[2]) == 2 and not inner_[3]:
                            good = strip_path(inner_[2][0]) == d and strip_path(inner_[2][1]) == raw
                    elif g_[0] == "call" and g_[1] in (("ext", "pathlib.Path"), ("ext", "pathlib.PurePath")) and len(g_[2]) == 2 and not g_[3]:
                        good = strip_path(g_[2][0]) == d and strip_path(g_[2][1]) == raw
                    elif g_[0] == "call" and g_[1][0] == "attr" and g_[1][2] == "joinpath" and len(g_[2]) == 1 and not g_[3]:
                        good = strip_path(g_[1][1]) == d and strip_path(g_[2][0]) == raw
                if good:
                    ctx.ok("R18.2", site, "read: path = self.audio_dir / obj.path")
                else:
                    ctx.bad("R18.2", file, func, f"path={show(given)[:80]} (audio_dir given)",
                            f"with an audio directory the loaded path is {show(given)[:80]}, not self.audio_dir / stored path",
                            ret.lineno)

    # -------------------------------------------------------------- R18.5
    def check_encoding(self):
        """The document (recording paths with unicode file names included) is text: written and read without an explicit encoding it
        goes through the locale's preferred encoding -- under a non-UTF-8 locale saving a non-ASCII path raises UnicodeEncodeError
        after the target was opened (leaving an empty file) and a UTF-8 document cannot be loaded."""
        ctx = self.ctx
        def utf8(t):
            return t is not None and t[0] == "const" and isinstance(t[1], str) and t[1].lower().replace("_", "-") in ("utf-8", "utf8")

        for fn in ("save", "load"):
            s = ctx.summ.of_func(AOEF_PKG, fn)
            file = s.module.relpath
            ios = []
            for e in s.calls:
                f = e.term[1]
                if f == ("builtin", "open") or (f[0] == "attr" and f[2] in ("open", "read_text", "write_text", "read_bytes", "write_bytes")):
                    ios.append(e)
            if not ios:
                ctx.undec("R18.5", f"{file}:{s.node.lineno} {fn}", "no file read / write call found")
                continue
            codecs = [e for e in s.calls if e.term[1][0] == "attr" and e.term[1][2] in ("encode", "decode")]
            for e in ios:
                f = e.term[1]
                kw = callkw(e.term)
                name = "open" if f == ("builtin", "open") else f[2]
                mode = kw.get("mode")
                if mode is None:
                    pos = e.term[2]
                    mode = pos[1] if (f == ("builtin", "open") and len(pos) > 1) else (pos[0] if (f != ("builtin", "open") and name == "open" and pos) else None)
                binary = name in ("read_bytes", "write_bytes") or (mode is not None and mode[0] == "const" and isinstance(mode[1], str) and "b" in mode[1])
                site5 = f"{file}:{e.lineno} {fn}"
                if binary:
                    cod = [c for c in codecs if (c.term[2] and not utf8(c.term[2][0])) or (callkw(c.term).get("encoding") is not None and not utf8(callkw(c.term).get("encoding")))]
                    if codecs and not cod:
                        ctx.ok("R18.5", site5, f"binary I/O ({name}) with the text encoded / decoded as UTF-8")
                    elif cod:
                        ctx.bad("R18.5", file, fn, f"{show(cod[0].term)[-50:]}", f"io.aoef.{fn} converts the document with `{show(cod[0].term)[-60:]}`, not UTF-8", cod[0].lineno)
                    else:
                        ctx.undec("R18.5", site5, f"binary I/O ({name}) without a visible encode / decode step")
                elif utf8(kw.get("encoding")):
                    ctx.ok("R18.5", site5, f"text I/O ({name}) with encoding='utf-8'")
                else:
                    ctx.bad("R18.5", file, fn, f"{name}(...) without encoding",
                            f"io.aoef.{fn} {'writes' if fn == 'save' else 'reads'} the document with `{name}` and no explicit UTF-8 encoding "
                            f"(encoding={show(kw.get('encoding', NONE))}): the text goes through the locale's preferred encoding, so under a "
                            f"non-UTF-8 locale a recording path with a non-ASCII name cannot be saved (UnicodeEncodeError after the target was "
                            f"truncated) and a UTF-8 document cannot be loaded -- the stored path then depends on the process environment, "
                            f"not on the recording", e.lineno, witness={"environment": "LC_ALL=C PYTHONUTF8=0", "file name": "café/文件.wav"})

    # -------------------------------------------------------------- R18.3
    def check_write_order(self):
        ctx = self.ctx
        s = ctx.summ.of_func(AOEF_PKG, "save")
        file = s.module.relpath
        conv = [e for e in s.calls if e.term[1] == ("global", f"{AOEF_PKG}:to_aeof", "func")]
        writes = [e for e in s.calls if e.term[1][0] == "attr" and e.term[1][2] in ("write_text", "write_bytes", "write", "open")
                  or e.term[1] == ("builtin", "open")]
        site = f"{file}:{s.node.lineno} save"
        if not conv or not writes:
            ctx.undec("R18.3", site, "to_aeof call or file write not found in io.aoef.save")
            return
        first_write = min(w.idx for w in writes)
        if all(c.idx < first_write for c in conv):
            ctx.ok("R18.3", site, "the whole conversion (to_aeof) completes before the file is written")
        else:
            ctx.bad("R18.3", file, "save", "path.write_text(...) before to_aeof(...)",
                    "the file is opened/written before the conversion finished: a recording outside the audio "
                    "directory leaves a partial or empty document behind", writes[0].lineno)
        for c in conv:
            swallowed = False
            for tid in c.handlers:
                swallowed = True
            if swallowed:
                ctx.bad("R18.3", file, "save", "try: to_aeof(...)", "the conversion runs inside a try block: its error may be swallowed", c.lineno)
            else:
                ctx.ok("R18.3", f"{file}:{c.lineno} save", "conversion error propagates to the caller")


def run(ctx: Ctx):
    ctx.rule("R18.1", "audio_dir flows from io.save/io.load into every collection's recording adapter", 17)
    ctx.rule("R18.2", "stored path relative iff directory given (error not swallowed); loaded path joined iff given", 5)
    ctx.rule("R18.3", "conversion completes before anything is written", 2)
    ctx.rule("R18.4", "containment in the audio directory is decided on the normalised relative path (`..` rejected)", 1)
    ctx.rule("R18.5", "the document is written and read as UTF-8 whatever the process locale", 2)
    c = C18(ctx)
    c.check_hops()
    c.check_constructors()
    c.check_path_terms()
    c.check_write_order()
    c.check_encoding()
    return EXPLANATION, ASSUMPTIONS


def run_for_roundtrip(ctx: Ctx):
    """The clauses of C18 the lossless round trip (C01) rests on: the directory flows unchanged, paths relative iff given."""
    ctx.rule("R18.1", "audio_dir flows from io.save/io.load into every collection's recording adapter", 17)
    ctx.rule("R18.2", "stored path relative iff directory given (error not swallowed); loaded path joined iff given", 5)
    c = C18(ctx)
    c.check_hops()
    c.check_constructors()
    c.check_path_terms()
    # the document is text: a file written in one encoding and read in another does not come back equal
    ctx.rule("R18.5", "the document is written and read as UTF-8", 2)
    c.check_encoding()
