"""C07 -- matching is an optimal one-to-one assignment that covers every geometry once (R07.1 - R07.5)."""

from __future__ import annotations

from typing import Dict, List, Optional, Tuple

from sa.canon import canon
from sa.peval import peval
from sa.report import Ctx
from sa.sym import callkw, FALSE, NONE, NOT, Summary, bind_args, conjuncts, show, subst, walk

MATCH = "soundevent.evaluation.match"
AFF = "soundevent.evaluation.affinity"

EXPLANATION = (
    "Static decision of the structural clauses of match_geometries: R07.1 cell (i, j) of the matrix is "
    "compute_affinity(source[i], target[j]) with the caller's buffers (index/element pairing through the same "
    "enumerations, shape (len(source), len(target))); R07.2 the solver is asked to maximise over the unmodified "
    "matrix; R07.3 every two-sided pair removes its row and column from the leftover sets in the same iteration and "
    "every leftover row / column is yielded one-sided, nothing else is yielded; R07.4 every two-sided yield is "
    "dominated by a test that the pair's cell is positive; R07.5 the reported affinity is the matrix cell of the pair, "
    "0 for one-sided entries. Optimality of scipy's linear_sum_assignment is trusted."
    "R07.1 also requires the matrix to be allocated as doubles and not converted / rounded; R07.3 accepts the complement form (one-sided entries = range(n) filtered by membership in the yielded pairs' components, the filter proved to be exactly those). "
)
ASSUMPTIONS = ["scipy.optimize.linear_sum_assignment(maximize=True) returns a maximum-weight one-to-one assignment (trusted)"]


class C07:
    def __init__(self, ctx: Ctx):
        self.ctx = ctx
        self.file = ctx.index.module(MATCH).relpath

    def elem_paths(self, s: Summary, t) -> Optional[Tuple[str, tuple, str]]:
        """Classify t as ('index'|'item', sequence term, loop id) when it is the index / element of enumerate(seq)
        reached through a for-loop (possibly over itertools.product of enumerations)."""
        # for i in range(len(seq)): i is the index, seq[i] the item
        def range_len(lid):
            it = s.loops[lid].iter if lid in s.loops else None
            if it is not None and it[0] == "call" and it[1] == ("builtin", "range") and not it[3] and not s.loops[lid].conds:
                a = it[2]
                if len(a) == 2 and a[0] == ("const", 0):
                    a = a[1:]
                if len(a) == 1 and a[0][0] == "call" and a[0][1] == ("builtin", "len") and len(a[0][2]) == 1:
                    return a[0][2][0]
            return None

        if t[0] == "elem" and range_len(t[1]) is not None:
            return ("index", range_len(t[1]), t[1])
        if t[0] == "sub" and t[2][0] == "elem" and range_len(t[2][1]) == t[1]:
            return ("item", t[1], t[2][1])
        # strip projections
        path = []
        x = t
        while x[0] == "sub" and x[2][0] == "const" and isinstance(x[2][1], int):
            path.append(x[2][1])
            x = x[1]
        path.reverse()
        if x[0] != "elem" or x[1] not in s.loops:
            return None
        it = s.loops[x[1]].iter
        if it[0] == "call" and it[1] in (("ext", "itertools.product"),) and not it[3]:
            if len(path) != 2 or path[0] >= len(it[2]):
                return None
            it = it[2][path[0]]
            path = path[1:]
        if it[0] == "call" and it[1] == ("builtin", "enumerate") and len(it[2]) == 1 and len(path) == 1:
            return ("index" if path[0] == 0 else "item", it[2][0], x[1])
        return None

    # ------------------------------------------------------------------ R07.1 / R07.5
    def check_matrix(self, strict=True):
        """strict=False (used when C08 delegates here): only the index/argument pairing of the cell -- C08 needs the
        reported affinity of a *matched* pair to be that pair's affinity, not that every cell is filled."""
        ctx = self.ctx
        s = ctx.summ.of_func(MATCH, "match_geometries")
        src, tgt = ("param", s.params[0]), ("param", s.params[1])
        site = f"{self.file}:{s.node.lineno} match_geometries"
        stores = [e for e in s.of("store") if e.term[1][0] == "sub" and e.term[1][2][0] == "tuple"]
        if not stores:
            got = self.comprehension_matrix(s, src, tgt, site, strict)
            if got is not None:
                return got[0]
        if len(stores) != 1:
            ctx.undec("R07.1", site, f"{len(stores)} matrix cell assignments (expected 1)")
            return None
        st = stores[0]
        mat, idx, val = st.term[1][1], st.term[1][2][1], st.term[2]
        # matrix shape
        LEN = lambda x: ("call", ("builtin", "len"), (x,), ())
        shape = None
        if mat[0] == "call" and mat[1][0] == "ext" and mat[1][1] in ("numpy.zeros", "numpy.empty", "numpy.full"):
            kw = callkw(mat)
            shape = kw.get("shape", mat[2][0] if mat[2] else None)
        dtype = None
        if shape is not None:
            dtype = kw.get("dtype", mat[2][1] if len(mat[2]) > 1 and mat[1][1] != "numpy.full" else None)
        FLOAT64 = (("builtin", "float"), ("ext", "numpy.float64"), ("ext", "numpy.double"), ("ext", "numpy.float_"), ("const", "float64"),
                   ("const", "float"), ("const", "d"), ("const", "f8"), NONE)
        casts = [e for e in s.calls if e.term[1][0] == "attr" and e.term[1][2] in ("astype", "view", "round") and e.term[1][1] == mat]
        if dtype is not None and dtype not in FLOAT64:
            ctx.bad("R07.1", self.file, "match_geometries", f"cost_matrix = {show(mat)[:70]}",
                    f"the affinity matrix is allocated with dtype {show(dtype)}: affinities are doubles, storing them in another type "
                    f"changes the reported affinity (it no longer equals compute_affinity of the pair) and can change the optimal pairing",
                    st.lineno, witness={"affinity": 1 / 3, "stored as float32": 0.3333333432674408})
        elif casts:
            ctx.bad("R07.1", self.file, "match_geometries", f"{show(casts[0].term)[:70]}",
                    "the affinity matrix is converted / rounded before it is used: reported affinities differ from compute_affinity", casts[0].lineno)
        elif shape == ("tuple", (LEN(src), LEN(tgt))) and mat[1][1] == "numpy.zeros":
            ctx.ok("R07.1", site, "matrix = zeros((len(source), len(target))) of doubles")
        elif shape == ("tuple", (LEN(tgt), LEN(src))):
            ctx.bad("R07.1", self.file, "match_geometries", f"cost_matrix = {show(mat)[:70]}",
                    "the affinity matrix is allocated transposed (len(target) rows, len(source) columns) while its cells are addressed "
                    "[source index, target index]: with unequal numbers of source and target geometries the fill runs out of bounds or "
                    "leaves cells of real pairs at 0", st.lineno)
        elif not strict:
            pass
        else:
            ctx.bad("R07.1", self.file, "match_geometries", f"cost_matrix = {show(mat)[:70]}",
                    f"the affinity matrix is not zeros((len(source), len(target))): {show(mat)[:90]}", st.lineno)
        afn = ("global", f"{AFF}:compute_affinity", "func")
        if not (val[0] == "call" and val[1] == afn):
            ctx.bad("R07.1", self.file, "match_geometries", f"cost_matrix[i, j] = {show(val)[:60]}",
                    "matrix cells are not filled with compute_affinity(...)", st.lineno)
            return mat
        asum = ctx.summ.of_func(AFF, "compute_affinity")
        bound, extra, spreads, _ = bind_args(val, asum.params)
        i, j = self.elem_paths(s, idx[0]), self.elem_paths(s, idx[1]) if len(idx) == 2 else None
        a, b = self.elem_paths(s, bound.get(asum.params[0], NONE)), self.elem_paths(s, bound.get(asum.params[1], NONE))
        good = (i and j and a and b and i[0] == "index" and j[0] == "index" and a[0] == "item" and b[0] == "item"
                and i[1] == src and j[1] == tgt and a[1] == src and b[1] == tgt and i[2] == a[2] and j[2] == b[2])
        if good:
            ctx.ok("R07.1", f"{self.file}:{st.lineno} match_geometries", "cell [i, j] = compute_affinity(source[i], target[j])")
        elif not i and not j and not a and not b and "." in str(getattr(st, "inlined_from", "")).split(":")[-1]:
            ctx.undec("R07.1", f"{self.file}:{st.lineno} match_geometries", f"where the indices and arguments of the cell `{show(st.term)[:60]}` come from cannot be read "
                                                                           f"(the fill happens inside an object / a helper iterating something the rule does not know)")
        else:
            ctx.bad("R07.1", self.file, "match_geometries", f"cost_matrix[{show(idx[0])[:20]}, {show(idx[1])[:20] if len(idx) > 1 else ''}] = compute_affinity(...)",
                    "the matrix cell indexed (row from source, column from target) is not the affinity of that source "
                    f"geometry with that target geometry: index provenance {i} / {j}, argument provenance {a} / {b}", st.lineno)
        for k in ("time_buffer", "freq_buffer"):
            if bound.get(k) == ("param", k):
                ctx.ok("R07.1", f"{self.file}:{st.lineno} match_geometries", f"{k} forwarded to compute_affinity")
            else:
                ctx.bad("R07.1", self.file, "match_geometries", f"compute_affinity(... {k}={show(bound.get(k, NONE))})",
                        f"the caller's {k} is not forwarded to compute_affinity (receives {show(bound.get(k, NONE))})", st.lineno)
        if not strict:
            return mat
        # loop must be unfiltered over all pairs
        for lid in st.loops:
            L = s.loops[lid]
            if L.conds:
                ctx.bad("R07.1", self.file, "match_geometries", "filtered pair loop", "the pair loop skips some pairs", st.lineno)
        if any(c[0] not in ("inloop",) for c in conjuncts(st.live)):
            ctx.bad("R07.1", self.file, "match_geometries", f"conditional cell assignment: {show(st.live)[:60]}",
                    "matrix cells are only assigned conditionally", st.lineno)
        return mat

    def comprehension_matrix(self, s, src, tgt, site, strict):
        """The matrix written as one expression: np.array([aff(g1, g2) for g1 in source for g2 in target]).reshape(len(source),
        len(target)) (row-major: the outer loop is the row) or np.array([[aff(g1, g2) for g2 in target] for g1 in source]).
        (matrix term,) when the code has this shape (findings / ok instances recorded), None otherwise."""
        ctx = self.ctx
        sel = ("global", f"{MATCH}:_select_matches", "func")
        calls = [e for e in s.calls if e.term[1] == sel and len(e.term[2]) == 1]
        if len(calls) != 1:
            return None
        mat = calls[0].term[2][0]
        LEN = lambda x: ("call", ("builtin", "len"), (x,), ())
        x, shape = mat, None
        if x[0] == "call" and x[1][0] == "attr" and x[1][2] == "reshape" and not x[3]:
            shape = x[2][0] if len(x[2]) == 1 and x[2][0][0] == "tuple" else ("tuple", tuple(x[2]))
            x = x[1][1]
        if not (x[0] == "call" and x[1] in (("ext", "numpy.array"), ("ext", "numpy.asarray"), ("ext", "numpy.fromiter")) and x[2] and x[2][0][0] == "comp"):
            return None
        kw = callkw(x)
        dtype = kw.get("dtype", x[2][1] if len(x[2]) > 1 else None)
        comp = x[2][0]
        gens = list(comp[3])
        elt = comp[2]
        fromiter = x[1] == ("ext", "numpy.fromiter")
        if fromiter:
            # np.fromiter(<one value per pair>, dtype, count): a flat vector; the count, when given, must be the number of pairs
            cnt = kw.get("count", x[2][2] if len(x[2]) > 2 else None)
            n_pairs = (("bin", "*", LEN(src), LEN(tgt)), ("bin", "*", LEN(tgt), LEN(src)), ("const", -1), None)
            if cnt not in n_pairs or dtype is None:
                return None
        if len(gens) == 1 and elt[0] == "comp" and elt[1] == "list" and len(elt[3]) == 1 and not fromiter:
            gens, elt = gens + list(elt[3]), elt[2]  # nested rows
        elif shape is None or len(gens) != 2 or comp[1] != ("gen" if fromiter else "list"):
            return None
        line = calls[0].lineno
        FLOAT64 = (("builtin", "float"), ("ext", "numpy.float64"), ("ext", "numpy.double"), ("ext", "numpy.float_"), ("const", "float64"),
                   ("const", "float"), ("const", "d"), ("const", "f8"), NONE, None)
        (l1, it1, c1), (l2, it2, c2) = gens
        if dtype not in FLOAT64:
            ctx.bad("R07.1", self.file, "match_geometries", f"cost_matrix = {show(mat)[:70]}",
                    f"the affinity matrix is built with dtype {show(dtype)}: affinities are doubles, storing them in another type "
                    f"changes the reported affinity (it no longer equals compute_affinity of the pair) and can change the optimal pairing",
                    line, witness={"affinity": 1 / 3, "stored as float32": 0.3333333432674408})
        elif (it1, it2) == (src, tgt) and shape in (None, ("tuple", (LEN(src), LEN(tgt))), ("tuple", (LEN(src), ("const", -1))), ("tuple", (("const", -1), LEN(tgt)))):
            ctx.ok("R07.1", site, "matrix = one affinity per (source, target) pair in row-major order, shaped (len(source), len(target)), doubles")
        elif (it1, it2) == (tgt, src) or shape == ("tuple", (LEN(tgt), LEN(src))):
            ctx.bad("R07.1", self.file, "match_geometries", f"cost_matrix = {show(mat)[:70]}",
                    "the affinity matrix is laid out transposed (targets along the rows) while its cells are addressed "
                    "[source index, target index]: with unequal numbers of source and target geometries cells belong to other pairs", line)
        elif strict:
            ctx.undec("R07.1", site, f"layout of the matrix expression not recognised: {show(mat)[:80]}")
        afn = ("global", f"{AFF}:compute_affinity", "func")
        if not (elt[0] == "call" and elt[1] == afn):
            ctx.bad("R07.1", self.file, "match_geometries", f"cost_matrix[i, j] = {show(elt)[:60]}",
                    "matrix cells are not filled with compute_affinity(...)", line)
            return (mat,)
        asum = ctx.summ.of_func(AFF, "compute_affinity")
        bound, extra, spreads, _ = bind_args(elt, asum.params)
        a, b = bound.get(asum.params[0], NONE), bound.get(asum.params[1], NONE)
        if (it1, it2) in ((src, tgt), (tgt, src)):
            row_l, col_l = (l1, l2) if it1 == src else (l2, l1)
            if (a, b) == (("elem", row_l), ("elem", col_l)):
                ctx.ok("R07.1", f"{self.file}:{line} match_geometries", "cell [i, j] = compute_affinity(source[i], target[j])")
            else:
                ctx.bad("R07.1", self.file, "match_geometries", f"compute_affinity({show(a)[:20]}, {show(b)[:20]}, ...)",
                        "the matrix cell indexed (row from source, column from target) is not the affinity of that source "
                        "geometry with that target geometry", line)
        for k in ("time_buffer", "freq_buffer"):
            if bound.get(k) == ("param", k):
                ctx.ok("R07.1", f"{self.file}:{line} match_geometries", f"{k} forwarded to compute_affinity")
            else:
                ctx.bad("R07.1", self.file, "match_geometries", f"compute_affinity(... {k}={show(bound.get(k, NONE))})",
                        f"the caller's {k} is not forwarded to compute_affinity (receives {show(bound.get(k, NONE))})", line)
        if strict and (c1 or c2):
            ctx.bad("R07.1", self.file, "match_geometries", "filtered pair loop", "the pair loop skips some pairs", line)
        return (mat,)

    def check_report(self, mat, solver=True):
        ctx = self.ctx
        s = ctx.summ.of_func(MATCH, "match_geometries")
        site = f"{self.file}:{s.node.lineno} match_geometries"
        sel = ("global", f"{MATCH}:_select_matches", "func")
        calls = [e for e in s.calls if e.term[1] == sel]
        if not solver:
            pass
        elif len(calls) == 1 and calls[0].term[2] == (mat,) and not calls[0].term[3]:
            ctx.ok("R07.2", f"{self.file}:{calls[0].lineno} match_geometries", "_select_matches receives the filled matrix unmodified")
        elif not calls:
            ctx.undec("R07.2", f"{self.file}:{s.node.lineno} match_geometries", "match_geometries does not call _select_matches: the assignment is computed where the rule cannot read it")
        else:
            ctx.bad("R07.2", self.file, "match_geometries", f"_select_matches({show(calls[0].term[2][0])[:40] if calls and calls[0].term[2] else ''})",
                    "the assignment is computed on something other than the filled affinity matrix", s.node.lineno)
        ys = s.yields
        if not ys:
            ctx.undec("R07.5", site, "no yield")
            return
        triples = []
        for y in ys:
            t = y.term
            if not (t[0] == "tuple" and len(t[1]) == 3):
                ctx.undec("R07.5", site, f"yield is not a (source, target, affinity) triple: {show(t)[:60]}")
                return
            m1, m2, aff = t[1]
            L = s.loops.get(y.loops[-1]) if y.loops else None
            if L is None or not calls or L.iter != calls[0].term or m1 != ("sub", ("elem", L.id), ("const", 0)) \
                    or m2 != ("sub", ("elem", L.id), ("const", 1)) or L.conds or len({yy.loops for yy in ys}) != 1:
                if L is not None and (not calls or L.iter != calls[0].term) and L.iter[0] == "call" and L.iter[1][0] == "attr" and L.iter[1][1][0] in ("call", "elem", "sub", "attr"):
                    ctx.undec("R07.5", site, f"the entries are produced by `{show(L.iter)[:60]}`, a method of an object the rule cannot read")
                    return
                ctx.bad("R07.5", self.file, "match_geometries", f"yield {show(t)[:70]}",
                        "the yielded indices are not, in order, the (source, target) pair produced by _select_matches for every pair", y.lineno)
                return
            triples.append((y, m1, m2, aff))
        y0, m1, m2, _ = triples[0]
        cell = ("sub", mat, ("tuple", (m1, m2)))
        ok = True
        from sa.sym import AND
        for v1 in (0, None):
            for v2 in (0, None):
                if v1 is None and v2 is None:
                    continue
                env = {("cmp", "isnot", m1, NONE): v1 is not None, ("cmp", "isnot", m2, NONE): v2 is not None,
                       ("cmp", "is", m1, NONE): v1 is None, ("cmp", "is", m2, NONE): v2 is None}
                kind = 'two-sided' if v1 is not None and v2 is not None else 'one-sided'
                taken = []
                for y, _, _, aff in triples:
                    lv = peval(AND(*[c for c in conjuncts(y.live) if c[0] != "inloop"]), env)
                    if lv == ("const", False):
                        continue
                    taken.append((y, lv, aff))
                if len(taken) != 1 or taken[0][1] != ("const", True):
                    ok = False
                    ctx.bad("R07.5", self.file, "match_geometries", f"{kind} entry: {len(taken)} yields",
                            f"a {kind} entry produced by _select_matches is reported {len(taken)} times (each entry must be "
                            f"reported exactly once)", y0.lineno, witness={"source_is_none": v1 is None, "target_is_none": v2 is None})
                    continue
                y, _, aff = taken[0]
                got = peval(aff, env)
                if v1 is not None and v2 is not None:
                    good = got in (cell, ("call", ("builtin", "float"), (cell,), ()))
                else:
                    good = got[0] == "const" and got[1] == 0
                def through_table(t_):
                    """the value comes out of a callable looked up in a module-level table / held by an object: not readable here"""
                    return t_[0] == "call" and (t_[1][0] in ("sub", "lambda", "ite") or (t_[1][0] == "attr" and t_[1][1][0] in ("call", "elem", "sub")))
                if not good and through_table(got):
                    ok = False
                    ctx.undec("R07.5", f"{self.file}:{y.lineno} match_geometries", f"the reported affinity of a {kind} entry is computed by `{show(got[1])[:60]}`, "
                                                                                  f"a callable taken from a table / an object, which the rule cannot read")
                elif not good:
                    ok = False
                    ctx.bad("R07.5", self.file, "match_geometries", f"affinity = {show(aff)[:80]}",
                            f"for a {kind} entry the reported affinity is "
                            f"{show(got)[:60]} (must be {'the matrix cell of that pair' if v1 is not None and v2 is not None else '0'})",
                            y.lineno, witness={"source_is_none": v1 is None, "target_is_none": v2 is None})
        if ok:
            ctx.ok("R07.5", f"{self.file}:{y0.lineno} match_geometries", "affinity = cost_matrix[source, target] for pairs, 0.0 for one-sided entries")

    # ------------------------------------------------------------------ R07.2 - R07.4
    @staticmethod
    def generator_view(s):
        """`_select_matches` written as a function that fills one list and returns it (`out = [pairs]; out.extend(<one-sided rows>);
        out.extend(<one-sided columns>); return out`, appends in loops) read as the generator of the same entries in the same
        order: every fill phase becomes a loop with a yield.  A later phase that reads the list while it is being filled (`{r for
        r, _ in out}`) sees the pairs of the first phase -- for the membership tests on one component that the rules look at, the
        one-sided entries added meanwhile make no difference (their other component is None, their own one is distinct).
        The summary itself when it already yields, or when it has another shape."""
        import dataclasses
        from sa.sym import AND as AND_, Event, TRUE
        if s.yields or s.is_generator:
            return s
        rets = [r for r in s.of("return")]
        if len(rets) != 1 or rets[0].term[0] != "alloc" or rets[0].term[1] != "list" or rets[0].loops:
            return s
        al = rets[0].term
        first = None
        events, loops = [], dict(s.loops)
        for e in s.events:
            touches = any(x == al for x in walk(e.term)) or any(x == al for x in walk(e.live))
            if e is rets[0]:
                continue
            if not touches:
                events.append(e)
                continue
            if e.kind != "call" or e.term[1][0] != "attr" or e.term[1][1] != al or len(e.term[2]) != 1 or e.term[3]:
                return s
            arg = e.term[2][0]
            if first is not None:
                arg = subst(arg, {al: first})
            if e.term[1][2] == "append" and not any(x == al for x in walk(arg)):
                events.append(Event("yield", e.live, arg, e.node, e.loops, e.idx, e.handlers, e.in_handler))
            elif e.term[1][2] == "extend" and not e.loops and arg[0] == "comp" and arg[1] in ("list", "gen") and len(arg[3]) == 1 \
                    and arg[3][0][0] in loops and not any(x == al for x in walk(arg)):
                lid, it, conds = arg[3][0]
                if first is None:
                    first = ("comp", "list", arg[2], arg[3])
                loops[lid] = dataclasses.replace(loops[lid], kind="for", conds=())
                events.append(Event("yield", AND_(e.live, ("inloop", lid), *conds), arg[2], e.node, (lid,), e.idx, e.handlers, e.in_handler))
            else:
                return s
        if first is None and not any(e.kind == "yield" for e in events):
            return s
        return dataclasses.replace(s, events=events, loops=loops, is_generator=True)

    def check_select(self, solver=True):
        ctx = self.ctx
        s = self.generator_view(ctx.summ.of_func(MATCH, "_select_matches"))
        M = ("param", s.params[0])
        site = f"{self.file}:{s.node.lineno} _select_matches"
        lsa = [e for e in s.calls if e.term[1][0] == "ext" and e.term[1][1].endswith("linear_sum_assignment")]
        if len(lsa) != 1:
            ctx.undec("R07.2", site, f"{len(lsa)} linear_sum_assignment calls")
            return
        call = lsa[0].term
        kw = callkw(call)
        arg0 = call[2][0] if call[2] else kw.get("cost_matrix")
        maxim = kw.get("maximize", call[2][1] if len(call[2]) > 1 else ("const", False))
        if not solver:
            pass
        elif arg0 == M and maxim == ("const", True):
            ctx.ok("R07.2", f"{self.file}:{lsa[0].lineno} _select_matches", "linear_sum_assignment(cost_matrix, maximize=True)")
        elif arg0 == ("neg", M) and maxim == ("const", False):
            ctx.ok("R07.2", f"{self.file}:{lsa[0].lineno} _select_matches", "linear_sum_assignment(-cost_matrix) (minimising the negation)")
        else:
            ctx.bad("R07.2", self.file, "_select_matches", f"linear_sum_assignment({show(arg0)[:30]}, maximize={show(maxim)})",
                    "the solver is not asked to maximise the total affinity of the unmodified matrix "
                    f"(argument {show(arg0)[:40]}, maximize={show(maxim)}): the pairing minimises overlap or uses other weights", lsa[0].lineno)
        # leftover sets
        def rng(axis, kind="set"):
            return ("call", ("builtin", kind), (("call", ("builtin", "range"), (("sub", ("attr", M, "shape"), ("const", axis)),), ()),), ())

        rows_t, cols_t = rng(0), rng(1)
        if any(e.term[1][0] == "attr" and e.term[1][2] == "remove" and e.term[1][1] in (rng(0, "list"), rng(1, "list")) for e in s.calls):
            rows_t, cols_t = rng(0, "list"), rng(1, "list")  # the leftovers kept as lists of indices: remove() takes the index out all the same
        ys = s.yields
        two, left_r, left_c, other = [], [], [], []
        for y in ys:
            t = y.term
            if not (t[0] == "tuple" and len(t[1]) == 2):
                other.append(y)
            elif t[1][1] == NONE:
                left_r.append(y)
            elif t[1][0] == NONE:
                left_c.append(y)
            else:
                two.append(y)
        res = ("call", call[1], call[2], call[3])
        if len(other) == 1 and not two and other[0].term[0] == "yieldfrom" and self.vector_form(s, M, res, other[0], left_r, left_c, site):
            return
        for y in other:
            ctx.undec("R07.3", f"{self.file}:{y.lineno} _select_matches", f"yield of another shape than (row, column): {show(y.term)[:60]}")
        if other:
            return
        if len(two) != 1:
            # several pairing paths (a shortcut next to the solver): whatever else they do, each must pair only on a positive cell
            unguarded = []
            for y_ in two:
                r_, c_ = y_.term[1]
                cell_ = ("sub", M, ("tuple", (r_, c_)))
                alt_ = [("sub", ("sub", M, r_), c_), ("sub", ("sub", M, ("tuple", (("slice", NONE, NONE, NONE), c_))), r_)]
                conj_ = conjuncts(y_.live)
                if not any(("cmp", "lt", ("const", z_), x_) in conj_ for z_ in (0, 0.0) for x_ in [cell_] + alt_):
                    unguarded.append(y_)
            for y_ in unguarded:
                ctx.bad("R07.4", self.file, "_select_matches", f"yield {show(y_.term)[:60]} if {show(y_.live)[:60]}",
                        f"the pair `{show(y_.term)[:60]}` is yielded under `{show(y_.live)[:80]}` without requiring its affinity cell to be "
                        f"positive: two geometries that do not overlap are reported as matched with affinity 0.0 instead of two one-sided "
                        f"entries", y_.lineno, witness={"input": "match_geometries([box A], [disjoint box B])", "observed": "(0, 0, 0.0)"})
            if not unguarded:
                ctx.undec("R07.3", site, f"{len(two)} two-sided yields (expected 1)")
            return
        y = two[0]
        L = s.loops.get(y.loops[-1]) if y.loops else None
        zipped = L is not None and L.iter == ("call", ("builtin", "zip"), (("sub", res, ("const", 0)), ("sub", res, ("const", 1))), ())
        r, c = y.term[1]
        if not (zipped and r == ("sub", ("elem", L.id), ("const", 0)) and c == ("sub", ("elem", L.id), ("const", 1))):
            ctx.bad("R07.3", self.file, "_select_matches", f"yield {show(y.term)[:60]}",
                    "the two-sided yield is not (row, column) of the solver's assignment in that order", y.lineno)
            return
        # the other spelling: no leftover sets, the one-sided entries are range(n) filtered by "not among the paired ones"
        if self.complement_form(s, M, y, L, r, c, left_r, left_c, site):
            self.check_dominance(s, M, y, r, c)
            return
        # both removals in the same iteration under the same condition
        rem = {"row": None, "col": None}
        for e in s.calls:
            if e.term[1][0] == "attr" and e.term[1][2] in ("remove", "discard") and L.id in e.loops:
                if e.term[1][1] == rows_t and e.term[2] == (r,):
                    rem["row"] = e
                if e.term[1][1] == cols_t and e.term[2] == (c,):
                    rem["col"] = e
        for k, e in rem.items():
            if e is None:
                ctx.bad("R07.3", self.file, "_select_matches", f"{k}s.remove({k}) missing",
                        f"a paired {k} is not removed from the leftover set: it is yielded a second time as unmatched", y.lineno)
            elif canon(e.live) != canon(y.live):
                ctx.bad("R07.3", self.file, "_select_matches", f"{k}s.remove({k}) under {show(e.live)[:50]}",
                        f"the {k} is removed under a different condition than the pair is yielded: an index is reported "
                        f"twice or not at all", e.lineno)
            else:
                ctx.ok("R07.3", f"{self.file}:{e.lineno} _select_matches", f"paired {k} removed in the same iteration as the yield")
        for name, ylist, setterm, pos in (("row", left_r, rows_t, 0), ("column", left_c, cols_t, 1)):
            okl = False
            for yy in ylist:
                LL = s.loops.get(yy.loops[-1]) if yy.loops else None
                it = LL.iter if LL else None
                if it is not None and it[0] == "call" and it[1] == ("builtin", "sorted") and len(it[2]) == 1:
                    it = it[2][0]
                if LL is not None and it == setterm and not LL.conds and yy.term[1][pos] == ("elem", LL.id) \
                        and all(x[0] == "inloop" for x in conjuncts(yy.live)) and yy.idx > y.idx:
                    okl = True
            if okl:
                ctx.ok("R07.3", site, f"every leftover {name} yielded one-sided after the pairs")
            else:
                ctx.bad("R07.3", self.file, "_select_matches", f"leftover {name}s",
                        f"leftover {name}s are not all yielded as one-sided entries ({'(r, None)' if pos == 0 else '(None, c)'}) "
                        f"from the leftover set: some {'source' if pos == 0 else 'target'} index is never mentioned or is "
                        f"mentioned on the wrong side", s.node.lineno)
        self.check_dominance(s, M, y, r, c)

    def vector_form(self, s, M, res, yf, left_r, left_c, site) -> bool:
        """The vectorised spelling: pairs = zip(rows[keep], cols[keep]) with keep the mask of positive assigned cells, and the
        one-sided entries the indices still set in a boolean vector of ones from which exactly the paired indices were cleared
        (or np.setdiff1d(arange(n), paired)).  False when the code has another shape (nothing has been reported then)."""
        ctx = self.ctx
        z = yf.term[1]
        if not (z[0] == "call" and z[1] == ("builtin", "zip") and len(z[2]) == 2 and not z[3]):
            return False
        rows, cols = ("sub", res, ("const", 0)), ("sub", res, ("const", 1))
        A, B = z[2]
        if (A, B) == (rows, cols):
            ctx.ok("R07.3", f"{self.file}:{yf.lineno} _select_matches", "pairs = zip of the solver's rows and columns")
            mask = None
        elif A[0] == "sub" and B[0] == "sub" and A[1] == rows and B[1] == cols and A[2] == B[2]:
            mask = A[2]
        else:
            return False
        if any(c[0] != "inloop" for c in conjuncts(yf.live)) or yf.loops:
            return False
        cells = ("sub", M, ("tuple", (rows, cols)))
        positive = [("invert", ("cmp", "le", cells, ("const", z0))) for z0 in (0, 0.0)] + [("cmp", "lt", ("const", z0), cells) for z0 in (0, 0.0)]
        if mask is None:
            ctx.bad("R07.4", self.file, "_select_matches", "yield from zip(rows, columns) (unguarded solver output)",
                    "every pair returned by the solver is yielded as a match, including pairs whose affinity is 0: two "
                    "non-overlapping geometries are reported as matched with affinity 0.0 instead of two one-sided entries",
                    yf.lineno, witness={"input": "match_geometries([box A], [disjoint box B])", "observed": "(0, 0, 0.0)"})
        elif mask in positive:
            ctx.ok("R07.4", f"{self.file}:{yf.lineno} _select_matches", "pairs kept only where cost_matrix[rows, columns] > 0 (one mask for both sides)")
        elif mask in [("invert", ("cmp", "lt", cells, ("const", z0))) for z0 in (0, 0.0)] + [("cmp", "le", ("const", z0), cells) for z0 in (0, 0.0)]:
            ctx.bad("R07.4", self.file, "_select_matches", f"pairs kept where {show(mask)[:60]}",
                    "assigned pairs whose affinity is exactly 0 are kept as matches: two non-overlapping geometries are reported as "
                    "matched with affinity 0.0 instead of two one-sided entries", yf.lineno,
                    witness={"input": "match_geometries([box A], [disjoint box B])", "observed": "(0, 0, 0.0)"})
        else:
            ctx.undec("R07.4", f"{self.file}:{yf.lineno} _select_matches", f"mask of the kept pairs is not `cost_matrix[rows, cols] > 0`: {show(mask)[:70]}")
        stores = s.of("store")
        for name, ylist, pos, sel in (("row", left_r, 0, A), ("column", left_c, 1, B)):
            n = ("sub", ("attr", M, "shape"), ("const", pos))
            good = None
            for yy in ylist:
                LL = s.loops.get(yy.loops[-1]) if yy.loops else None
                if LL is None or LL.conds or yy.term[1][pos] != ("elem", LL.id) or yy.idx < yf.idx or any(c[0] != "inloop" for c in conjuncts(yy.live)):
                    continue
                it = LL.iter
                if it[0] == "call" and it[1][0] == "attr" and it[1][2] == "tolist" and not it[2]:
                    it = it[1][1]
                if it[0] == "call" and it[1] == ("builtin", "sorted") and len(it[2]) == 1:
                    it = it[2][0]
                U = None
                if it[0] == "call" and it[1] == ("ext", "numpy.flatnonzero") and len(it[2]) == 1:
                    U = it[2][0]
                elif it[0] == "sub" and it[2] == ("const", 0) and it[1][0] == "call" and it[1][1] in (("ext", "numpy.nonzero"), ("ext", "numpy.where")) and len(it[1][2]) == 1:
                    U = it[1][2][0]
                elif it[0] == "call" and it[1] == ("ext", "numpy.setdiff1d") and len(it[2]) == 2 and not it[3]:
                    ar = it[2][0]
                    good = ar == ("call", ("ext", "numpy.arange"), (n,), ()) and it[2][1] == sel
                    continue
                elif (it[0] == "bin" and it[1] == "-") or (it[0] == "call" and it[1][0] == "attr" and it[1][2] == "difference" and len(it[2]) == 1 and not it[3]):
                    # set(range(n)) - set(paired) / set(range(n)).difference(paired), the paired indices as array, list or set
                    whole, minus = (it[2], it[3]) if it[0] == "bin" else (it[1][1], it[2][0])
                    if whole[0] == "call" and whole[1] in (("builtin", "set"), ("builtin", "frozenset")) and len(whole[2]) == 1 and not whole[3]:
                        whole = whole[2][0]
                    else:
                        continue
                    while minus[0] == "call" and not minus[3] and ((minus[1] in (("builtin", "set"), ("builtin", "frozenset"), ("builtin", "list"), ("builtin", "tuple"))
                                                                      and len(minus[2]) == 1) or (minus[1][0] == "attr" and minus[1][2] == "tolist" and not minus[2])):
                        minus = minus[2][0] if minus[1][0] == "builtin" else minus[1][1]
                    good = whole in (("call", ("builtin", "range"), (n,), ()), ("call", ("builtin", "range"), (("const", 0), n), ())) and minus == sel
                    continue
                if U is None or not (U[0] == "call" and U[1] == ("ext", "numpy.ones") and U[2] and U[2][0] == n):
                    continue
                kw = callkw(U)
                dt = kw.get("dtype", U[2][1] if len(U[2]) > 1 else None)
                if dt not in (("builtin", "bool"), ("ext", "numpy.bool_"), ("const", "bool"), ("const", "?")):
                    continue
                cleared = [e for e in stores if e.term[1][0] == "sub" and e.term[1][1] == U]
                good = (len(cleared) == 1 and cleared[0].term[1][2] == sel and cleared[0].term[2] == ("const", False)
                        and not cleared[0].loops and all(c[0] == "inloop" for c in conjuncts(cleared[0].live)) and cleared[0].idx < yy.idx)
            if good is None:
                ctx.undec("R07.3", site, f"leftover {name}s: the one-sided entries are not read from a recognised complement of the paired {name}s")
            elif good:
                ctx.ok("R07.3", site, f"paired {name}s (the kept {name}s of the solver) are exactly the ones cleared from the leftover vector")
                ctx.ok("R07.3", site, f"every leftover {name} yielded one-sided after the pairs")
            else:
                ctx.bad("R07.3", self.file, "_select_matches", f"leftover {name}s",
                        f"the one-sided {name} entries are the complement of something other than the {name}s of the yielded pairs: "
                        f"an index is reported twice or not at all", s.node.lineno)
        return True

    @staticmethod
    def _flatten(S):
        """a (nested) comprehension as (element, loop id, iterable, conditions) of one loop; None when it has another shape"""
        if S[0] == "call" and S[1] in (("builtin", "set"), ("builtin", "frozenset"), ("builtin", "list"), ("builtin", "tuple")) and len(S[2]) == 1 and not S[3]:
            S = S[2][0]
        if S[0] != "comp" or len(S[3]) != 1:
            return None
        elt, (lid, it, conds) = S[2], S[3][0]
        if it[0] == "comp" or (it[0] == "call" and it[1][0] == "builtin" and it[1][1] in ("list", "tuple", "set") and it[2] and it[2][0][0] == "comp"):
            inner = C07._flatten(it)
            if inner is None:
                return None
            elt2, lid2, it2, conds2 = inner
            mp = {("elem", lid): elt2}
            from sa.sym import fold_sub
            return fold_sub(subst(elt, mp)), lid2, it2, tuple(conds2) + tuple(fold_sub(subst(c_, mp)) for c_ in conds)
        return elt, lid, it, tuple(conds)

    def complement_form(self, s, M, y, L, r, c, left_r, left_c, site) -> bool:
        ctx = self.ctx
        pair_conds = {canon(x) for x in conjuncts(y.live) if x[0] != "inloop"}
        found = {}
        for name, ylist, pos, comp in (("row", left_r, 0, r), ("column", left_c, 1, c)):
            for yy in ylist:
                LL = s.loops.get(yy.loops[-1]) if yy.loops else None
                it = LL.iter if LL else None
                if it is not None and it[0] == "call" and it[1] == ("builtin", "sorted") and len(it[2]) == 1:
                    it = it[2][0]
                want_it = ("call", ("builtin", "range"), (("sub", ("attr", M, "shape"), ("const", pos)),), ())
                if LL is None or it != want_it or yy.term[1][pos] != ("elem", LL.id) or yy.idx < y.idx:
                    continue
                conds = [x for x in conjuncts(yy.live) if x[0] != "inloop"]
                if len(conds) != 1:
                    continue
                cd = conds[0]
                if cd[0] == "not" and cd[1][0] == "cmp" and cd[1][1] == "in":
                    cd = ("cmp", "notin", cd[1][2], cd[1][3])
                if not (cd[0] == "cmp" and cd[1] == "notin" and cd[2] == ("elem", LL.id)):
                    continue
                flat = self._flatten(cd[3])
                if flat is None:
                    continue
                elt, lid, it2, conds2 = flat
                mp = {("elem", lid): ("elem", L.id), ("inloop", lid): ("inloop", L.id)}
                elt = subst(elt, mp)
                conds2 = {canon(subst(x, mp)) for x in conds2}
                found[name] = (yy, it2 == L.iter and elt == comp and conds2 == pair_conds)
        if set(found) != {"row", "column"}:
            return False
        for name, (yy, good) in found.items():
            if good:
                ctx.ok("R07.3", f"{self.file}:{yy.lineno} _select_matches", f"a {name} is yielded one-sided iff it is not the {name} of a yielded pair")
                ctx.ok("R07.3", site, f"every {name} index of range(n) that is not paired is yielded one-sided after the pairs")
            else:
                ctx.bad("R07.3", self.file, "_select_matches", f"leftover {name}s",
                        f"the one-sided {name} entries are filtered by a set that is not exactly the {name}s of the yielded pairs: "
                        f"an index is reported twice or not at all", yy.lineno)
        return True

    def check_dominance(self, s, M, y, r, c):
        ctx = self.ctx
        # R07.4 dominance: the two-sided yield requires a positive cell
        cell = ("sub", M, ("tuple", (r, c)))
        pos_forms = [("cmp", "lt", ("const", 0), cell), ("cmp", "lt", ("const", 0.0), cell)]
        conj = conjuncts(y.live)
        if any(p in conj for p in pos_forms):
            ctx.ok("R07.4", f"{self.file}:{y.lineno} _select_matches", "two-sided yield dominated by cost_matrix[row, column] > 0")
        else:
            ctx.bad("R07.4", self.file, "_select_matches", "yield row, column (unguarded solver output)",
                    "every pair returned by the solver is yielded as a match, including pairs whose affinity is 0: two "
                    "non-overlapping geometries are reported as matched with affinity 0.0 instead of two one-sided entries",
                    y.lineno, witness={"input": "match_geometries([box A], [disjoint box B])", "observed": "(0, 0, 0.0)"})


def run_for_detection(ctx: Ctx):
    """The part of C07 that C08 relies on: coverage, positive-affinity pairing, reported affinity of the pair
    (not optimality, not the completeness of the matrix fill)."""
    ctx.rule("R07.1", "matrix cell (i, j) = compute_affinity(source[i], target[j], caller's buffers)", 3)
    ctx.rule("R07.3", "rows/columns removed with their pair; leftovers yielded one-sided", 4)
    ctx.rule("R07.4", "two-sided yield only for positive affinity", 1)
    ctx.rule("R07.5", "reported affinity = matrix cell of the pair, 0 for one-sided", 1)
    c = C07(ctx)
    mat = c.check_matrix(strict=False)
    if mat is not None:
        c.check_report(mat, solver=False)
    c.check_select(solver=False)


def run(ctx: Ctx):
    ctx.rule("R07.1", "matrix cell (i, j) = compute_affinity(source[i], target[j], caller's buffers)", 4)
    ctx.rule("R07.2", "solver maximises over the unmodified matrix", 2)
    ctx.rule("R07.3", "rows/columns removed with their pair; leftovers yielded one-sided", 4)
    ctx.rule("R07.4", "two-sided yield only for positive affinity", 1)
    ctx.rule("R07.5", "reported affinity = matrix cell of the pair, 0 for one-sided", 1)
    c = C07(ctx)
    mat = c.check_matrix()
    if mat is not None:
        c.check_report(mat)
    c.check_select()
    # match_geometries evaluates compute_affinity for every pair (affinity.py is an anchor of this property): it must return a
    # number for every pair -- the zero-union guards of both branches (C06's formula rules) keep degenerate pairs from dividing
    # by zero, and a positive value only for overlapping geometries is what "paired only if the affinity is positive" means
    from . import c06
    with ctx.delegated("C06/"):
        c06.run_for_detection(ctx)
    return EXPLANATION, ASSUMPTIONS
