"""C17 -- cropping and extending hit the requested size on the lattice (R17.1 - R17.6)."""

from __future__ import annotations

import itertools
from typing import Dict, List, Optional

from sa.canon import canon
from sa.peval import peval, weak_orderings
from sa.report import Ctx
from sa.sym import callkw, FALSE, NONE, NOT, Summary, bind_args, conjuncts, show, subst, walk

AOPS = "soundevent.arrays.operations"
DIMS = "soundevent.arrays.dimensions"

EXPLANATION = (
    "Static decision of the structural clauses of cropping / extending: R17.1 count-exact generation: in "
    "extend_dim_width (contract: exactly `width` samples) every block of new coordinates must come from an "
    "integer-count generator (np.arange over integer-valued arguments scaled by the step, or np.linspace(num=n)); "
    "np.arange with a non-integer step and a computed stop has a rounding-dependent length (documented by numpy) and is "
    "the defined bad pattern; R17.2 the closedness flags move the slice / extension ends by the right sign of eps and "
    "None means 'closed at the current end'; R17.3 the range guards reject exactly start > stop and requests outside "
    "the current range; R17.4 adjust_dim_width dispatches on the width comparison and forwards position / fill value; "
    "R17.5 the width-based crop slices have length `width` at the requested position; R17.6 the new coordinates continue "
    "the lattice on the requested side(s) with extra // 2 before and the rest after for 'center' (evaluated on the "
    "extracted generator formulas for small counts -- a finite-instance argument, labelled as such), and the fill value "
    "is forwarded to reindex. Float matching of labels in sel/reindex and lattice values in range-based extension are not decided."
    'R17.6 also requires the original coordinate array itself to be a piece of the new axis for every position (labels reused, never regenerated); R17.1 counts a generator once per position it serves. '
)
ASSUMPTIONS = ["np.arange over integers has exactly the integer count; xarray.reindex keeps data at matching labels (trusted)"]

NP = lambda n: ("ext", f"numpy.{n}")


class NE(Exception):
    pass


def neval(t, env: Dict[tuple, object]):
    """Numeric evaluation of an extracted generator formula; arrays are python lists. Raises NE when outside the fragment."""
    if t in env:
        return env[t]
    k = t[0]
    if k == "const":
        return t[1]
    if k == "neg":
        v = neval(t[1], env)
        return [-x for x in v] if isinstance(v, list) else -v
    if k == "bin":
        a, b = neval(t[2], env), neval(t[3], env)
        op = {"+": lambda x, y: x + y, "-": lambda x, y: x - y, "*": lambda x, y: x * y, "/": lambda x, y: x / y, "//": lambda x, y: x // y}.get(t[1])
        if op is None:
            raise NE(f"operator {t[1]}")
        if isinstance(a, list) and isinstance(b, list):
            if len(a) != len(b):
                raise NE("shape mismatch")
            return [op(x, y) for x, y in zip(a, b)]
        if isinstance(a, list):
            return [op(x, b) for x in a]
        if isinstance(b, list):
            return [op(a, y) for y in b]
        return op(a, b)
    if k == "call":
        f = t[1]
        kw = {n: neval(v, env) for n, v in t[3] if n != "dtype"}
        args = [neval(a, env) for a in t[2]]
        if f == NP("arange"):
            names = ["start", "stop", "step"]
            if len(args) == 1 and not kw:
                a = [0, args[0], 1]
            else:
                a = args + [None] * (3 - len(args))
                for i, n in enumerate(names):
                    if n in kw:
                        a[i] = kw[n]
                if a[2] is None:
                    a[2] = 1
                if a[1] is None:
                    a = [0, a[0], a[2]]
            if not all(isinstance(x, int) and not isinstance(x, bool) for x in a):
                if not env.get("__float_arange__"):
                    raise NE("non-integer arange")
                # numpy semantics on exactly representable (dyadic) values: ceil((stop - start) / step) elements
                import math
                n = max(0, math.ceil((a[1] - a[0]) / a[2]))
                return [a[0] + i * a[2] for i in range(n)]
            return list(range(a[0], a[1], a[2]))
        if f == NP("linspace"):
            num = kw.get("num", args[2] if len(args) > 2 else None)
            endpoint = kw.get("endpoint", True)
            if not isinstance(num, int):
                raise NE("linspace without integer num")
            a, b = args[0], args[1]
            if num == 0:
                return []
            if num == 1:
                return [a]
            d = (b - a) / ((num - 1) if endpoint else num)
            return [a + i * d for i in range(num)]
        if f == NP("concatenate"):
            out = []
            for x in args[0]:
                out += x
            return out
        if f[0] == "attr" and f[2] == "astype":
            return neval(f[1], env)
        if f in (NP("array"), NP("asarray"), ("builtin", "list")):
            return args[0]
        if f == ("builtin", "len"):
            return len(args[0])
        if f in (("builtin", "max"), ("builtin", "min"), ("builtin", "abs"), ("builtin", "int")) and not kw:
            return {"max": max, "min": min, "abs": abs, "int": int}[f[1]](*args)
        raise NE(f"call {show(f)[:30]}")
    if k == "list":
        return [neval(x, env) for x in t[1]]
    if k == "sub":
        b = neval(t[1], env)
        if t[2][0] == "slice":
            lo, hi, st = (None if x == NONE else neval(x, env) for x in t[2][1:])
            return b[slice(lo, hi, st)]
        return b[neval(t[2], env)]
    raise NE(f"term {k}")


def is_int_term(t, int_atoms) -> bool:
    if t[0] == "const":
        return isinstance(t[1], int) and not isinstance(t[1], bool)
    if t in int_atoms:
        return True
    if t[0] == "call" and t[1] == ("builtin", "len"):
        return True
    if t[0] == "call" and t[1] == ("builtin", "int"):
        return True
    if t[0] == "bin" and t[1] in ("+", "-", "*", "//", "%"):
        return is_int_term(t[2], int_atoms) and is_int_term(t[3], int_atoms)
    if t[0] == "neg":
        return is_int_term(t[1], int_atoms)
    if t[0] == "sub" and t[1][0] == "attr" and t[1][2] in ("sizes", "shape"):
        return True
    return False


class C17:
    def __init__(self, ctx: Ctx):
        self.ctx = ctx
        self.file = ctx.index.module(AOPS).relpath

    # ------------------------------------------------------------------ R17.1 + R17.6
    def check_extend_width(self):
        ctx = self.ctx
        s = ctx.summ.of_func(AOPS, "extend_dim_width")
        site = f"{self.file}:{s.node.lineno} extend_dim_width"
        arr, dim, width, fill, pos = (("param", p) for p in ("array", "dim", "width", "fill_value", "position"))
        coords = ("attr", ("sub", ("attr", arr, "coords"), dim), "data")
        step = ("call", ("global", f"{DIMS}:get_dim_step", "func"), (arr, dim), ())
        int_atoms = {width}
        # R17.1: every arange / linspace in the function
        for e in s.calls:
            f = e.term[1]
            if f == NP("arange"):
                esite = f"{self.file}:{e.lineno} extend_dim_width"
                # one instance per position the generator serves (a generator shared by two positions counts for both)
                served = [p for p in ("start", "center", "end")
                          if peval(("and", tuple(c for c in conjuncts(e.live) if pos in set(walk(c)))), {pos: p}) != ("const", False)] or [None]
                for p_ in served:
                    args = [peval(a, {pos: p_}) if p_ is not None else a for a in list(e.term[2]) + [v for n, v in e.term[3] if n != "dtype"]]
                    if all(is_int_term(a, int_atoms) for a in args):
                        ctx.ok("R17.1", esite, f"integer-count generator {show(e.term)[:70]} (position={p_!r})")
                        continue
                    which = [p_] if p_ is not None else []
                    ctx.bad("R17.1", self.file, "extend_dim_width",
                            f"np.arange with float bounds in branch position=={which[0] if which else '?'}: {show(e.term)[:90]}",
                            "new coordinates are generated by np.arange(a, a +/- n*step, +/-step) over floats: numpy documents that the "
                            "length of such a range depends on rounding (it is n or n + 1), so extend_dim_width / adjust_dim_width can "
                            "return width + 1 samples (step 0.01, 10 samples: 38 of 147 (width, position) requests)", e.lineno,
                            witness={"step": 0.01, "samples": 10, "wrong_requests": "38 of 147"})
            elif f == NP("linspace"):
                kw = callkw(e.term)
                num = kw.get("num", e.term[2][2] if len(e.term[2]) > 2 else None)
                if num is not None and is_int_term(num, int_atoms):
                    ctx.ok("R17.1", f"{self.file}:{e.lineno} extend_dim_width", "np.linspace with integer num")
                else:
                    ctx.bad("R17.1", self.file, "extend_dim_width", f"{show(e.term)[:80]}", "np.linspace without an integer count", e.lineno)
        # R17.6: placement, evaluated on the extracted formula for small counts
        re = [e for e in s.calls if e.term[1][0] == "attr" and e.term[1][2] == "reindex" and e.term[1][1] == arr]
        deleg = [e for e in s.calls if e.term[1] == ("global", f"{AOPS}:extend_dim", "func")]
        if len(re) != 1 and deleg:
            ctx.bad("R17.1", self.file, "extend_dim_width", f"{show(deleg[0].term)[:80]}",
                    "the width-based extension is delegated to the range-based extend_dim, which generates the new coordinates with "
                    "np.arange over float bounds: whether the end point of such a range is included depends on rounding, so the result "
                    "has width or width + 1 samples (steps 0.1, 0.01, 1/3, 0.7) -- the count must come from an integer generator",
                    deleg[0].lineno, witness={"step": 0.1, "observed": "width + 1 samples"})
            return
        if len(re) > 1:
            # one reindex per position: whatever the placement, every one of them fills with the caller's value
            for e_ in re:
                if callkw(e_.term).get("fill_value") != fill:
                    ctx.bad("R17.6", self.file, "extend_dim_width", f"reindex(fill_value={show(callkw(e_.term).get('fill_value', NONE))}) under {show(e_.live)[-50:]}",
                            "new samples must be filled with the caller's fill_value on every path (this reindex does not receive it)", e_.lineno)
        newc_by_pos = None
        if len(re) > 1:
            # one reindex per position (guard clauses with early returns): the new axis as a function of the position
            by = {}
            for position in ("start", "center", "end"):
                livep = [e_ for e_ in re if peval(e_.live, {pos: position}) != ("const", False)]
                idx_ = livep[0].term[2][0] if len(livep) == 1 and livep[0].term[2] else None
                if idx_ is None or not (idx_[0] == "dict" and len(idx_[1]) == 1 and idx_[1][0][0] == dim):
                    by = None
                    break
                by[position] = idx_[1][0][1]
            if by is not None:
                newc_by_pos = ("ite", ("cmp", "eq", pos, ("const", "start")), by["start"], ("ite", ("cmp", "eq", pos, ("const", "end")), by["end"], by["center"]))
        if len(re) != 1 and newc_by_pos is None:
            ctx.undec("R17.6", site, "array.reindex(...) not found" if not re else f"{len(re)} reindex calls (one per position): the placement is not read in this form")
            return
        rk = callkw(re[0].term)
        if rk.get("fill_value") == fill:
            ctx.ok("R17.6", f"{self.file}:{re[0].lineno} extend_dim_width", "fill_value forwarded to reindex")
        else:
            ctx.bad("R17.6", self.file, "extend_dim_width", f"reindex(fill_value={show(rk.get('fill_value', NONE))})",
                    "new samples must be filled with the caller's fill_value", re[0].lineno)
        idx = re[0].term[2][0] if re[0].term[2] else None
        newc = None
        if idx is not None and idx[0] == "dict" and len(idx[1]) == 1 and idx[1][0][0] == dim:
            newc = idx[1][0][1]
        if newc_by_pos is not None:
            newc = newc_by_pos
        if newc is None:
            ctx.undec("R17.6", site, "reindex target is not {dim: coords}")
            return
        # the original labels must be reused verbatim: reindex matches labels exactly, a regenerated label that differs in the
        # last bit turns the original sample into the fill value
        reused = True
        for position in ("start", "center", "end"):
            t = peval(newc, {pos: position})
            pieces = None
            if t[0] == "call" and t[1] in (NP("concatenate"), NP("hstack"), NP("append"), NP("r_")) and t[2]:
                pieces = t[2][0][1] if t[2][0][0] in ("list", "tuple") and t[1] != NP("append") else t[2]
            if pieces is None or sum(1 for x in pieces if x == coords) != 1:
                reused = False
                ctx.bad("R17.6", self.file, "extend_dim_width", f"position={position!r}: new axis = {show(t)[:70]}",
                        f"position={position!r}: the new axis is `{show(t)[:110]}`, which does not contain the original coordinate array "
                        f"itself: the labels of the existing samples are regenerated instead of reused, and reindex (exact label "
                        f"match) replaces every sample whose regenerated label differs in the last bit by the fill value",
                        re[0].lineno, witness={"axis": "0.1 * arange(10) + 0.3", "effect": "original samples become fill_value"})
                break
        if reused:
            ctx.ok("R17.6", site, "the original coordinate array is one piece of the new axis for every position (labels reused, not regenerated)")
        cur = [10.0, 10.25, 10.5, 10.75]
        n_cases = 0
        floaty = False
        for position in ("start", "center", "end"):
            for extra in (1, 2, 3, 5):
                env_p = {pos: position}
                t = peval(newc, env_p)
                env = {coords: cur, step: 0.25, width: len(cur) + extra,
                       ("attr", coords, "dtype"): "float64", ("sub", coords, ("const", 0)): cur[0], ("sub", coords, ("const", -1)): cur[-1]}
                try:
                    got = neval(t, env)
                except NE as ex:
                    if "non-integer arange" in str(ex):
                        floaty = True
                        continue
                    ctx.undec("R17.6", site, f"coordinate formula outside the recognised fragment ({ex}) for position={position!r}")
                    return
                before = extra // 2 if position == "center" else (extra if position == "end" else 0)
                after = extra - before
                want = [cur[0] - 0.25 * k for k in range(before, 0, -1)] + cur + [cur[-1] + 0.25 * k for k in range(1, after + 1)]
                n_cases += 1
                if not (isinstance(got, list) and len(got) == len(want) and all(abs(a - b) < 1e-9 for a, b in zip(got, want))):
                    ctx.bad("R17.6", self.file, "extend_dim_width", f"position={position!r}: new axis for {extra} extra samples",
                            f"position={position!r}, {extra} extra samples on the axis [10, 10.25, 10.5, 10.75]: the extracted coordinate "
                            f"formula gives {got if not isinstance(got, list) or len(got) < 12 else str(got[:12]) + '...'} but the "
                            f"original data must stay at the {'start' if position == 'start' else ('end' if position == 'end' else 'centre')} "
                            f"with the lattice continued: {want}", re[0].lineno, witness={"position": position, "extra": extra})
                    return
        if n_cases:
            ctx.ok("R17.6", site, f"lattice continued on the requested side(s), extra//2 before for 'center' ({n_cases} small instances of the extracted formulas; finite-instance argument)")
        elif floaty:
            ctx.note("R17.6 placement not evaluated: the generators are float aranges (reported by R17.1)")
            ctx.ok("R17.6", site, "placement deferred: generators rejected by R17.1")
        # invalid position raises
        rej = [r for r in s.raises if peval(r.live, {pos: "bogus", ("cmp", "le", width, ("call", ("builtin", "len"), (coords,), ())): False,
                                                    ("cmp", "lt", ("call", ("builtin", "len"), (coords,), ()), width): True}) == ("const", True)]
        if rej:
            ctx.ok("R17.6", site, "unknown position rejected")
        else:
            ctx.bad("R17.6", self.file, "extend_dim_width", "unknown position", "an unknown position is not rejected", s.node.lineno)

    # ------------------------------------------------------------------ R17.2 / R17.3
    def check_crop_dim(self):
        ctx = self.ctx
        s = ctx.summ.of_func(AOPS, "crop_dim")
        site = f"{self.file}:{s.node.lineno} crop_dim"
        arr, dim, start, stop, rc, lc, eps = (("param", p) for p in ("arr", "dim", "start", "stop", "right_closed", "left_closed", "eps"))
        rng = ("call", ("global", f"{DIMS}:get_dim_range", "func"), (arr, dim), ())
        cs, ce = ("sub", rng, ("const", 0)), ("sub", rng, ("const", 1))
        sel = [e for e in s.calls if e.term[1] == ("attr", arr, "sel")]
        if len(sel) != 1:
            ctx.undec("R17.2", site, "arr.sel(...) not found")
            return
        a0 = sel[0].term[2][0] if sel[0].term[2] else None
        sl = a0[1][0][1] if a0 is not None and a0[0] == "dict" and len(a0[1]) == 1 and a0[1][0][0] == dim else None
        if sl is None or not (sl[0] == "slice" and sl[3] == NONE):
            ctx.undec("R17.2", site, "selection is not {dim: slice(a, b)}")
            return
        lo, hi = sl[1], sl[2]
        bad = None
        n = 0
        for s_given, e_given, rcv, lcv in itertools.product((True, False), (True, False), (True, False), (True, False)):
            env = {("cmp", "is", start, NONE): not s_given, ("cmp", "isnot", start, NONE): s_given,
                   ("cmp", "is", stop, NONE): not e_given, ("cmp", "isnot", stop, NONE): e_given, rc: rcv, lc: lcv}
            glo, ghi = peval(lo, env), peval(hi, env)
            base_lo = start if s_given else cs
            base_hi = stop if e_given else ce
            want_lo = base_lo if (lcv or not s_given) else ("bin", "+", base_lo, eps)
            want_hi = base_hi if (rcv or not e_given) else ("bin", "-", base_hi, eps)
            n += 1
            if canon(glo) != canon(want_lo) or canon(ghi) != canon(want_hi):
                bad = (s_given, e_given, rcv, lcv, glo, ghi, want_lo, want_hi)
                break
        if bad is None:
            ctx.ok("R17.2", site, f"slice ends: start (+eps iff open), stop (-eps iff open), None = closed at the current end ({n} flag cases)")
        else:
            s_given, e_given, rcv, lcv, glo, ghi, wl, wh = bad
            ctx.bad("R17.2", self.file, "crop_dim", f"slice({show(glo)[:40]}, {show(ghi)[:40]}) for right_closed={rcv}, left_closed={lcv}",
                    f"with start {'given' if s_given else 'None'}, stop {'given' if e_given else 'None'}, right_closed={rcv}, left_closed={lcv} "
                    f"the selection is slice({show(glo)[:50]}, {show(ghi)[:50]}) but must be slice({show(wl)[:50]}, {show(wh)[:50]}): an open "
                    f"end must exclude its boundary sample, a closed one must keep it", sel[0].lineno,
                    witness={"start_given": s_given, "stop_given": e_given, "right_closed": rcv, "left_closed": lcv})
        # every path returns that selection; returning the input itself is the same only when the request is the whole axis with
        # both given ends closed
        for r in s.returns:
            if r.term == sel[0].term or r.term == ("yieldval",):
                continue
            if r.term != arr:
                ctx.undec("R17.2", site, f"crop_dim returns {show(r.term)[:60]}, not the selection")
                continue
            worst = None
            for s_given, e_given, rcv, lcv, seq, eeq in itertools.product((True, False), repeat=6):
                env = {("cmp", "is", start, NONE): not s_given, ("cmp", "isnot", start, NONE): s_given,
                       ("cmp", "is", stop, NONE): not e_given, ("cmp", "isnot", stop, NONE): e_given, rc: rcv, lc: lcv,
                       ("cmp", "eq", start, cs): seq, ("cmp", "eq", cs, start): seq, ("cmp", "ne", start, cs): not seq, ("cmp", "ne", cs, start): not seq,
                       ("cmp", "eq", stop, ce): eeq, ("cmp", "eq", ce, stop): eeq, ("cmp", "ne", stop, ce): not eeq, ("cmp", "ne", ce, stop): not eeq}
                lv = peval(r.live, env)
                whole = (not s_given or (seq and lcv)) and (not e_given or (eeq and rcv))
                if lv != ("const", False) and not whole:
                    worst = (s_given, e_given, rcv, lcv, seq, eeq, lv)
                    break
            if worst is None:
                ctx.ok("R17.2", site, "the input is returned unchanged only for the whole axis with closed ends")
            else:
                s_given, e_given, rcv, lcv, seq, eeq, lv = worst
                ctx.bad("R17.2", self.file, "crop_dim", f"return {show(r.term)} if {show(r.live)[:60]}",
                        f"crop_dim returns its input unchanged under `{show(r.live)[:80]}`, which {'holds' if lv == ('const', True) else 'can hold'} for start "
                        f"{'given' if s_given else 'None'}{' (= current start)' if s_given and seq else ''}, stop {'given' if e_given else 'None'}"
                        f"{' (= current stop)' if e_given and eeq else ''}, left_closed={lcv}, right_closed={rcv}: an open end given explicitly must drop "
                        f"its boundary sample, and a request inside the axis must drop the samples outside it", r.lineno,
                        witness={"start_given": s_given, "stop_given": e_given, "start_is_current": seq, "stop_is_current": eeq,
                                 "left_closed": lcv, "right_closed": rcv})
        # R17.3 guards
        bad = None
        n = 0
        base_env = {("cmp", "is", start, NONE): False, ("cmp", "isnot", start, NONE): True, ("cmp", "is", stop, NONE): False, ("cmp", "isnot", stop, NONE): True}
        for sv, ev in itertools.product((-1.0, 0.0, 0.5, 1.0, 2.0), repeat=2):
            env = dict(base_env)
            env.update({start: sv, stop: ev, cs: 0.0, ce: 1.0})
            rej = False
            for r in s.raises:
                lv = peval(r.live, env)
                if lv[0] != "const":
                    ctx.undec("R17.3", site, f"guard outside the recognised fragment: {show(lv)[:70]}")
                    return
                rej = rej or bool(lv[1])
            want = sv > ev or sv < 0.0 or ev > 1.0
            n += 1
            if rej != want:
                bad = (sv, ev, rej)
        if bad is None:
            ctx.ok("R17.3", site, f"raise iff start > stop or the request leaves the current range ({n} cases incl. the edges)")
        else:
            ctx.bad("R17.3", self.file, "crop_dim", "range guards",
                    f"axis range [0, 1]: the request start={bad[0]}, stop={bad[1]} is {'rejected' if bad[2] else 'accepted'} "
                    f"(reject iff start > stop, start < current start or stop > current stop; the edges themselves are valid)",
                    s.node.lineno, witness={"start": bad[0], "stop": bad[1]})
        # extend_dim eps signs
        es = ctx.summ.of_func(AOPS, "extend_dim")
        esite = f"{self.file}:{es.node.lineno} extend_dim"
        start, stop, eps, lc, rc = (("param", p) for p in ("start", "stop", "eps", "left_closed", "right_closed"))
        att = [e for e in es.calls if e.term[1][0] == "attr" and e.term[1][2] == "update"]
        kw = callkw(att[-1].term) if att else {}
        ok = True
        for lcv, rcv in itertools.product((True, False), repeat=2):
            env = {("cmp", "is", start, NONE): False, ("cmp", "isnot", start, NONE): True, ("cmp", "is", stop, NONE): False,
                   ("cmp", "isnot", stop, NONE): True, lc: lcv, rc: rcv}
            gs, ge = peval(kw.get("start", NONE), env), peval(kw.get("stop", NONE), env)
            ws = ("bin", "-", start, eps) if lcv else start
            we = ("bin", "+", stop, eps) if rcv else stop
            if canon(gs) != canon(ws) or canon(ge) != canon(we):
                ok = False
                ctx.bad("R17.2", self.file, "extend_dim", f"left_closed={lcv}, right_closed={rcv}: [{show(gs)[:30]}, {show(ge)[:30]}]",
                        f"extend_dim: a closed end must move outwards by eps (start - eps / stop + eps) and an open end must not move; "
                        f"found start={show(gs)[:40]}, stop={show(ge)[:40]}", es.node.lineno)
                break
        if ok:
            ctx.ok("R17.2", esite, "extension ends: start - eps iff left-closed, stop + eps iff right-closed")

    # ------------------------------------------------------------------ R17.6 (range-based extension)
    def check_extend_dim(self):
        ctx = self.ctx
        s = ctx.summ.of_func(AOPS, "extend_dim")
        site = f"{self.file}:{s.node.lineno} extend_dim"
        arr, dim, start, stop, fill, eps, lc, rc = (("param", p) for p in ("arr", "dim", "start", "stop", "fill_value", "eps", "left_closed", "right_closed"))
        re = [e for e in s.calls if e.term[1][0] == "attr" and e.term[1][2] == "reindex" and e.term[1][1] == arr]
        if len(re) != 1:
            ctx.undec("R17.6", site, "arr.reindex(...) not found")
            return
        rk = callkw(re[0].term)
        idx = re[0].term[2][0] if re[0].term[2] else None
        newc = idx[1][0][1] if idx is not None and idx[0] == "dict" and len(idx[1]) == 1 and idx[1][0][0] == dim else None
        if newc is None or rk.get("fill_value") != fill:
            ctx.bad("R17.6", self.file, "extend_dim", f"reindex({show(idx)[:40] if idx else '-'}, fill_value={show(rk.get('fill_value', NONE))})",
                    "extend_dim must reindex {dim: extended coordinates} with the caller's fill_value", re[0].lineno)
            return
        coord = ("sub", ("attr", arr, "coords"), dim)
        data = ("attr", coord, "data")
        rng = ("call", ("global", f"{DIMS}:get_dim_range", "func"), (arr, dim), ())
        step = ("call", ("global", f"{DIMS}:get_dim_step", "func"), (arr, dim), ())
        cur = [10.0, 10.25, 10.5, 10.75]
        lat = [8.0 + 0.25 * k for k in range(0, 24)]
        n = 0
        E = 2.0 ** -10
        from sa.peval import truth as _truth
        for S_, T_, want_rej in ((9.5, 11.3, False), (10.0, 10.75, False), (8.9, 12.1, False), (12.0, 9.0, True)):
            envg = {("cmp", "is", start, NONE): False, ("cmp", "isnot", start, NONE): True, ("cmp", "is", stop, NONE): False,
                    ("cmp", "isnot", stop, NONE): True, start: S_, stop: T_, eps: E, lc: True, rc: False,
                    ("sub", rng, ("const", 0)): cur[0], ("sub", rng, ("const", 1)): cur[-1], step: 0.25}
            rej = [_truth(peval(r_.live, envg)) for r_ in s.raises]
            if None in rej:
                ctx.undec("R17.3", site, "extend_dim: a rejection outside the recognised fragment")
                break
            if any(rej) != want_rej:
                ctx.bad("R17.3", self.file, "extend_dim", f"request start={S_}, stop={T_}",
                        f"extend_dim on the axis [10, 10.75]: the request start={S_}, stop={T_} is {'rejected' if any(rej) else 'accepted'} "
                        f"(a request that contains the axis is valid; only start > stop is rejected)", s.node.lineno, witness={"start": S_, "stop": T_})
                break
        else:
            ctx.ok("R17.3", site, "extend_dim: requests containing the axis are accepted, start > stop is rejected")
        for S, T, lcv, rcv in itertools.product((10.0, 9.75, 9.5, 9.4, 8.9), (10.75, 11.0, 11.25, 11.3, 12.1), (True, False), (True, False)):
            env0 = {("cmp", "is", start, NONE): False, ("cmp", "isnot", start, NONE): True, ("cmp", "is", stop, NONE): False,
                    ("cmp", "isnot", stop, NONE): True, lc: lcv, rc: rcv, start: S, stop: T, eps: E,
                    ("sub", rng, ("const", 0)): cur[0], ("sub", rng, ("const", 1)): cur[-1], step: 0.25,
                    ("sub", data, ("const", -1)): cur[-1], ("sub", data, ("const", 0)): cur[0]}
            t = peval(newc, env0)
            env = {data: cur, ("attr", coord, "dtype"): "f8", ("attr", data, "dtype"): "f8", "__float_arange__": True, step: 0.25, eps: E, start: S, stop: T,
                   ("sub", rng, ("const", 0)): cur[0], ("sub", rng, ("const", 1)): cur[-1]}
            try:
                got = neval(t, env)
            except NE as ex:
                ctx.undec("R17.6", site, f"extension formula outside the recognised fragment ({ex})")
                return
            want = sorted(set(cur) | {p for p in lat if (p >= S if lcv else p > S) and (p <= T if rcv else p < T)})
            n += 1
            if not (isinstance(got, list) and len(got) == len(want) and all(abs(a - b) < 1e-9 for a, b in zip(got, want))):
                ctx.bad("R17.6", self.file, "extend_dim", f"extend [{S}, {T}] left_closed={lcv} right_closed={rcv}",
                        f"axis [10, 10.25, 10.5, 10.75] (step 0.25) extended to [{S}, {T}] with left_closed={lcv}, right_closed={rcv}: the "
                        f"extracted coordinate formula gives {got if not isinstance(got, list) or len(got) < 14 else str(got[:14]) + '...'} but the "
                        f"axis must consist of exactly the lattice points inside the requested interval, in increasing order: {want}",
                        re[0].lineno, witness={"start": S, "stop": T, "left_closed": lcv, "right_closed": rcv})
                return
        # "keeping every original sample at its original coordinate": reindex matches coordinates bit for bit, so on a lattice whose
        # step is not a binary fraction the original coordinates must come through unchanged (an axis that is generated afresh
        # from a new origin differs from them in the last bits, and every original sample is replaced by the fill value)
        cur2 = [0.3 + 0.1 * k for k in range(5)]
        kept_all = True
        for S, T in ((0.04, 0.93), (0.3, 0.93), (0.04, 0.7), (-0.27, 1.26)):
            env0 = {("cmp", "is", start, NONE): False, ("cmp", "isnot", start, NONE): True, ("cmp", "is", stop, NONE): False,
                    ("cmp", "isnot", stop, NONE): True, lc: True, rc: False, start: S, stop: T, eps: E,
                    ("sub", rng, ("const", 0)): cur2[0], ("sub", rng, ("const", 1)): cur2[-1], step: 0.1,
                    ("sub", data, ("const", -1)): cur2[-1], ("sub", data, ("const", 0)): cur2[0]}
            t = peval(newc, env0)
            env = {data: cur2, ("attr", coord, "dtype"): "f8", ("attr", data, "dtype"): "f8", "__float_arange__": True, step: 0.1, eps: E, start: S, stop: T,
                   ("sub", rng, ("const", 0)): cur2[0], ("sub", rng, ("const", 1)): cur2[-1]}
            try:
                got2 = neval(t, env)
            except NE:
                got2 = None
            if isinstance(got2, list) and not all(c_ in got2 for c_ in cur2):
                lost = [c_ for c_ in cur2 if c_ not in got2]
                ctx.bad("R17.6", self.file, "extend_dim", f"extend [{S}, {T}] of an axis with step 0.1",
                        f"axis {cur2} (step 0.1) extended to [{S}, {T}): {len(lost)} of the original coordinates are not among the new ones bit for "
                        f"bit (e.g. {lost[0]!r}): reindex then finds no data for them and fills them with the fill value -- the original "
                        f"coordinates must be kept as they are and only the continuation generated", re[0].lineno,
                        witness={"start": S, "stop": T, "lost": lost[:3]})
                kept_all = False
                break
        if kept_all:
            ctx.ok("R17.6", site, f"range-based extension yields exactly the lattice points inside the requested interval, in order ({n} dyadic instances of the extracted formulas; finite-instance argument); original coordinates kept bit for bit on a 0.1 lattice")

    # ------------------------------------------------------------------ R17.4 / R17.5
    def check_width_ops(self):
        ctx = self.ctx
        s = ctx.summ.of_func(AOPS, "adjust_dim_width")
        site = f"{self.file}:{s.node.lineno} adjust_dim_width"
        arr, dim, width, fill, pos = (("param", p) for p in ("array", "dim", "width", "fill_value", "position"))
        cur = ("sub", ("attr", arr, "sizes"), dim)
        crop = ctx.summ.of_func(AOPS, "crop_dim_width")
        ext = ctx.summ.of_func(AOPS, "extend_dim_width")
        bad = None
        for wv in (0, 1, 3, 4, 5):
            env = {width: wv, cur: 4}
            outs = []
            for e in s.returns + s.raises:
                lv = peval(e.live, env)
                if lv == ("const", True):
                    outs.append(e)
                elif lv[0] != "const":
                    ctx.undec("R17.4", site, f"dispatch condition outside the recognised fragment: {show(lv)[:60]}")
                    return
            if len(outs) != 1:
                bad = (wv, f"{len(outs)} outcomes")
                break
            e = outs[0]
            if wv < 1:
                good = e.kind == "raise"
            elif wv == 4:
                good = e.kind == "return" and e.term == arr
            elif wv < 4:
                b = bind_args(e.term, crop.params)[0] if e.kind == "return" and e.term[0] == "call" and e.term[1] == ("global", f"{AOPS}:crop_dim_width", "func") else None
                good = b is not None and b.get("array") == arr and b.get("dim") == dim and b.get("width") == width and b.get("position") == pos
            else:
                b = bind_args(e.term, ext.params)[0] if e.kind == "return" and e.term[0] == "call" and e.term[1] == ("global", f"{AOPS}:extend_dim_width", "func") else None
                good = b is not None and b.get("array") == arr and b.get("dim") == dim and b.get("width") == width and b.get("position") == pos \
                    and b.get("fill_value") == fill
            if not good:
                bad = (wv, f"{e.kind} {show(e.term)[:60]}")
                break
        if bad is None:
            ctx.ok("R17.4", site, "width < 1 raises; == current identity; < current -> crop_dim_width; > current -> extend_dim_width (position, fill forwarded)")
        else:
            ctx.bad("R17.4", self.file, "adjust_dim_width", f"width {bad[0]} on an axis of 4 samples",
                    f"requesting width {bad[0]} on an axis of 4 samples gives {bad[1]} (specification: < 1 rejected, equal -> unchanged, "
                    f"smaller -> crop_dim_width, larger -> extend_dim_width, with position and fill_value forwarded)", s.node.lineno,
                    witness={"width": bad[0], "current": 4})
        # R17.5 crop slices
        s = crop
        site = f"{self.file}:{s.node.lineno} crop_dim_width"
        data = ("attr", ("sub", ("attr", arr, "coords"), dim), "data")
        sel = [e for e in s.calls if e.term[1] == ("attr", arr, "sel")]
        cterm = None
        if len(sel) > 1:
            # one selection per position (guard clauses with early returns): the selected coordinates as a function of the position
            by = {}
            for position in ("start", "center", "end"):
                livep = [e_ for e_ in sel if peval(e_.live, {pos: position}) != ("const", False)]
                a_ = livep[0].term[2][0] if len(livep) == 1 and livep[0].term[2] else None
                if a_ is None or not (a_[0] == "dict" and len(a_[1]) == 1 and a_[1][0][0] == dim):
                    by = None
                    break
                by[position] = a_[1][0][1]
            if by is not None:
                cterm = ("ite", ("cmp", "eq", pos, ("const", "start")), by["start"], ("ite", ("cmp", "eq", pos, ("const", "end")), by["end"], by["center"]))
        if len(sel) != 1 and cterm is None:
            ctx.undec("R17.5", site, "array.sel(...) not found")
            return
        a0 = sel[0].term[2][0]
        if cterm is None:
            cterm = a0[1][0][1] if a0[0] == "dict" and len(a0[1]) == 1 and a0[1][0][0] == dim else None
        if cterm is None:
            ctx.undec("R17.5", site, "selection is not {dim: coords}")
            return
        size = 7
        axis = list(range(100, 100 + size))
        n = 0
        # a valid request (1 <= width < current width, a known position) is not rejected
        from sa.peval import truth as _truth
        for position in ("start", "center", "end"):
            for w in (1, 3, 6):
                for r_ in s.raises:
                    lv_ = _truth(peval(r_.live, {pos: position, width: w, cur: size}))
                    if lv_ is True:
                        ctx.bad("R17.5", self.file, "crop_dim_width", f"raise under `{show(r_.live)[:60]}`",
                                f"cropping an axis of {size} samples to width {w} at {position!r} is rejected (`{show(r_.live)[:80]}` holds): "
                                f"every valid request raises", r_.lineno, witness={"position": position, "width": w, "size": size})
                        return
                    if lv_ is None:
                        ctx.undec("R17.5", site, f"cannot decide the rejection `{show(r_.live)[:70]}` for width {w} of {size}")
                        return
        for position in ("start", "center", "end"):
            for w in (1, 2, 3, 6):
                t = peval(cterm, {pos: position})
                try:
                    got = neval(peval(t, {width: w, cur: size}), {data: axis, width: w, cur: size})
                except (NE, Exception) as ex:  # noqa: BLE001
                    ctx.undec("R17.5", site, f"slice formula outside the recognised fragment ({ex})")
                    return
                if position == "start":
                    want = axis[:w]
                elif position == "end":
                    want = axis[-w:]
                else:
                    st = max(0, size // 2 - w // 2)
                    want = axis[st:st + w]
                n += 1
                if got != want:
                    ctx.bad("R17.5", self.file, "crop_dim_width", f"position={position!r}, width={w}",
                            f"cropping an axis of {size} samples to width {w} at {position!r} selects positions "
                            f"{[x - 100 for x in got] if isinstance(got, list) else got} instead of {[x - 100 for x in want]}", sel[0].lineno,
                            witness={"position": position, "width": w, "size": size})
                    return
        ctx.ok("R17.5", site, f"slices [:width], [-width:], [s:s+width] select exactly `width` samples at the requested position ({n} instances of the extracted slice formulas)")


def check_dim_step(ctx: Ctx):
    """R17.7: the step every width/range operation uses is the recorded attribute, or the mean spacing of the axis."""
    s = ctx.summ.of_func(DIMS, "get_dim_step")
    file = s.module.relpath
    site = f"{file}:{s.node.lineno} get_dim_step"
    # `try: return attrs[key] except KeyError: ...` is the membership test written as an exception
    from sa.memo import membership_view
    s = membership_view(s)
    arr, dim = ("param", s.params[0]), ("param", s.params[1])
    coord = ("sub", ("attr", arr, "coords"), dim)
    attrs = ("attr", coord, "attrs")
    key = ("attr", ("attr", ("global", "soundevent.arrays.attributes:DimAttrs", "class"), "step"), "value")
    has = ("cmp", "in", key, attrs)
    r_attr = [r for r in s.returns if r.term == ("sub", attrs, key) and has in conjuncts(r.live)]
    est = ("global", f"{DIMS}:estimate_dim_step", "func")
    r_est = [r for r in s.returns if r.term[0] == "call" and r.term[1] == est]
    es = ctx.summ.of_func(DIMS, "estimate_dim_step")
    good = len(r_attr) == 1 and len(r_est) == 1 and len(s.returns) == 2
    if good:
        b, _, _, _ = bind_args(r_est[0].term, es.params)
        good = b.get(es.params[0]) == ("attr", coord, "data") and all(b.get(k) == ("param", k) for k in ("rtol", "atol", "check_tolerance")) \
            and ("cmp", "notin", key, attrs) in conjuncts(r_est[0].live)
    rej = [r for r in s.raises if ("not", ("param", "estimate_step")) in conjuncts(r.live) or NOT(("param", "estimate_step")) in conjuncts(r.live)]
    # a recorded step is returned unconditionally: nothing may be raised, and nothing else required, while the attribute is there
    early = [r for r in s.raises if ("cmp", "notin", key, attrs) not in conjuncts(r.live)]
    extra = [c for r in r_attr for c in conjuncts(r.live) if c != has]
    if good and (early or extra):
        what = early[0] if early else r_attr[0]
        ctx.bad("R17.7", file, "get_dim_step", f"{'raise' if early else 'return'} under {show(what.live)[:70]}",
                f"get_dim_step {'raises' if early else 'returns the recorded step only'} under `{show(what.live)[:90]}` although the axis records its "
                f"step: an axis of one sample with a declared step (create_range_dim produces them) can no longer be extended or adjusted",
                what.lineno)
    elif good and rej:
        ctx.ok("R17.7", site, "step = the recorded attribute when present, else the estimate over the axis data (tolerances forwarded); no estimate -> error")
    else:
        ctx.bad("R17.7", file, "get_dim_step", "step from attribute or estimate",
                f"get_dim_step must return attrs['step'] when recorded and otherwise estimate_dim_step(coord.data, rtol, atol, check_tolerance) "
                f"(raising when estimation is disabled): {[(show(r.live)[:40], show(r.term)[:50]) for r in s.returns]}", s.node.lineno)
    d = ("param", es.params[0])
    diff = ("call", ("ext", "numpy.diff"), (d,), ())
    want = [("call", ("attr", diff, "mean"), (), ()), ("call", ("ext", "numpy.mean"), (diff,), ())]
    ok = bool(es.returns) and all(r.term in want for r in es.returns)
    esite = f"{file}:{es.node.lineno} estimate_dim_step"
    if ok:
        ctx.ok("R17.7", esite, "estimated step = mean of the consecutive differences of the axis")
    else:
        ctx.bad("R17.7", file, "estimate_dim_step", f"return {show(es.returns[0].term)[:60] if es.returns else '-'}",
                "the estimated step must be the mean of np.diff(axis)", es.node.lineno)


def run(ctx: Ctx):
    ctx.rule("R17.7", "axis step: recorded attribute, else mean spacing", 2)
    ctx.rule("R17.1", "new coordinates come from integer-count generators", 4)
    ctx.rule("R17.2", "closedness flags move the ends by the right sign of eps", 2)
    ctx.rule("R17.3", "range guards exact", 1)
    ctx.rule("R17.4", "adjust_dim_width dispatch and forwarding", 1)
    ctx.rule("R17.5", "width-based crop slices", 1)
    ctx.rule("R17.6", "placement of the original data, lattice continuation, fill value", 5)
    c = C17(ctx)
    c.check_extend_width()
    c.check_extend_dim()
    c.check_crop_dim()
    c.check_width_ops()
    check_dim_step(ctx)
    # crop_dim / extend_dim compare the requested interval with get_dim_range (anchored file arrays/dimensions.py):
    # that it is the extent of the actual coordinates is a necessary condition
    from .c16 import C16
    with ctx.delegated("C16/"):
        ctx.rule("R16.2", "get_dim_range = (min, max) of the dimension's index", 1)
        C16(ctx).check_dim_range()
    return EXPLANATION, ASSUMPTIONS


def thorough(ctx: Ctx):
    """Package-wide sweep of the R17.1 pattern (np.arange over non-integer arguments); NOTE lines only --
    outside extend_dim_width the property states no exact-count contract, range-based generation is inherent."""
    import ast
    n = 0
    for mod in ctx.index.modules.values():
        for name, defs in mod.defs.items():
            for d in defs:
                if not isinstance(d, ast.FunctionDef):
                    continue
                s = ctx.summ.of_func(mod.name, name)
                for e in s.calls:
                    if e.term[1] == NP("arange"):
                        args = list(e.term[2]) + [v for k, v in e.term[3] if k != "dtype"]
                        if not all(is_int_term(a, {("param", "width"), ("param", "size")}) for a in args):
                            n += 1
                            ctx.note(f"sweep R17.1: float np.arange in {mod.relpath}:{e.lineno} {name} ({show(e.term)[:60]})")
    ctx.extra["float_arange_sites_package_wide"] = n
