"""C09 -- evaluation metrics are what their terms say, in all four tasks (R09.1 - R09.5)."""

from __future__ import annotations

import ast
from typing import Dict, List, Optional, Tuple

from sa.canon import canon
from sa.index import AnalysisError
from sa.report import Ctx
from sa.sym import PINNED, callkw, FALSE, NONE, NOT, Summary, bind_args, conjuncts, show, subst, walk

TASKS = "soundevent.evaluation.tasks"
MET = "soundevent.evaluation.metrics"
TERMS = "soundevent.terms.metrics"
ENC = "soundevent.evaluation.encoding"
TASK_MODS = ["clip_classification", "clip_multilabel_classification", "sound_event_classification", "sound_event_detection"]
TABLES = ["SOUNDEVENT_METRICS", "EXAMPLE_METRICS", "RUN_METRICS"]

# term <-> metric function agreement, one reason per row
AGREE = {
    "true_class_probability": "true_class_probability",  # same name
    "balanced_accuracy": "balanced_accuracy",  # same name
    "accuracy": "accuracy",  # same name
    "top_3_accuracy": "top_3_accuracy",  # same name
    "jaccard_index": "jaccard",  # the Jaccard index is computed by metrics.jaccard
    "average_precision": "average_precision",  # same name
    "mean_average_precision": "mean_average_precision",  # same name
}

EXPLANATION = (
    "Static decision of the structural clauses of the metric bookkeeping: R09.1 every (term, function) row of the 10 "
    "metric tables pairs a term with the function it names and no table repeats a term; R09.2 the metric terms have "
    "pairwise distinct labels (AOEF stores metrics keyed by label) and names; R09.3 each wrapper delegates to the "
    "scikit-learn function its name says with the 'none' class handling of the accuracy family (None -> num_classes, "
    "extra column 1 - sum) as sibling-checked canonical terms, average='samples'/'micro'/'macro', k=3, and the same mask "
    "on both arrays in mean_average_precision; R09.4 every mean over a filtered selection is guarded against emptiness; "
    "R09.5 each task builds its metric lists from its own tables over (truth, scores), attaches them at the right level "
    "and labels itself with its own name. Metric values against independent formulas and order independence are "
    "scikit-learn's / numerical and are not decided."
    "R09.6 the lists that make up a task function's result (per-item objects, truth rows, score rows) receive their entries in the same loops under the same conditions. "
)
ASSUMPTIONS = ["scikit-learn's accuracy_score, balanced_accuracy_score, top_k_accuracy_score, jaccard_score, average_precision_score compute what they document (trusted)"]


def lift_forms(p):
    """the spellings of "a vector as a one-row matrix"""
    sl = ("slice", ("const", None), ("const", None), ("const", None))
    return {("sub", p, ("tuple", (("ext", "numpy.newaxis"), sl))), ("sub", p, ("tuple", (("const", None), sl))),
            ("sub", p, ("ext", "numpy.newaxis")), ("sub", p, ("const", None)),
            ("call", ("ext", "numpy.atleast_2d"), (p,), ()), ("call", ("ext", "numpy.expand_dims"), (p, ("const", 0)), ()),
            ("call", ("ext", "numpy.expand_dims"), (p,), (("axis", ("const", 0)),)),
            ("call", ("attr", p, "reshape"), (("const", 1), ("const", -1)), ())}


def G(mod, name, kind="func"):
    return ("global", f"{mod}:{name}", kind)


_ROW_WRAPPERS = (("builtin", "list"), ("builtin", "tuple"), ("ext", "numpy.array"), ("ext", "numpy.asarray"), ("ext", "numpy.stack"), ("ext", "numpy.vstack"))


class C09:
    def __init__(self, ctx: Ctx):
        self.ctx = ctx

    # ------------------------------------------------------------------ R09.1
    def tables(self):
        ctx = self.ctx
        for tm in TASK_MODS:
            modname = f"{TASKS}.{tm}"
            m = ctx.index.module(modname)
            for tab in TABLES:
                if tab not in m.defs:
                    continue
                _, node = ctx.index.need_assign(modname, tab)
                rm = m  # the module whose names the rows are written in
                for _ in range(4):  # a table bound to a shared table of another module (`RUN_METRICS = common.ACCURACY_METRICS`)
                    if not isinstance(node, (ast.Name, ast.Attribute)):
                        break
                    sy_ = ctx.index.resolve_expr(rm, node)
                    if sy_ is None or sy_.kind != "assign" or sy_.module is None or getattr(sy_.node, "value", None) is None:
                        break
                    rm, node = sy_.module, sy_.node.value
                if isinstance(node, ast.BinOp) and isinstance(node.op, ast.Add) and all(isinstance(x, (ast.Tuple, ast.List)) for x in (node.left, node.right)):
                    node = ast.copy_location(ast.Tuple(elts=list(node.left.elts) + list(node.right.elts), ctx=ast.Load()), node)
                if not isinstance(node, (ast.Tuple, ast.List)):
                    ctx.undec("R09.1", f"{m.relpath} {tab}", "table is not a literal tuple/list")
                    continue
                seen = {}
                if not node.elts:
                    ctx.ok("R09.1", f"{m.relpath}:{node.lineno} {tab}", "empty table")

                def rows_of(nd, mod_, depth=0):
                    """the rows of a table display, `*OTHER_TABLE` entries spliced in (each row with the module its names are written in)"""
                    out_ = []
                    for r_ in nd.elts:
                        if isinstance(r_, ast.Starred) and depth < 4:
                            v_, vm_ = r_.value, mod_
                            for _ in range(4):
                                if not isinstance(v_, (ast.Name, ast.Attribute)):
                                    break
                                sy2 = ctx.index.resolve_expr(vm_, v_)
                                if sy2 is None or sy2.kind != "assign" or sy2.module is None or getattr(sy2.node, "value", None) is None:
                                    break
                                vm_, v_ = sy2.module, sy2.node.value
                            if isinstance(v_, (ast.Tuple, ast.List)):
                                out_ += rows_of(v_, vm_, depth + 1)
                                continue
                        out_.append((r_, mod_))
                    return out_
                for i, (row, rm) in enumerate(rows_of(node, rm)):
                    site = f"{m.relpath}:{row.lineno} {tab}[{i}]"
                    if not (isinstance(row, ast.Tuple) and len(row.elts) == 2):
                        ctx.undec("R09.1", site, "row is not a (term, metric) pair")
                        continue
                    ts, fs = ctx.index.resolve_expr(rm, row.elts[0]), ctx.index.resolve_expr(rm, row.elts[1])
                    if fs is not None and fs.kind == "func":
                        # a metric function that moved to another module keeps the name it has on the reference tree
                        from sa.sym import sym_term
                        from sa.index import Sym
                        cq = sym_term(fs)[1]
                        if cq != fs.qual:
                            fs = Sym(fs.kind, cq, fs.module, fs.node, fs.cls)
                    if ts is None or fs is None or not ts.qual.startswith(TERMS + ":") or not fs.qual.startswith(MET + ":"):
                        ctx.undec("R09.1", site, f"cannot resolve row {ast.unparse(row)}")
                        continue
                    tname, fname = ts.qual.split(":")[1], fs.qual.split(":")[1]
                    if tname in seen:
                        ctx.bad("R09.1", m.relpath, tab, f"row {i}: ({tname}, {fname}) repeats the term of row {seen[tname]}",
                                f"{tm}.{tab}: the term {tname!r} labels two metrics (rows {seen[tname]} and {i}): the values are "
                                f"indistinguishable and one overwrites the other when metrics are stored keyed by label",
                                row.lineno, witness={"table": tab, "rows": [seen[tname], i], "term": tname})
                    seen.setdefault(tname, i)
                    if AGREE.get(tname) == fname:
                        ctx.ok("R09.1", site, f"({tname}, {fname})")
                    else:
                        ctx.bad("R09.1", m.relpath, tab, f"row {i}: ({tname}, {fname})",
                                f"{tm}.{tab} row {i} labels the value of metrics.{fname} with the term {tname!r} "
                                f"(that term names metrics.{AGREE.get(tname, '?')})", row.lineno,
                                witness={"table": tab, "row": i, "term": tname, "function": fname})

    # ------------------------------------------------------------------ R09.2
    def labels(self):
        ctx = self.ctx
        m = ctx.index.module(TERMS)
        seen_l, seen_n = {}, {}
        for name, defs in m.defs.items():
            d = defs[-1]
            if not (isinstance(d, ast.Assign) and isinstance(d.value, ast.Call) and ast.unparse(d.value.func) == "Term"):
                continue
            kw = {k.arg: k.value for k in d.value.keywords}
            lab = kw.get("label").value if isinstance(kw.get("label"), ast.Constant) else None
            nm = kw.get("name").value if isinstance(kw.get("name"), ast.Constant) else None
            site = f"{m.relpath}:{d.lineno} {name}"
            if lab is None or nm is None:
                ctx.undec("R09.2", site, "label/name is not a string literal")
                continue
            dup = seen_l.get(lab) or seen_n.get(nm)
            if dup:
                ctx.bad("R09.2", m.relpath, name, f"Term(label={lab!r}, name={nm!r})",
                        f"metric terms {dup} and {name} share a label/name: their values collide in a label-keyed metrics mapping",
                        d.lineno)
            else:
                ctx.ok("R09.2", site, f"label {lab!r} unique")
            seen_l[lab] = name
            seen_n[nm] = name

    def ncols(self, a):
        """Number of columns of a 2-D array term, or None: np.c_[A, B] -> ncols(A) + ncols(B); x.sum(axis=1,
        keepdims=True) -> 1; c - X -> ncols(X); a parameter p -> p.shape[1]."""
        if a[0] == "param":
            return ("sub", ("attr", a, "shape"), ("const", 1))
        if a[0] == "sub" and a[1] == ("ext", "numpy.c_") and a[2][0] == "tuple":
            parts = [self.ncols(x) for x in a[2][1]]
            if any(p is None for p in parts):
                return None
            out = parts[0]
            for p in parts[1:]:
                out = ("bin", "+", out, p)
            return out
        if a[0] == "call" and a[1][0] == "attr" and a[1][2] == "sum" and callkw(a).get("axis") == ("const", 1) \
                and callkw(a).get("keepdims") == ("const", True):
            return ("const", 1)
        if a[0] == "bin" and a[1] in ("+", "-", "*", "/"):
            l, r = a[2], a[3]
            if l[0] == "const":
                return self.ncols(r)
            if r[0] == "const":
                return self.ncols(l)
        return None

    def ncols_norm(self, t):
        """Rewrite every `<array>.shape[1]` inside t through ncols()."""
        if not isinstance(t, tuple) or not t:
            return t
        if t[0] == "sub" and t[2] == ("const", 1) and t[1][0] == "attr" and t[1][2] == "shape":
            n = self.ncols(t[1][1])
            if n is not None:
                return n
        return tuple(self.ncols_norm(c) if isinstance(c, tuple) else c for c in t)

    # ------------------------------------------------------------------ R09.3
    def wrappers(self):
        ctx = self.ctx
        file = ctx.index.module(MET).relpath

        def sk(name):
            return ("ext", f"sklearn.metrics.{name}")

        NP = lambda n: ("ext", f"numpy.{n}")
        # every call into scikit-learn binds against the function's parameters (names as documented for the trusted base), the truth
        # argument is computed from y_true alone and the prediction argument from y_score (never crossed)
        SK_PARAMS = {"accuracy_score": ("y_true", "y_pred", "normalize", "sample_weight"),
                     "balanced_accuracy_score": ("y_true", "y_pred", "sample_weight", "adjusted"),
                     "top_k_accuracy_score": ("y_true", "y_score", "k", "normalize", "sample_weight", "labels"),
                     "jaccard_score": ("y_true", "y_pred", "labels", "pos_label", "average", "sample_weight", "zero_division"),
                     "average_precision_score": ("y_true", "y_score", "average", "pos_label", "sample_weight"),
                     "log_loss": ("y_true", "y_pred", "normalize", "sample_weight", "labels")}
        mm = ctx.index.module(MET)
        for fname, defs in mm.defs.items():
            d = defs[-1]
            if not isinstance(d, ast.FunctionDef):
                continue
            fs = ctx.summ.of_func(MET, fname)
            if "y_true" not in fs.params or "y_score" not in fs.params:
                continue
            YT_, YS_ = ("param", "y_true"), ("param", "y_score")
            for e in fs.calls:
                t = e.term
                if not (t[1][0] == "ext" and t[1][1].startswith("sklearn.metrics.") and t[1][1].split(".")[-1] in SK_PARAMS):
                    continue
                skn = t[1][1].split(".")[-1]
                sig = SK_PARAMS[skn]
                bound, problems = {}, []
                for i_, a_ in enumerate(t[2]):
                    if i_ < 2:
                        bound[sig[i_]] = a_
                    else:
                        problems.append(f"{i_ + 1} positional arguments (everything after y_true and the predictions is keyword-only)")
                for k_, v_ in t[3]:
                    if k_ == "**":
                        continue
                    if k_ not in sig:
                        problems.append(f"unexpected keyword `{k_}`")
                    elif k_ in bound:
                        problems.append(f"`{k_}` given twice")
                    else:
                        bound[k_] = v_
                for need in sig[:2]:
                    if need not in bound:
                        problems.append(f"`{need}` is not given")
                tr_, pr_ = bound.get(sig[0]), bound.get(sig[1])
                if tr_ is not None and (any(x == YS_ for x in walk(tr_)) and not any(x == YT_ for x in walk(tr_))):
                    problems.append(f"the truth argument is computed from y_score ({show(tr_)[:40]})")
                if pr_ is not None and (any(x == YT_ for x in walk(pr_)) and not any(x == YS_ for x in walk(pr_))):
                    problems.append(f"the prediction argument is computed from y_true ({show(pr_)[:40]})")
                site_ = f"{file}:{e.lineno} {fname}"
                if problems:
                    ctx.bad("R09.3", file, fname, f"{skn}({', '.join(k for k in bound)})",
                            f"metrics.{fname}: the call of sklearn.metrics.{skn} is malformed or crossed: {'; '.join(problems)}", e.lineno)
                else:
                    ctx.ok("R09.3", site_, f"{skn}: truth from y_true, prediction from y_score, keywords {sorted(set(bound) - set(sig[:2]))}")
        family = {"accuracy": "accuracy_score", "balanced_accuracy": "balanced_accuracy_score", "top_3_accuracy": "top_k_accuracy_score"}
        for fname, skname in family.items():
            s = ctx.summ.of_func(MET, fname)
            yt, ys = ("param", s.params[0]), ("param", s.params[1])
            site = f"{file}:{s.node.lineno} {fname}"
            ncls = ("sub", ("attr", ys, "shape"), ("const", 1))
            if len(s.returns) != 1 or s.returns[0].term[0] != "call":
                ctx.undec("R09.3", site, "no single delegating return")
                continue
            t = s.returns[0].term
            if t[1] != sk(skname):
                ctx.bad("R09.3", file, fname, f"return {show(t[1])}(...)",
                        f"metrics.{fname} delegates to {show(t[1])} instead of sklearn.metrics.{skname}", s.returns[0].lineno)
                continue
            kw = callkw(t)
            args = list(t[2])
            ytrue = kw.get("y_true", args[0] if args else None)
            second = kw.get("y_pred", kw.get("y_score", args[1] if len(args) > 1 else None))
            ok_true = False
            if ytrue is not None and ytrue[0] == "call" and ytrue[1] in (NP("array"), NP("asarray")) and ytrue[2] and ytrue[2][0][0] == "comp":
                c = ytrue[2][0]
                lid, it, conds = c[3][0]
                e = ("elem", lid)
                ok_true = it == yt and not conds and c[2] in (("ite", ("cmp", "isnot", e, NONE), e, ncls), ("ite", ("cmp", "is", e, NONE), ncls, e))
            ext = ("sub", NP("c_"), ("tuple", (ys, ("bin", "-", ("const", 1), ("call", ("attr", ys, "sum"), (), (("axis", ("const", 1)), ("keepdims", ("const", True))))))))
            if ok_true:
                ctx.ok("R09.3", site, "None truths mapped to the extra class index num_classes")
            else:
                ctx.bad("R09.3", file, fname, f"y_true={show(ytrue)[:80] if ytrue else '-'}",
                        f"metrics.{fname}: unlabelled items (None) are not mapped to the extra 'none' class index "
                        f"y_score.shape[1] element-wise over y_true", s.returns[0].lineno)
            if fname == "top_3_accuracy":
                good = second == ext
                k = kw.get("k")
                labels = kw.get("labels")
                lab = labels
                if lab is not None and lab[0] == "call" and lab[1] in (("builtin", "list"), ("builtin", "tuple")) and len(lab[2]) == 1:
                    lab = lab[2][0]
                lab_ok = False
                if lab is not None and lab[0] == "call" and lab[1] == ("builtin", "range") and len(lab[2]) == 1 and not lab[3]:
                    n = self.ncols_norm(lab[2][0])
                    lab_ok = canon(n) == canon(("bin", "+", ncls, ("const", 1)))
                if k == ("const", 3) and lab_ok:
                    ctx.ok("R09.3", site, "top_k_accuracy_score(k=3, labels=range(num_classes + 1))")
                else:
                    ctx.bad("R09.3", file, fname, f"k={show(k) if k else '-'}, labels={show(labels)[:50] if labels else '-'}",
                            f"top-3 accuracy must call top_k_accuracy_score with k=3 and labels=range(num_classes + 1); found "
                            f"k={show(k) if k else 'default'}, labels={show(labels)[:60] if labels else 'missing'}", s.returns[0].lineno)
            else:
                good = second == ("call", ("attr", ext, "argmax"), (), (("axis", ("const", 1)),))
            if good:
                ctx.ok("R09.3", site, "scores extended with the column 1 - sum(scores) for the 'none' class")
            else:
                ctx.bad("R09.3", file, fname, f"{'y_score' if fname == 'top_3_accuracy' else 'y_pred'}={show(second)[:90] if second else '-'}",
                        f"metrics.{fname}: the predicted scores are not extended with the 'none' column 1 - sum(scores) "
                        f"{'before the arg-max' if fname != 'top_3_accuracy' else ''} (sibling wrappers do)", s.returns[0].lineno)
        # true_class_probability / classification_score
        for fname in ("true_class_probability", "classification_score"):
            self.probability_wrapper(fname)
        # jaccard / average_precision / mean_average_precision
        s = ctx.summ.of_func(MET, "jaccard")
        site = f"{file}:{s.node.lineno} jaccard"
        t = s.returns[0].term if len(s.returns) == 1 else None
        if t is not None and t[0] == "call" and t[1] == sk("jaccard_score") and callkw(t).get("average") == ("const", "samples") \
                and any(x[0] == "cmp" and x[1] == "lt" and x[2] == ("param", "threshold") for x in walk(callkw(t).get("y_pred", NONE))):
            ctx.ok("R09.3", site, "jaccard_score(y_pred = y_score > threshold, average='samples')")
        else:
            ctx.bad("R09.3", file, "jaccard", f"return {show(t)[:100] if t else '-'}",
                    "metrics.jaccard must be jaccard_score(y_true, y_score > threshold, average='samples')", s.node.lineno)
        # the example-level call hands jaccard two vectors: each is lifted to a one-row matrix exactly when it is one-dimensional,
        # and the label set is the class axis (the last one) of the lifted truth
        if t is not None and t[0] == "call":
            from sa.peval import peval
            kwj = callkw(t)
            problems = []
            for pname, arg in (("y_true", kwj.get("y_true")), ("y_score", next((x for x in walk(kwj.get("y_pred", NONE)) if x[0] == "ite" or x == ("param", "y_score") or x in lift_forms(("param", "y_score"))), None))):
                P = ("param", pname)
                if arg is None:
                    problems.append(f"{pname} does not reach jaccard_score")
                    continue
                one = peval(arg, {("attr", P, "ndim"): 1})
                two = peval(arg, {("attr", P, "ndim"): 2})
                if one not in lift_forms(P):
                    problems.append(f"a one-dimensional {pname} is passed on as {show(one)[:40]} instead of a one-row matrix")
                if two != P and two != ("call", ("ext", "numpy.atleast_2d"), (P,), ()):
                    problems.append(f"a two-dimensional {pname} is passed on as {show(two)[:40]}")
            lab = kwj.get("labels")
            if lab is not None:
                l1 = peval(lab, {("attr", ("param", "y_true"), "ndim"): 1})
                okl = l1[0] == "call" and l1[1] == ("ext", "numpy.arange") and len(l1[2]) == 1 and l1[2][0][0] == "sub" and l1[2][0][1][0] == "attr" \
                    and l1[2][0][1][2] == "shape" and ((l1[2][0][2] == ("const", 1) and l1[2][0][1][1] in lift_forms(("param", "y_true"))) or l1[2][0][2] == ("const", -1))
                if not okl:
                    problems.append(f"labels = {show(l1)[:60]} is not the range over the class axis of the truth")
            if problems:
                ctx.bad("R09.3", file, "jaccard", "shape handling of y_true / y_score", "metrics.jaccard: " + "; ".join(problems), s.node.lineno)
            else:
                ctx.ok("R09.3", site, "vectors lifted to one-row matrices exactly when one-dimensional; labels = range(class axis)")
        # multilabel_example_score (the clip score of the multilabel task): exp(-log_loss(truth row, score row)), both lifted alike
        if "multilabel_example_score" in ctx.index.module(MET).defs:
            from sa.peval import peval
            s = ctx.summ.of_func(MET, "multilabel_example_score")
            site = f"{file}:{s.node.lineno} multilabel_example_score"
            ll = [x for r in s.returns for x in walk(r.term) if x[0] == "call" and x[1] == sk("log_loss")]
            if len(s.returns) == 1 and len(ll) == 1:
                kwl = callkw(ll[0])
                a_ = list(ll[0][2])
                problems = []
                for pname, arg in (("y_true", kwl.get("y_true", a_[0] if a_ else None)), ("y_score", kwl.get("y_pred", a_[1] if len(a_) > 1 else None))):
                    P = ("param", pname)
                    if arg is None:
                        problems.append(f"{pname} does not reach log_loss")
                        continue
                    one, two = peval(arg, {("attr", P, "ndim"): 1}), peval(arg, {("attr", P, "ndim"): 2})
                    if one not in lift_forms(P):
                        problems.append(f"a one-dimensional {pname} is passed on as {show(one)[:40]} instead of a one-row matrix")
                    if two != P and two != ("call", ("ext", "numpy.atleast_2d"), (P,), ()):
                        problems.append(f"a two-dimensional {pname} is passed on as {show(two)[:40]}")
                rt = s.returns[0].term
                if not (rt[0] == "call" and rt[1] in (("ext", "numpy.exp"), ("ext", "math.exp")) and len(rt[2]) == 1 and rt[2][0] in (("neg", ll[0]), ("un", "-", ll[0]), ("bin", "*", ("const", -1), ll[0]))):
                    if not (rt[0] == "call" and rt[1] in (("ext", "numpy.exp"), ("ext", "math.exp")) and any(x == ll[0] for x in walk(rt)) and "-" in show(rt[2][0])[:3]):
                        problems.append(f"the score is {show(rt)[:60]} instead of exp(-log_loss)")
                if problems:
                    ctx.bad("R09.3", file, "multilabel_example_score", "shape handling of y_true / y_score", "metrics.multilabel_example_score: " + "; ".join(problems), s.node.lineno)
                else:
                    ctx.ok("R09.3", site, "exp(-log_loss) over the truth / score vectors lifted to one-row matrices exactly when one-dimensional")
            else:
                ctx.undec("R09.3", site, "does not return one expression over sklearn's log_loss")
        for fname, avg in (("average_precision", "micro"), ("mean_average_precision", "macro")):
            s = ctx.summ.of_func(MET, fname)
            site = f"{file}:{s.node.lineno} {fname}"
            t = s.returns[0].term if len(s.returns) == 1 else None
            if t is not None and t[0] == "call" and t[1] == sk("average_precision_score") and callkw(t).get("average", ("const", "macro")) == ("const", avg):
                ctx.ok("R09.3", site, f"average_precision_score(average={avg!r})")
            else:
                ctx.bad("R09.3", file, fname, f"return {show(t)[:100] if t else '-'}",
                        f"metrics.{fname} must be sklearn's average_precision_score(average={avg!r})", s.node.lineno)
            if fname == "mean_average_precision" and t is not None and t[0] == "call":
                kw = callkw(t)
                yt, ysc = kw.get("y_true", NONE), kw.get("y_score", NONE)
                from sa.memo import cases
                worst = None
                flat = None
                ncases = 0
                for facts, (yt_c, ysc_c) in cases(yt, ysc):
                    ncases += 1
                    masks_t = [x[2] for x in walk(yt_c) if x[0] == "sub" and (x[2][0] in ("invert", "not"))]
                    masks_s = [x[2] for x in walk(ysc_c) if x[0] == "sub" and (x[2][0] in ("invert", "not"))]
                    isnan = [m for m in masks_t if any(y[0] == "call" and y[1] == ("ext", "numpy.isnan") for y in walk(m))]
                    # rank of the truth array on this path: class indices (1-D, may be NaN = unlabelled) or an indicator matrix
                    rank1 = None
                    for c_, v_ in facts.items():
                        if c_[0] == "cmp" and c_[1] == "eq" and ("const", 1) in (c_[2], c_[3]):
                            o_ = c_[3] if c_[2] == ("const", 1) else c_[2]
                            if o_[0] == "attr" and o_[2] == "ndim" and "y_true" in show(o_):
                                rank1 = bool(v_[1])
                    if rank1 is False:
                        if masks_t or masks_s:
                            flat = (facts, "a two-dimensional truth matrix is indexed with a boolean mask of its own shape")
                        continue
                    if rank1 is None and isnan:
                        flat = (facts, "the element-wise mask np.isnan(y_true) is applied whatever the rank of y_true")
                    if not (isnan and masks_s and masks_s[0] == isnan[0]):
                        worst = (facts, len(masks_t), len(masks_s))
                if flat is not None:
                    ctx.bad("R09.3", file, fname, "y_true[~np.isnan(y_true)]",
                            f"{flat[1]}: for the indicator matrices of the multilabel task the mask has the matrix's own shape, indexing with it "
                            "flattens truths and scores to one long binary problem, and the value labelled 'Mean Average Precision' is the "
                            "micro-averaged precision (0.8635 where the mean over classes is 0.8889) -- the mask must be applied to "
                            "one-dimensional class indices only", s.node.lineno,
                            witness={"y_true": "[[1,0,1],[0,1,0],[1,1,0],[0,0,1]]", "reported": 0.8634920634920634, "macro": 0.8888888888888888})
                elif worst is None:
                    ctx.ok("R09.3", site, f"unlabelled (NaN) rows removed from truths and scores with the same mask ({ncases} path(s))")
                else:
                    when = ", ".join(f"{show(c)[:50]} = {v[1]}" for c, v in worst[0].items()) or "always"
                    ctx.bad("R09.3", file, fname, "y_true[~no_class], y_score[~no_class]",
                            "unlabelled items must be left out of mean average precision by masking BOTH arrays with the same "
                            f"isnan(y_true) mask on every path (truth masks: {worst[1]}, score masks: {worst[2]} when {when})", s.node.lineno)
                # rank scenarios: the branch conditions are tests on .ndim; they are decided with the ranks the tasks hand over
                self.map_ranks(s, site, file, yt, ysc)

    def probability_wrapper(self, fname, r3="R09.3", r7="R09.7"):
        """true_class_probability / classification_score: y_score[y_true], and 1 - sum(y_score), clamped at 0, for an unlabelled item"""
        ctx = self.ctx
        file = ctx.index.module(MET).relpath
        s = ctx.summ.of_func(MET, fname)
        yt, ys = ("param", s.params[0]), ("param", s.params[1])
        site = f"{file}:{s.node.lineno} {fname}"
        none_ret = [r for r in s.returns if ("cmp", "is", yt, NONE) in conjuncts(r.live)]
        some_ret = [r for r in s.returns if ("cmp", "isnot", yt, NONE) in conjuncts(r.live)]
        w_none = ("bin", "-", ("const", 1), ("call", ("attr", ys, "sum"), (), ()))
        # a wrapper that hands both arguments to its sibling is its sibling
        if len(s.returns) == 1 and s.returns[0].term[0] == "call" and s.returns[0].term[1][0] == "global" \
                and s.returns[0].term[1][1] in (f"{MET}:true_class_probability", f"{MET}:classification_score") \
                and s.returns[0].term[1][1] != f"{MET}:{fname}" and s.returns[0].term[2] == (yt, ys) and not s.returns[0].term[3]:
            ctx.ok(r3, site, f"delegates to {s.returns[0].term[1][1].split(':')[1]}(y_true, y_score)")
            ctx.ok(r7, site, "clamped by the sibling it delegates to")
            return
        nt = none_ret[0].term if len(none_ret) == 1 else None
        clamped = False
        if len(none_ret) == 2:
            # `x if x > 0 else 0` spelled out: x under (0 < x), 0 under (x <= 0)
            pos_ = [r for r in none_ret if canon(r.term) == canon(w_none)]
            zer_ = [r for r in none_ret if r.term in (("const", 0), ("const", 0.0))]
            if len(pos_) == 1 and len(zer_) == 1:
                cp_ = [c for c in conjuncts(pos_[0].live) if c[0] == "cmp" and c[1] in ("lt", "le") and c[2] in (("const", 0), ("const", 0.0)) and canon(c[3]) == canon(w_none)]
                if cp_:
                    nt, clamped = pos_[0].term, True
                    none_ret = pos_
        if nt is not None and nt[0] == "call" and nt[1] in (("builtin", "max"), ("ext", "numpy.maximum")) and len(nt[2]) == 2 and not nt[3]:
            def is_zero(a):
                if a in (("const", 0), ("const", 0.0)):
                    return True
                if a[0] == "attr" and a[1][0] == "global" and a[1][2] == "class" and ":" in a[1][1]:
                    ci_ = ctx.index.class_by_qual(a[1][1])
                    d_ = [st_ for st_ in (ci_.node.body if ci_ else []) if isinstance(st_, ast.Assign) and any(isinstance(t_, ast.Name) and t_.id == a[2] for t_ in st_.targets)]
                    return len(d_) == 1 and isinstance(d_[0].value, ast.Constant) and d_[0].value.value in (0, 0.0) and not isinstance(d_[0].value.value, bool)
                return False
            z_ = [a for a in nt[2] if is_zero(a)]
            o_ = [a for a in nt[2] if a not in z_]
            if len(z_) == 1 and len(o_) == 1:
                nt, clamped = o_[0], True
        if nt is not None and nt[0] == "call" and nt[1] == ("builtin", "float") and len(nt[2]) == 1:
            nt = nt[2][0]
        if nt is not None and len(some_ret) == 1 and canon(nt) == canon(w_none) and some_ret[0].term == ("sub", ys, yt):
            ctx.ok(r3, site, "y_score[y_true], or 1 - sum(y_score) for an unlabelled item")
            # R09.7: the scores come from prediction_encoding as float32; the float32 sum of scores that add up to 1 (0.3 + 0.4 +
            # 0.1 + 0.2) is 1.0000001, so 1 - sum is -1.19e-07 and the `score >= 0` constraint of Match / ClipEvaluation /
            # Evaluation rejects the whole evaluation: the 'none' probability must be clamped at 0
            if clamped:
                ctx.ok(r7, site, "the 'none' probability 1 - sum(scores) is clamped at 0")
            else:
                ctx.bad(r7, file, fname, "return 1 - y_score.sum() (unclamped)",
                        f"metrics.{fname} returns `1 - y_score.sum()` for an unlabelled item without clamping it at 0: the scores are "
                        f"float32 (prediction_encoding), and for scores that add up to exactly 1 their float32 sum is 1.0000001, so the "
                        f"result is -1.19e-07 -- the ge=0 constraint on score then rejects the match / clip evaluation and the whole "
                        f"task call fails with a ValidationError", none_ret[0].lineno,
                        witness={"scores": [0.3, 0.4, 0.1, 0.2], "float32_sum": 1.0000001192092896, "returned": -1.1920928955078125e-07})
        else:
            ctx.bad(r3, file, fname, "return y_score[y_true] / 1 - y_score.sum()",
                    f"metrics.{fname} is not `y_score[y_true]` (and `1 - y_score.sum()` for None): "
                    f"{[(show(r.live)[:30], show(r.term)[:40]) for r in s.returns]}", s.node.lineno)

    def map_ranks(self, s, site, file, yt, ysc):
        ctx = self.ctx
        YT, YS = ("param", "y_true"), ("param", "y_score")

        def unwrap(t):
            while True:
                if t[0] == "call" and t[1] in (("ext", "numpy.array"), ("ext", "numpy.asarray")) and t[2]:
                    t = t[2][0]
                elif t[0] == "call" and t[1][0] == "attr" and t[1][2] in ("astype", "copy"):
                    t = t[1][1]
                else:
                    return t

        def resolve(t, R):
            """choose the branches of every conditional whose test is a comparison of .ndim, given the ranks R of the parameters"""
            if not isinstance(t, tuple) or not t:
                return t
            if t[0] == "ite":
                c = cond(t[1], R)
                if c is True:
                    return resolve(t[2], R)
                if c is False:
                    return resolve(t[3], R)
            return tuple(resolve(x, R) if isinstance(x, tuple) else x for x in t)

        def rank(t, R):
            t = unwrap(resolve(t, R))
            if t in R:
                return R[t]
            if t[0] == "call" and t[1] == ("ext", "numpy.arange"):
                return 1
            if t[0] == "cmp":
                ra_, rb_ = rank(t[2], R), rank(t[3], R)
                return None if ra_ is None or rb_ is None else max(ra_, rb_)  # broadcasting
            if t[0] == "sub" and t[2][0] == "tuple" and any(x in (("ext", "numpy.newaxis"), ("const", None)) for x in t[2][1]) \
                    and all(x in (("ext", "numpy.newaxis"), ("const", None)) or x[0] == "slice" for x in t[2][1]):
                rb_ = rank(t[1], R)
                return None if rb_ is None else rb_ + sum(1 for x in t[2][1] if x[0] != "slice")
            if t[0] == "sub":
                if t[1][0] == "call" and t[1][1] == ("ext", "numpy.eye"):
                    r = rank(t[2], R)
                    return None if r is None else r + 1
                if t[2][0] in ("invert", "not"):
                    m = t[2][1]
                    if m[0] == "call" and m[1] == ("ext", "numpy.isnan") and m[2]:
                        m = m[2][0]
                    rm, rb = rank(m, R), rank(t[1], R)
                    if rm is None or rb is None:
                        return None
                    return rb if rm == 1 else (1 if rm == rb else None)  # a row mask keeps the rank; a full-shape mask flattens
            return None

        def cond(c, R):
            if c[0] == "and":
                vs = [cond(x, R) for x in c[1]]
                return False if False in vs else (True if all(v is True for v in vs) else None)
            if c[0] == "or":
                vs = [cond(x, R) for x in c[1]]
                return True if True in vs else (False if all(v is False for v in vs) else None)
            if c[0] == "not":
                v = cond(c[1], R)
                return None if v is None else not v
            if c[0] == "cmp" and c[1] in ("eq", "ne") and c[3][0] == "const" and c[2][0] == "attr" and c[2][2] == "ndim":
                r = rank(c[2][1], R)
                if r is None:
                    return None
                return (r == c[3][1]) == (c[1] == "eq")
            return None

        problems = []
        # the multilabel task: an indicator matrix and a score matrix go to scikit-learn as they are
        R2 = {YT: 2, YS: 2}
        t2, s2 = resolve(yt, R2), resolve(ysc, R2)
        if unwrap(t2) != YT:
            problems.append(f"a two-dimensional indicator matrix y_true is passed on as {show(t2)[:70]}")
        if s2 != YS:
            problems.append(f"the scores of a two-dimensional problem are passed on as {show(s2)[:70]}")
        # class indices + score matrix: one-hot rows over the columns of the score matrix
        R1 = {YT: 1, YS: 2}
        t1, s1 = resolve(yt, R1), resolve(ysc, R1)
        ok1 = t1[0] == "sub" and t1[1][0] == "call" and t1[1][1] == ("ext", "numpy.eye") and len(t1[1][2]) == 1
        n = t1[1][2][0] if ok1 else None
        if not ok1 and t1[0] == "call" and t1[1] == ("ext", "numpy.zeros") and t1[2] and t1[2][0][0] == "tuple" and len(t1[2][0][1]) == 2:
            # the indicator matrix filled by hand: zeros((rows, width)) with [arange(rows), classes] set to 1
            for e_ in s.events:
                if e_.kind == "store" and e_.term[1][0] == "sub" and resolve(e_.term[1][1], R1) == t1 and e_.term[2] in (("const", 1), ("const", 1.0)):
                    ix = e_.term[1][2]
                    if ix[0] == "tuple" and len(ix[1]) == 2 and ix[1][0][0] == "call" and ix[1][0][1] == ("ext", "numpy.arange") \
                            and unwrap(resolve(ix[1][1], R1))[0] == "sub" and unwrap(unwrap(resolve(ix[1][1], R1))[1]) == YT:
                        ok1, n = True, t1[2][0][1][1]
        if ok1:
            okn = n[0] == "sub" and n[2] in (("const", 1), ("const", -1)) and n[1][0] == "attr" and n[1][2] == "shape" and unwrap(n[1][1]) in (YS, s1)
            if not okn:
                problems.append(f"class indices are expanded to one-hot rows of width {show(n)[:50]} instead of the number of score columns (y_score.shape[1])")
        elif any(x[0] == "ite" for x in walk(t1)):
            ctx.undec("R09.3", site, f"cannot decide the branch taken for one-dimensional class indices: {show(t1)[:80]}")
        elif not any(x[0] == "sub" and x[2][0] in ("invert", "not") for x in walk(s1)) and not any(x[0] == "ite" for x in walk(s1)):
            problems.append("with one-dimensional class indices the unlabelled (NaN) items are not removed from the scores: the branch that "
                            f"filters them is not taken (scores passed on as {show(s1)[:50]})")
        else:
            problems.append(f"one-dimensional class indices are passed on as {show(t1)[:60]} instead of one-hot rows (np.eye(num_classes)[y_true])")
        if problems:
            ctx.bad("R09.3", file, "mean_average_precision", "rank handling of y_true / y_score", "metrics.mean_average_precision: " + "; ".join(problems), s.node.lineno)
        else:
            ctx.ok("R09.3", site, "indicator matrices pass unchanged; class indices become one-hot rows over the score columns (two rank scenarios)")

    # ------------------------------------------------------------------ R09.6
    def lockstep(self):
        """The per-item results (Match / ClipEvaluation objects) and the truth / score rows the run-level metrics are computed
        from are accumulated side by side: in every function of the task package, the lists that make up its result must
        receive their entries under exactly the same conditions, in the same loops.  A row added without its item (or an
        item without its row) shifts every later row against the items and changes what the metrics are computed over."""
        ctx = self.ctx
        mods = sorted(mn for mn in ctx.index.modules if mn.startswith(TASKS + "."))
        for modname in mods:
            m = ctx.index.module(modname)
            for name, defs in m.defs.items():
                d = defs[-1]
                if not isinstance(d, ast.FunctionDef):
                    continue
                if name not in PINNED.get(modname, ()):
                    continue  # a helper introduced later: its code is seen inlined in the functions that use it
                s = ctx.summ.of_node(m, d, f"{modname}:{name}")
                muts = {}
                for e in s.calls:
                    f = e.term[1]
                    if f[0] == "attr" and f[2] in ("append", "extend") and f[1][0] == "alloc" and f[1][1] == "list" and e.loops:
                        muts.setdefault(f[1], []).append(e)
                def direct(t, acc):
                    """sub-terms that are part of the returned structure itself (not what a comprehension inside it iterates)"""
                    if not isinstance(t, tuple) or not t:
                        return
                    acc.add(t)
                    if isinstance(t[0], str) and t[0] == "comp":
                        return
                    if isinstance(t[0], str) and t[0] == "call" and not ((t[1][0] == "global" and t[1][2] == "class") or t[1] in _ROW_WRAPPERS):
                        return  # what a function computes FROM a list (a mean, a metric) is not a list of rows of the result
                    if isinstance(t[0], str) and t[0] in ("bin", "cmp", "ite", "and", "or", "not"):
                        for x in (t[2:] if t[0] == "ite" else ()):
                            direct(x, acc)
                        return
                    for x in t:
                        if isinstance(x, tuple):
                            direct(x, acc)
                rsub = set()
                for r in s.raw_returns:
                    direct(r.term, rsub)
                result_allocs = {x for x in rsub if x[0] == "alloc"} | {a for a, v in s.alloc_comps.items() if v in rsub}
                group = {a: es for a, es in muts.items() if a in result_allocs}
                # a list computed FROM another result list (`[m.score for m in matches]` written as a loop) is not accumulated side by
                # side with it: it has that list's rows by construction
                def derived(a_):
                    cp_ = s.alloc_comps.get(a_)
                    if cp_ is None or cp_[0] != "comp" or len(cp_[3]) != 1:
                        return False
                    it_ = cp_[3][0][1]
                    return any(it_ == b_ or it_ == s.alloc_comps.get(b_) for b_ in muts if b_ != a_)
                group = {a: es for a, es in group.items() if not derived(a)}
                if len(group) < 2:
                    # no accumulators: result lists built by comprehensions -- they stay in step iff none of them filters
                    comps = [x for x in rsub if x[0] == "comp" and x[1] == "list"]
                    if len(comps) >= 2 and not muts:
                        def filtered(cp):
                            return any(cnds for _, _, cnds in cp[3]) or any(filtered(it_) for _, it_, _ in cp[3] if it_[0] == "comp")
                        fl = [cp for cp in comps if filtered(cp)]
                        site = f"{m.relpath}:{s.node.lineno} {name}"
                        # lists drawn from the same generators (same iterables, same filters) have the same rows, filtered or not
                        from .c04 import alpha
                        from .evalflow import rows_of
                        item_lists = [cp for cp in comps if cp[3][0][1][0] != "global"]  # (lists over a metric table are not lists of items)
                        same_rows = len({rows_of(cp) for cp in item_lists}) <= 1
                        if fl and len(fl) != len(comps) and not same_rows:
                            ctx.bad("R09.6", m.relpath, name, f"{show(fl[0])[:70]}",
                                    f"{name}: one of the result lists is built with a filter (`{show(fl[0])[:90]}`) and another is not: the truth / "
                                    f"score rows no longer correspond one-to-one to the evaluated items", s.node.lineno)
                        else:
                            ctx.ok("R09.6", site, f"{len(comps)} result lists built by comprehensions over the same items, none filtered on its own")
                    continue
                site = f"{m.relpath}:{s.node.lineno} {name}"
                sig = {a: sorted((e.loops, repr(canon(e.live))) for e in es) for a, es in group.items()}
                ref_a = max(sig, key=lambda a: len(sig[a]))
                bad = False
                for a, sg in sig.items():
                    if sg != sig[ref_a]:
                        bad = True
                        extra = [e for e in group[ref_a] if (e.loops, repr(canon(e.live))) not in sg]
                        missing_here = extra[0] if extra else group[ref_a][0]
                        ctx.bad("R09.6", m.relpath, name, f"{a[2].split('@')[0]} vs {ref_a[2].split('@')[0]}",
                                f"{name}: `{ref_a[2].split('@')[0]}` receives an entry under `{show(missing_here.live)[:90]}` but "
                                f"`{a[2].split('@')[0]}` does not receive one under the same condition: the truth / score rows no longer "
                                f"correspond one-to-one to the evaluated items, so the metrics are computed over other items than "
                                f"the ones reported", missing_here.lineno)
                if not bad:
                    ctx.ok("R09.6", site, f"{sorted(a[2].split('@')[0] for a in group)} grow in lock-step ({len(sig[ref_a])} site(s) each)")

    # ------------------------------------------------------------------ R09.4
    def means(self):
        ctx = self.ctx
        mods = [f"{TASKS}.{tm}" for tm in TASK_MODS]
        mods += sorted(mn for mn in ctx.index.modules if mn.startswith(TASKS + ".") and mn not in mods)  # helpers moved within the package
        for modname in mods:
            tm = modname.split(".")[-1]
            m = ctx.index.module(modname)
            for name, defs in m.defs.items():
                d = defs[-1]
                if not isinstance(d, ast.FunctionDef):
                    continue
                s = ctx.summ.of_node(m, d, f"{modname}:{name}")
                for e in s.calls:
                    t = e.term
                    if t[1] not in (("ext", "numpy.mean"), ("ext", "numpy.nanmean"), ("ext", "numpy.average"), ("ext", "statistics.mean")):
                        continue
                    arg = t[2][0] if t[2] else None
                    site = f"{m.relpath}:{e.lineno} {name}"
                    if arg is None:
                        continue
                    conj = conjuncts(e.live)
                    from sa.idioms import guarded_nonempty
                    guarded = guarded_nonempty(e.live, arg)
                    if guarded:
                        ctx.ok("R09.4", site, f"mean over {show(arg)[:50]} guarded against an empty selection")
                    else:
                        ctx.bad("R09.4", m.relpath, name, f"np.mean({show(arg)[:70]}) unguarded",
                                f"{tm}.{name}: the mean over `{show(arg)[:70]}` is taken without an emptiness guard (its sibling "
                                f"aggregations are guarded): an empty clip gives np.mean([]) = NaN, which ClipEvaluation(score=...) "
                                f"rejects", e.lineno, witness={"input": "a clip without evaluated items", "value": "nan"})

    # ------------------------------------------------------------------ R09.5
    def clip_evaluations_constructible(self):
        """R09.8: every task wraps its per-clip result in data.ClipEvaluation, whose validator (C04) demands a match for EVERY sound
        event of the annotations and of the predictions it is given.  A task that hands over the whole clip annotation / prediction
        without any matches therefore fails with a ValidationError for every clip that carries sound events -- the metrics are never
        returned."""
        ctx = self.ctx
        CE = "soundevent.data.clip_evaluations:ClipEvaluation"
        for tm in TASK_MODS:
            modname = f"{TASKS}.{tm}"
            m = ctx.index.module(modname)
            for name, defs in m.defs.items():
                if not any(isinstance(d, ast.FunctionDef) for d in defs):
                    continue
                try:
                    s = ctx.summ.of_func(modname, name)
                except Exception:  # noqa: BLE001
                    continue
                for e in s.calls:
                    t = e.term
                    if not (t[1][0] == "global" and ctx.index.canonical_qual("class", t[1][1]) == CE):
                        continue
                    kw = callkw(t)
                    site = f"{m.relpath}:{e.lineno} {name}"
                    mt = kw.get("matches")
                    whole = [k for k in ("annotations", "predictions") if kw.get(k, NONE)[0] == "param"]
                    if (mt is None or mt in (("list", ()), NONE)) and whole:
                        ctx.bad("R09.8", m.relpath, name, f"{tm}: data.ClipEvaluation(annotations=<clip annotation>, predictions=<clip prediction>) without matches",
                                f"{tm}: the per-clip result is built as ClipEvaluation({', '.join(k + '=' + show(kw[k]) for k in whole)}) with no "
                                f"matches, but ClipEvaluation requires every annotated and every predicted sound event of the objects it is given "
                                f"to appear in a match: for a clip whose annotation or prediction carries sound events the task raises a "
                                f"ValidationError ('Not all example sound events were matched') instead of returning the clip-level metrics",
                                e.lineno, witness={"input": "a ClipAnnotation with one sound event, evaluated by " + tm, "observed": "ValidationError"})
                    else:
                        ctx.ok("R09.8", site, "ClipEvaluation built with matches (or from objects assembled for it)")

    # ------------------------------------------------------------------ R09.9 - R09.11
    def flow(self):
        """"over the encoded truths and predicted scores of the evaluated items" / "scores aggregate as means": the provenance typing
        of rules/evalflow.py, started at each task's entry point."""
        from . import evalflow as ef
        ctx = self.ctx
        for tm in TASK_MODS:
            modname = f"{TASKS}.{tm}"
            fl = ef.Flow(ctx, modname, tm).run()
            se_level = tm.startswith("sound_event")
            ef.check_metric_calls(ctx, "R09.9", fl, tm)
            ef.check_objects(ctx, "R09.10", fl, tm, se_level, both_sides=(tm == "sound_event_classification"))
            for o in fl.obs:
                if o.kind not in ("Evaluation", "ClipEvaluation"):
                    continue
                fr, t = o.terms[0], o.terms[1]
                kw = callkw(t)
                if o.kind == "Evaluation":
                    ef.check_mean(ctx, "R09.11", fr.s, kw.get("score", NONE), kw.get("clip_evaluations"), "overall score", o.func)
                elif se_level:
                    ef.check_mean(ctx, "R09.11", fr.s, kw.get("score", NONE), kw.get("matches"), "clip score", o.func)
            if fl.result != ("obj", "Evaluation"):
                ctx.undec("R09.9", f"{ctx.index.module(modname).relpath} {tm}", f"the task does not return an Evaluation built in the package ({ef.rshow(fl.result)})")
        mods = sorted(mn for mn in ctx.index.modules if mn.startswith(TASKS + "."))
        ef.check_lookups(ctx, "R09.10", mods)

    def task_structure(self):
        ctx = self.ctx
        Feature = ("global", "soundevent.data.features:Feature", "class")
        for tm in TASK_MODS:
            modname = f"{TASKS}.{tm}"
            m = ctx.index.module(modname)
            s = ctx.summ.of_func(modname, tm)
            site = f"{m.relpath}:{s.node.lineno} {tm}"
            ev = [x for r in s.returns for x in walk(r.term) if x[0] == "call" and x[1][0] == "global" and x[1][1].endswith(":Evaluation")]
            if len(ev) != 1:
                ctx.undec("R09.5", site, "Evaluation(...) not found")
                continue
            kw = callkw(ev[0])
            if kw.get("evaluation_task") == ("const", tm):
                ctx.ok("R09.5", site, f"evaluation_task={tm!r}")
            else:
                ctx.bad("R09.5", m.relpath, tm, f"evaluation_task={show(kw.get('evaluation_task', NONE))}",
                        f"the task labels its evaluation {show(kw.get('evaluation_task', NONE))} instead of {tm!r}", s.node.lineno)
            # every comprehension over a metric table in this module builds Feature(term=term, value=metric(truth, scores))
            for name, defs in m.defs.items():
                d = defs[-1]
                if not isinstance(d, ast.FunctionDef):
                    continue
                fs = ctx.summ.of_func(modname, name)
                comps = []
                for e in fs.events:
                    for x in walk(e.term):
                        if x[0] == "comp" and len(x[3]) == 1 and x not in comps:
                            it = x[3][0][1]
                            is_tab = it[0] == "global" and it[1].startswith(modname + ":") and it[1].split(":")[1] in TABLES
                            is_param_tab = it == ("param", "metrics")
                            if is_tab or is_param_tab:
                                comps.append(x)
                for x in comps:
                    lid = x[3][0][0]
                    e = ("elem", lid)
                    term, fn = ("sub", e, ("const", 0)), ("sub", e, ("const", 1))
                    elt = x[2]
                    tabname = x[3][0][1][1].split(":")[1] if x[3][0][1][0] == "global" else "metrics (parameter)"
                    fsite = f"{m.relpath}:{fs.node.lineno} {name}"
                    good = elt[0] == "call" and elt[1] == Feature and callkw(elt).get("term") == term
                    val = callkw(elt).get("value") if elt[0] == "call" else None
                    good = good and val is not None and val[0] == "call" and val[1] == fn and not x[3][0][2]
                    if good:
                        nargs = len(val[2]) + len(val[3])
                        good = nargs == 2
                    if good:
                        ctx.ok("R09.5", fsite, f"[Feature(term=term, value=metric(truth, scores)) for term, metric in {tabname}]")
                    else:
                        ctx.bad("R09.5", m.relpath, name, f"metrics from {tabname}: {show(elt)[:80]}",
                                f"{tm}.{name}: the metric list is not [Feature(term=term, value=metric(truth, scores)) for every "
                                f"(term, metric) row of {tabname}]", fs.node.lineno)
            # table <-> level: RUN on Evaluation, EXAMPLE on ClipEvaluation, SOUNDEVENT on Match
            self.levels(tm, modname, m)

    def tables_of(self, v, modname, m, fname, fs, depth):
        """The metric tables whose rows the value `v` (a metrics= argument inside function `fname`) is computed from.
        The arguments of in-module helper calls and the elements of comprehensions are data (truth, scores), not the
        metric list: they are not searched; the helper's own returns and the comprehensions' iterables are."""
        ctx = self.ctx
        tabs = set()
        if depth > 4:
            return tabs
        stack = [v]
        while stack:
            y = stack.pop()
            if not isinstance(y, tuple) or not y:
                continue
            if not isinstance(y[0], str):
                stack.extend(c for c in y if isinstance(c, tuple))
                continue
            if y[0] == "comp":
                # the rows come from the iterables; what the elements are computed from is data
                stack.extend(g[1] for g in y[3])
                continue
            if y[0] == "global" and y[1].startswith(modname + ":") and y[1].split(":")[1] in TABLES:
                tabs.add(y[1].split(":")[1])
                continue
            if y[0] == "call" and y[1][0] == "global" and y[1][2] == "func" and y[1][1].startswith(modname + ":"):
                hname = y[1][1].split(":")[1]
                hs = ctx.summ.of_func(modname, hname)
                for r in hs.returns:
                    tabs |= self.tables_of(r.term, modname, m, hname, hs, depth + 1)
                continue
            if y[0] == "param" and y[1] in fs.params and y[1] == "metrics":
                for cname, cdefs in m.defs.items():
                    if isinstance(cdefs[-1], ast.FunctionDef):
                        cs = ctx.summ.of_func(modname, cname)
                        for ce in cs.calls:
                            if ce.term[1] == ("global", f"{modname}:{fname}", "func"):
                                b, _, _, _ = bind_args(ce.term, fs.params)
                                if b.get("metrics") is not None:
                                    tabs |= self.tables_of(b["metrics"], modname, m, cname, cs, depth + 1)
                continue
            stack.extend(c for c in y[1:] if isinstance(c, tuple))
        return tabs

    def levels(self, tm, modname, m):
        ctx = self.ctx
        level = {"RUN_METRICS": "Evaluation", "EXAMPLE_METRICS": "ClipEvaluation", "SOUNDEVENT_METRICS": "Match"}
        found = {}
        for name, defs in m.defs.items():
            d = defs[-1]
            if not isinstance(d, ast.FunctionDef):
                continue
            fs = ctx.summ.of_func(modname, name)
            for e in fs.events:
                for x in walk(e.term):
                    if x[0] == "call" and x[1][0] == "global" and x[1][2] == "class" and x[1][1].split(":")[1] in level.values():
                        mv = callkw(x).get("metrics")
                        if mv is None:
                            continue
                        tabs = self.tables_of(mv, modname, m, name, fs, 0)
                        for t in tabs:
                            found.setdefault(t, set()).add(x[1][1].split(":")[1])
        for tab, cls in level.items():
            if tab not in m.defs:
                continue
            site = f"{m.relpath} {tab}"
            got = found.get(tab, set())
            _, node = ctx.index.need_assign(modname, tab)
            empty = isinstance(node, (ast.Tuple, ast.List)) and not node.elts
            if got == {cls}:
                ctx.ok("R09.5", site, f"{tab} attached to {cls}.metrics")
            elif not got and empty:
                ctx.ok("R09.5", site, f"{tab} is empty (nothing to attach)")
            elif not got:
                ctx.bad("R09.5", m.relpath, tab, f"{tab} unused", f"{tm}: the metrics of {tab} are never attached to {cls}.metrics", node.lineno)
            else:
                ctx.bad("R09.5", m.relpath, tab, f"{tab} attached to {sorted(got)}",
                        f"{tm}: {tab} must feed {cls}.metrics, found {sorted(got)}", node.lineno)


def run(ctx: Ctx):
    from .common import Settle as _Settle, soften_foreign as _soften
    whole_ = _Settle(ctx)
    try:
        return _run(ctx)
    finally:
        # a finding of these rules about a function written in a formulation they cannot read (state carried through an unresolved
        # loop, functional pipelines, helpers / objects / table entries the engine did not open) is not a finding: undecided
        _soften(ctx, whole_, ("R09.", "R08.", "R19.2"))


def _run(ctx: Ctx):
    ctx.rule("R09.1", "every (term, function) row agrees; terms distinct within a table", 16)
    ctx.rule("R09.2", "metric terms have pairwise distinct labels and names", 8)
    ctx.rule("R09.3", "wrappers delegate to the named scikit-learn function with the specified 'none' handling", 13)
    ctx.rule("R09.4", "every mean over a selection is guarded against emptiness", 1)
    ctx.rule("R09.5", "tasks build metric lists from their own tables, at the right level, under their own name", 18)
    ctx.rule("R09.6", "per-item results and truth / score rows are accumulated in lock-step", 3)
    ctx.rule("R09.8", "per-clip results are constructible: ClipEvaluation gets a match for every sound event it is handed", 4)
    ctx.rule("R09.9", "every metric / scoring function is called as f(truths, score rows) of the evaluated items (provenance typing)", 14)
    ctx.rule("R09.10", "result objects get what their fields name; no reported list stays empty; table lookups under their membership test", 14)
    ctx.rule("R09.11", "task and clip scores are guarded means of the scores of exactly the objects reported next to them", 6)
    ctx.rule("R09.7", "the 'none' probability of an unlabelled item cannot go below 0 (float32 score sums)", 2)
    from .common import Settle, soften_foreign
    st_ = Settle(ctx)
    c = C09(ctx)
    c.tables()
    c.labels()
    c.wrappers()
    c.means()
    c.task_structure()
    c.clip_evaluations_constructible()
    c.lockstep()
    c.flow()
    # a finding of these rules about a function written in a formulation they cannot read (state carried through an unresolved loop,
    # helpers / objects / table entries the engine did not open) is not a finding: undecided
    # "survives an AOEF save/load with every metric intact": the field-carry / elision rules of C01 on the three
    # metric-carrying adapters (anchored files io/aoef/evaluation.py, clip_evaluation.py, match.py)
    from .c01 import C01
    with ctx.delegated("C01/"):
        ctx.rule("R01.1", "field carry of metrics / score in the metric-carrying adapters", 20)
        ctx.rule("R01.2", "inverse field maps of metrics / score", 6)
        ctx.rule("R01.3", "elision / filter agreement of metrics / score", 4)
        ctx.rule("R01.8", "score stored in a document field of the same declared type", 3)
        c1 = C01(ctx)
        for leaf in c1.ao.leaves.values():
            if leaf.name in ("MatchAdapter", "ClipEvaluationAdapter"):
                c1.check_pair(leaf.name, leaf.ci, leaf.D, leaf.O, leaf.writer_name, leaf.reader_name, [], only={"metrics", "score"})
        for col in c1.ao.collections:
            if col.ci.name == "EvaluationAdapter":
                c1.check_pair(col.ci.name, col.ci, col.D, col.O, "to_aoef", "to_soundevent", [], collection=True, only={"metrics", "score"})
    # "over the encoded truths and predicted scores": every task encodes through SimpleEncoder / the *_encoding helpers, so
    # a table keyed by less than the whole tag identity (or an indicator written at the wrong index) changes every value
    # in sound_event_detection the evaluated items are produced by the index bookkeeping of evaluate_clip: which sound events
    # reach the truth / score rows, each exactly once (C08's rules on that function are necessary conditions here)
    from .c08 import C08
    with ctx.delegated("C08/"):
        ctx.rule("R08.2", "index-domain typing of every subscript of the prediction/annotation lists", 4)
        ctx.rule("R08.3", "both lists are covered exactly once by the sources of the match loop", 2)
        ctx.rule("R08.4", "affinity/score flow of two-sided and one-sided matches", 5)
        ctx.rule("R08.7", "three None-cases, exactly one Match each with the right sides", 3)
        C08(ctx).check_evaluate_clip()
    from .c19 import C19
    with ctx.delegated("C19/"):
        ctx.rule("R19.1", "encoder table key == lookup key == whole tag identity; decode / num_classes", 5)
        ctx.rule("R19.2", "first-hit / indicator / score-fill shapes; only vocabulary indices written", 3)
        c19 = C19(ctx)
        c19.check_encoder()
        c19.check_encodings()
    return EXPLANATION, ASSUMPTIONS


def thorough(ctx: Ctx):
    """Package-wide sweep of the R09.4 pattern (np.mean over a comprehension without emptiness guard); NOTE lines
    for hits outside the four task modules (inside them they are rule instances already)."""
    import ast
    n = 0
    for mod in ctx.index.modules.values():
        if mod.name.startswith(TASKS + "."):
            continue
        for name, defs in mod.defs.items():
            for d in defs:
                if not isinstance(d, ast.FunctionDef):
                    continue
                s = ctx.summ.of_func(mod.name, name)
                for e in s.calls:
                    if e.term[1] in (("ext", "numpy.mean"), ("ext", "numpy.nanmean")) and e.term[2] and e.term[2][0][0] == "comp":
                        if e.term[2][0] not in conjuncts(e.live):
                            n += 1
                            ctx.note(f"sweep R09.4: unguarded mean over a comprehension in {mod.relpath}:{e.lineno} {name}")
    ctx.extra["unguarded_means_outside_tasks"] = n
