"""Rules shared by all properties.

G.1 / G.2 -- no hidden state between calls.  Every property is quantified over *every* call (every input, option
combination, sequence of operations): a result that depends on what an earlier call did breaks it without any single
call looking wrong.  Decided structurally on the property's anchor files:

G.1  (also: a key built from `id(obj)` is never sound -- identities are reused and ignore in-place changes.)
     a module-level mutable container that a function of the anchor files fills under a key (`G[k] = v`,
     `G.setdefault(k, v)`) is a memo table: every parameter the stored value depends on -- through the value term, the
     path condition of the store, and, for accumulators, every event that fills them including their loops' iterables and
     break conditions -- must occur in the key.  Otherwise a later call with a different value of the missing parameter
     gets the earlier call's result.  Keyless accumulation into a module-level container inside these functions
     (`G.append(x)` ...) is reported as well.
G.2  a class-level mutable container (not a pydantic field) that a method fills through `self.<name>[...] = ...` /
     `self.<name>.append(...)` without the constructor rebinding `self.<name>` first is shared by all instances.

G.3  a function must not change its arguments in place (stores into, mutator calls on, deletions from anything reached from
     a parameter), except the sites that do so by design on the reference tree (KNOWN_INPUT_MUTATIONS).

All three have an expected count of zero on the tree; the fixture fixtures/shared_state.py is analysed on every run and
both must fire there (a rule that cannot fire passes vacuously forever).
"""
from __future__ import annotations

import ast
from sa.models import dotted_name
import os
from typing import Dict, List, Set

from sa.index import AnalysisError, Index
from sa.report import Ctx, VERIF
from sa.sym import FALSE, Summaries, Summary, conjuncts, show, walk

MUTATORS = {"append", "extend", "insert", "add", "update", "setdefault", "pop", "popitem", "remove", "discard", "clear", "sort"}
CONTAINER_CALLS = {"dict", "list", "set", "defaultdict", "OrderedDict", "Counter", "deque", "WeakValueDictionary", "WeakKeyDictionary", "lru_cache"}

# module-level containers of the reference tree that are written at run time by design (frozen; one reason each)
KNOWN_REGISTRIES = {
    "soundevent.terms.api:registry": "the public term registry (add_term / register) is documented shared state",
}


def _is_mutable_container(node: ast.AST) -> bool:
    if isinstance(node, (ast.Dict, ast.List, ast.Set, ast.DictComp, ast.ListComp, ast.SetComp)):
        return True
    if isinstance(node, ast.Call):
        f = node.func
        name = f.id if isinstance(f, ast.Name) else (f.attr if isinstance(f, ast.Attribute) else None)
        return name in CONTAINER_CALLS
    return False


def _params(t) -> Set[str]:
    return {x[1].lstrip("*") for x in walk(t) if x[0] == "param"}


def _deps(s: Summary, t, seen=None) -> Set[str]:
    """parameters the value `t` depends on (through accumulators and the loops / breaks that fill them)"""
    out = _params(t)
    seen = set() if seen is None else seen
    for x in walk(t):
        if x[0] == "alloc" and x not in seen:
            seen.add(x)
            for e in s.events:
                if any(y == x for y in walk(e.term)):
                    out |= _params(e.term) | _params(e.live)
                    for lid in e.loops:
                        li = s.loops.get(lid)
                        if li is not None:
                            out |= _params(li.iter)
                        for b in s.events:
                            if b.kind in ("break", "continue", "return") and lid in b.loops:
                                out |= _params(b.live)
        if x[0] in ("elem", "phi", "loopout"):
            lid = x[1] if x[0] == "elem" else x[2]
            li = s.loops.get(lid)
            if li is not None and ("L", lid) not in seen:
                seen.add(("L", lid))
                out |= _deps(s, li.iter, seen)
    return out


def _scan(index: Index, summ: Summaries, relfiles: List[str], scope=None):
    """-> (findings, number of functions scanned).  A finding is (rule, file, function, construct, message, line).
    scope: qualified names ('mod:func' / 'mod:Class.meth') to restrict the scan to (None = every function of the files)."""
    cands: Dict[str, ast.AST] = {}
    for m in index.modules.values():
        for name, defs in m.defs.items():
            for d in defs:
                v = d.value if isinstance(d, (ast.Assign, ast.AnnAssign)) else None
                if v is not None and _is_mutable_container(v):
                    cands[f"{m.name}:{name}"] = d
    findings = []
    n_funcs = 0
    for m in index.modules.values():
        if m.relpath not in relfiles:
            continue
        units = []
        for name, defs in m.defs.items():
            for d in defs:
                if isinstance(d, ast.FunctionDef):
                    units.append((name, None, d))
        for ci in m.classes.values():
            for mname, fns in ci.methods.items():
                units.append((f"{ci.name}.{mname}", ci, fns[-1]))
        for qn, ci, fn in units:
            if scope is not None and f"{m.name}:{qn}" not in scope:
                continue
            try:
                s = summ.of_node(m, fn, f"{m.name}:{qn}", ci) if ci is not None else summ.of_func(m.name, qn)
            except (AnalysisError, RecursionError):
                continue
            n_funcs += 1
            # parameters whose default is a mutable container: the default object lives as long as the function
            mdefaults = set()
            a = fn.args
            allp = list(a.posonlyargs) + list(a.args)
            for p_, d_ in list(zip(allp[len(allp) - len(a.defaults):], a.defaults)) + [(p_, d_) for p_, d_ in zip(a.kwonlyargs, a.kw_defaults) if d_ is not None]:
                if _is_mutable_container(d_):
                    mdefaults.add(("param", p_.arg))

            def shared(t):
                if t[0] == "global" and t[2] == "assign" and t[1] in cands and t[1] not in KNOWN_REGISTRIES:
                    return t[1].split(":")[1]
                if t in mdefaults:
                    return f"{t[1]} (mutable default argument)"
                return None

            for e in s.events:
                # ---- G.1 keyed writes
                tgt = key = val = None
                if e.kind == "store" and e.term[1][0] == "sub" and shared(e.term[1][1]):
                    tgt, key, val = e.term[1][1], e.term[1][2], e.term[2]
                elif e.kind == "call" and e.term[1][0] == "attr" and shared(e.term[1][1]) and e.term[1][2] in MUTATORS:
                    tgt = e.term[1][1]
                    if e.term[1][2] == "setdefault" and len(e.term[2]) == 2:
                        key, val = e.term[2]
                if tgt is None:
                    continue
                gname = shared(tgt)
                if key is None:
                    findings.append(("G.1", m.relpath, qn, f"{gname}.{e.term[1][2]}(...)",
                                     f"{qn} accumulates into the module-level container {gname} ({show(e.term)[:70]}): the state survives the "
                                     f"call, so a later call sees what earlier calls left behind", e.lineno))
                    continue
                ids = [x for x in walk(key) if x[0] == "call" and x[1] == ("builtin", "id") and len(x[2]) == 1]
                if ids:
                    findings.append(("G.1", m.relpath, qn, f"{gname}[{show(key)[:50]}] = ...",
                                     f"{qn} memoises in the shared table {gname} under a key built from `{show(ids[0])}`: the identity of an "
                                     f"object is reused once it is freed and says nothing about its contents, so a later, different "
                                     f"{show(ids[0][2][0])} (or the same one after it was changed in place) is answered with the stale entry",
                                     e.lineno))
                    continue
                guards = [c for c in conjuncts(e.live) if not any(y == tgt for y in walk(c)) and c[0] != "inloop"]
                need = _deps(s, val)
                for g in guards:
                    need |= _params(g)
                have = _deps(s, key)
                missing = sorted(need - have - {"self", "cls"} - ({tgt[1]} if tgt[0] == "param" else set()))
                if missing:
                    findings.append(("G.1", m.relpath, qn, f"{gname}[{show(key)[:50]}] = ...",
                                     f"{qn} memoises in the shared table {gname} under the key `{show(key)[:80]}`, but the stored value "
                                     f"also depends on {missing}: a later call that differs only in {missing[0]} is answered with the "
                                     f"earlier call's result", e.lineno))
    # ---- G.2 class-level containers mutated through self
    for m in index.modules.values():
        if m.relpath not in relfiles:
            continue
        for ci in m.classes.values():
            if any(b.split(".")[-1] in ("BaseModel", "NamedTuple", "Enum", "TypedDict") for c in ci.mro() for b in c.ext_bases):
                continue
            if scope is not None and not any(q.startswith(f"{m.name}:{ci.name}.") for q in scope):
                continue
            shared = {}
            for st in ci.node.body:
                tgts = []
                if isinstance(st, ast.Assign):
                    tgts = [t.id for t in st.targets if isinstance(t, ast.Name)]
                    v = st.value
                elif isinstance(st, ast.AnnAssign) and isinstance(st.target, ast.Name) and st.value is not None:
                    tgts, v = [st.target.id], st.value
                else:
                    continue
                if _is_mutable_container(v):
                    for t in tgts:
                        shared[t] = st
            if not shared:
                continue
            SELF = ("param", "self")
            rebound = set()
            init = ci.find_method("__init__")
            if init is not None:
                try:
                    si = summ.of_node(init[0].module, init[1], f"{init[0].qual}.__init__", init[0])
                    for e in si.of("store"):
                        if e.term[1][0] == "attr" and e.term[1][1] == SELF and e.live == ("const", True):
                            rebound.add(e.term[1][2])
                except (AnalysisError, RecursionError):
                    pass
            for mname, fns in ci.methods.items():
                try:
                    s = summ.of_node(m, fns[-1], f"{ci.qual}.{mname}", ci)
                except (AnalysisError, RecursionError):
                    continue
                for e in s.events:
                    at = None
                    if e.kind == "store" and e.term[1][0] == "sub" and e.term[1][1][0] == "attr" and e.term[1][1][1] == SELF:
                        at = e.term[1][1][2]
                    elif e.kind == "call" and e.term[1][0] == "attr" and e.term[1][2] in MUTATORS and e.term[1][1][0] == "attr" \
                            and e.term[1][1][1] == SELF:
                        at = e.term[1][1][2]
                    if at in shared and at not in rebound:
                        findings.append(("G.2", m.relpath, f"{ci.name}.{mname}", f"self.{at} (class-level container) mutated",
                                         f"{ci.name}.{at} is a class-level {type(shared[at].value).__name__.lower() if hasattr(shared[at], 'value') else 'container'} "
                                         f"that {mname} fills through self without the constructor rebinding it: all instances share one "
                                         f"object, so one instance's entries answer for another's", e.lineno))
    return findings, n_funcs


# parameter mutations that exist on the reference tree by design (frozen; one reason each)
KNOWN_INPUT_MUTATIONS = {
    ("soundevent.arrays.dimensions:set_dim_attrs", "array"): "documented to update the coordinate's attrs in place",
    ("soundevent.arrays.operations:set_value_at_pos", "array"): "documented to write into the array it is given",
    ("soundevent.data.features:Feature.handle_deprecated_name", "values"): "pydantic before-validator rewriting its raw input dict",
    ("soundevent.data.tags:Tag.handle_deprecated_key", "values"): "pydantic before-validator rewriting its raw input dict",
}


def _root(t):
    while t[0] in ("attr", "sub"):
        t = t[1]
    return t


def _input_mutations(qual: str, s: Summary):
    """G.3: stores into / mutator calls on / deletions from something reached from a parameter (other than self)"""
    out = []
    for e in s.events:
        tgt = None
        if e.kind == "store":
            tgt = e.term[1]
        elif e.kind == "call" and e.term[1][0] == "attr" and e.term[1][2] in MUTATORS:
            tgt = e.term[1][1]
        elif e.kind == "delete":
            tgt = e.term
        if tgt is None:
            continue
        r = _root(tgt)
        if r[0] == "param" and r[1] not in ("self", "cls") and tgt != r and not r[1].startswith("*"):
            if (qual, r[1]) in KNOWN_INPUT_MUTATIONS:
                continue
            out.append((e, r[1], tgt))
    return out


def _only_fresh_arguments(index, sm_, fn: str, pname: str) -> bool:
    """`fn` is a private module-level function, it is only ever CALLED by name (never passed around), and every call hands it a
    freshly built display / comprehension / dict(...) / list(...) for `pname`: the object it changes is nobody else's."""
    if not fn.startswith("_") or "." in fn or fn.startswith("__") or not isinstance(sm_.node, ast.FunctionDef):
        return False
    a = sm_.node.args
    names = [x.arg for x in a.posonlyargs + a.args]
    if pname not in names + [x.arg for x in a.kwonlyargs]:
        return False
    pos = names.index(pname) if pname in names else None
    calls = 0

    def is_fresh(v):
        return isinstance(v, (ast.Dict, ast.List, ast.Set, ast.DictComp, ast.ListComp, ast.SetComp)) or (
            isinstance(v, ast.Call) and isinstance(v.func, ast.Name) and v.func.id in ("dict", "list", "set"))

    def own_local(fnode, name):
        """`name` is a plain local of the calling function, bound only by assignments of freshly built containers"""
        if fnode is None:
            return False
        a_ = fnode.args
        if name in [x.arg for x in a_.posonlyargs + a_.args + a_.kwonlyargs] or (a_.vararg and a_.vararg.arg == name):
            return False
        binds = 0
        for x in ast.walk(fnode):
            if isinstance(x, (ast.Global, ast.Nonlocal)) and name in x.names:
                return False
            if isinstance(x, ast.Name) and x.id == name and isinstance(x.ctx, (ast.Store, ast.Del)):
                binds += 1
        ok = 0
        for x in ast.walk(fnode):
            if isinstance(x, ast.Assign) and len(x.targets) == 1 and isinstance(x.targets[0], ast.Name) and x.targets[0].id == name and is_fresh(x.value):
                ok += 1
            elif isinstance(x, ast.AnnAssign) and isinstance(x.target, ast.Name) and x.target.id == name and x.value is not None and is_fresh(x.value):
                ok += 1
        return binds > 0 and binds == ok

    for m in index.modules.values():
        called = set()
        owner = {}
        for f_ in ast.walk(m.tree):
            if isinstance(f_, (ast.FunctionDef, ast.AsyncFunctionDef)):
                for x in ast.walk(f_):
                    if isinstance(x, ast.Call):
                        owner[id(x)] = f_  # the innermost function wins (walk visits outer functions first)
        for nd in ast.walk(m.tree):
            if isinstance(nd, ast.Call) and isinstance(nd.func, ast.Name) and nd.func.id == fn:
                called.add(id(nd.func))
                if any(isinstance(x, ast.Starred) for x in nd.args) or any(k.arg is None for k in nd.keywords):
                    return False
                v = nd.args[pos] if pos is not None and pos < len(nd.args) else next((k.value for k in nd.keywords if k.arg == pname), None)
                fresh = is_fresh(v) or (isinstance(v, ast.Name) and own_local(owner.get(id(nd)), v.id))
                if not fresh:
                    return False
                calls += 1
        for nd in ast.walk(m.tree):
            if isinstance(nd, ast.Name) and nd.id == fn and isinstance(nd.ctx, ast.Load) and id(nd) not in called:
                return False  # handed on as a value: its callers are not all visible
            if isinstance(nd, ast.Attribute) and nd.attr == fn:
                return False
    return calls > 0


_FIXTURE_OK = None


def _fixture_fires() -> bool:
    """Both rules must fire on fixtures/shared_state.py (analysed as a one-module package overlay)."""
    global _FIXTURE_OK
    if _FIXTURE_OK is None:
        src = open(os.path.join(VERIF, "fixtures", "shared_state.py"), encoding="utf-8").read()
        rel = os.path.join("src", "soundevent", "_shared_state_fixture.py")
        try:
            ix = Index(_ROOT[0], {rel: src})
            sms = Summaries(ix)
            f, _ = _scan(ix, sms, [rel], None)
            g3 = _input_mutations("soundevent._shared_state_fixture:relabel", sms.of_func("soundevent._shared_state_fixture", "relabel"))
            _FIXTURE_OK = {r for r, *_ in f} == {"G.1", "G.2"} and len(g3) == 1
        except Exception:  # noqa: BLE001
            _FIXTURE_OK = False
    return _FIXTURE_OK


_ROOT = ["/repo"]


def check_shared_state(ctx: Ctx, files: List[str]):
    ctx.rule("G.1", "no module-level memo / accumulator whose key misses an input (state leaking between calls)", 1)
    ctx.rule("G.2", "no class-level container mutated through self (state shared between instances)", 1)
    _ROOT[0] = ctx.index.root
    if not _fixture_fires():
        ctx.undec("G.1", "fixtures/shared_state.py", "the positive fixture is not reported: the shared-state rules cannot fire")
        return
    relfiles = [f for f in files]
    # scope: the functions this property's rules summarised, and every helper spliced into them
    scope = set()
    for q, sm_ in list(ctx.summ._cache.items()):
        scope.add(q.replace(".", ":", 0))
        scope.add(sm_.qual)
        scope |= set(sm_.inlined)
        for ls in sm_.lambdas.values():
            scope |= set(ls.inlined)
    scope = {q if ":" in q else q for q in scope}
    findings, n = _scan(ctx.index, ctx.summ, relfiles, scope)
    for rule, file, func, construct, msg, line in findings:
        ctx.bad(rule, file, func, construct, msg, line)
    # a memoised factory: functools.lru_cache / cache on a function of the anchor files that BUILDS an object (calls a class or a
    # callable it was handed) returns the same mutable object to every later call with equal arguments -- whatever that object
    # accumulated (identifier tables, stores) is carried from one call into the next
    for m in ctx.index.modules.values():
        if m.relpath not in relfiles:
            continue
        for fn in ast.walk(m.tree):
            if not isinstance(fn, (ast.FunctionDef, ast.AsyncFunctionDef)):
                continue
            memo = [d for d in fn.decorator_list if (dotted_name(d.func if isinstance(d, ast.Call) else d) or "").split(".")[-1] in ("lru_cache", "cache")]
            if not memo:
                continue
            params = {a.arg for a in list(fn.args.posonlyargs) + list(fn.args.args) + list(fn.args.kwonlyargs)}
            builds = None
            for r in ast.walk(fn):
                if isinstance(r, ast.Return) and isinstance(r.value, ast.Call):
                    f_ = r.value.func
                    root = f_
                    while isinstance(root, ast.Attribute):
                        root = root.value
                    callee = dotted_name(f_) or ""
                    if (isinstance(root, ast.Name) and root.id in params) or callee.split(".")[-1][:1].isupper():
                        builds = r
            if builds is not None:
                ctx.bad("G.1", m.relpath, fn.name, f"@{ast.unparse(memo[0])[:40]} def {fn.name}(...) -> {ast.unparse(builds.value)[:50]}",
                        f"{fn.name} is memoised and returns an object it builds (`{ast.unparse(builds.value)[:70]}`): every later call with equal "
                        f"arguments receives the SAME object, with whatever state (identifier tables, stores, accumulated entries) the "
                        f"earlier calls left in it", fn.lineno)
    # a class-level default that is an INSTANCE of an in-package class with state -- `field(default=UserAdapter())` in a dataclass, or
    # `x: T = UserAdapter()` in a class body -- is one object shared by every instance of the class: what one of them registers in
    # it is seen by all the others (python only refuses list / dict / set defaults)
    for m in ctx.index.modules.values():
        if m.relpath not in relfiles and not any(m.name in q for q in scope) and os.path.dirname(m.relpath) not in {os.path.dirname(f_) for f_ in relfiles}:
            continue
        for ci in m.classes.values():
            for st in ci.node.body:
                if not isinstance(st, (ast.AnnAssign, ast.Assign)) or st.value is None:
                    continue
                v = st.value
                if isinstance(v, ast.Call) and (dotted_name(v.func) or "").split(".")[-1] == "field":
                    v = next((k.value for k in v.keywords if k.arg == "default"), None)
                if not isinstance(v, ast.Call):
                    continue
                try:
                    sy = ctx.index.resolve_expr(m, v.func)
                except Exception:  # noqa: BLE001
                    sy = None
                if sy is None or sy.kind != "class" or sy.cls is None or ctx.models.is_model(sy.cls) or sy.cls.has_ext_base("Enum"):
                    continue
                inits = [c.methods["__init__"][-1] for c in sy.cls.mro() if "__init__" in c.methods]
                stateful = any(isinstance(x, (ast.Assign, ast.AnnAssign))
                               and any(isinstance(t, ast.Attribute) and isinstance(t.value, ast.Name) and t.value.id == "self" for t in (x.targets if isinstance(x, ast.Assign) else [x.target]))
                               and isinstance(x.value, (ast.Dict, ast.List, ast.Set, ast.Call)) for i_ in inits for x in ast.walk(i_))
                if stateful:
                    tgt = ast.unparse(st.target if isinstance(st, ast.AnnAssign) else st.targets[0])
                    ctx.bad("G.2", m.relpath, ci.name, f"{tgt} = {ast.unparse(st.value)[:60]}",
                            f"the class-level default of {ci.name}.{tgt} is ONE {sy.cls.name} object created when the class is defined and shared by "
                            f"every instance that does not override it: what one of them stores in it (registered objects, identifier tables) "
                            f"shows up in all the others", st.lineno)
    # G.3 on the summaries the rules used (helpers spliced in: a helper that fills a list it is handed is local state there)
    ctx.rule("G.3", "no in-place change of an argument (aliasing / input mutation)", 1)
    n3 = 0
    for q, sm_ in list(ctx.summ._cache.items()):
        if sm_.module.relpath not in relfiles or not isinstance(sm_.node, ast.FunctionDef):
            continue
        n3 += 1
        for e, pname, tgt in _input_mutations(sm_.qual, sm_):
            fn = sm_.qual.split(":")[-1]
            if tgt[0] in ("sub", "attr") and tgt[1] == ("param", pname) and _only_fresh_arguments(ctx.index, sm_, fn, pname):
                continue  # a private helper finishing a container every caller builds for it on the spot: nobody else holds that object
            ctx.bad("G.3", sm_.module.relpath, fn, f"{show(e.term)[:70]}",
                    f"{fn} changes its argument `{pname}` in place ({show(tgt)[:60]}): the caller's object is different after the call, so "
                    f"whatever uses it next (or a second call with the same object) sees the altered state", e.lineno)
    ctx.ok("G.3", f"{len(relfiles)} anchor file(s)", f"{n3} summarised functions scanned; positive fixture reported")
    ctx.ok("G.1", f"{len(relfiles)} anchor file(s)", f"{n} functions scanned; positive fixture reported")
    ctx.ok("G.2", f"{len(relfiles)} anchor file(s)", "classes of the anchor files scanned; positive fixture reported")


# ---------------------------------------------------------------------------------- G.4 / G.5 declarations
# Declarations are data the run-time acts on: the order and defaults of a public function's parameters are its calling
# convention, a model's config / field types / Field constraints are what pydantic validates with.  A deviation from the
# declarations of the reference tree (sa/pinned_decls.json, generated by tools/gen_pinned_decls.py on a tree on which every
# check passes) changes behaviour by construction: positional callers bind other parameters, default calls compute with
# other values, inputs are coerced / rejected / transformed differently.  Additions (a new trailing parameter, a new
# field) are not deviations.

PYDANTIC_CONFIG_DEFAULTS = {"extra": "ignore", "frozen": False, "str_strip_whitespace": False, "str_to_lower": False, "str_to_upper": False,
                            "validate_assignment": False, "from_attributes": False, "populate_by_name": False, "strict": False,
                            "arbitrary_types_allowed": False, "use_enum_values": False, "validate_default": False, "revalidate_instances": "never",
                            "coerce_numbers_to_str": False, "protected_namespaces": ("model_",)}
# special methods that change how instances compare, hash, test true, iterate or are built: part of a model's declaration
def _REFERENCE_CLASS_NAMES():
    global _REF_CLASSES
    try:
        return _REF_CLASSES
    except NameError:
        import json as _json
        try:
            d = _json.load(open(os.path.join(VERIF, "sa", "pinned_decls.json")))
            _REF_CLASSES = {k.split(":")[-1] for k in d.get("classes", {})} | {k.split(":")[-1] for k in d.get("models", {})}
        except Exception:  # noqa: BLE001
            _REF_CLASSES = set()
        return _REF_CLASSES


PROTOCOL_METHODS = {"__eq__", "__ne__", "__hash__", "__len__", "__bool__", "__iter__", "__getitem__", "__contains__", "__lt__", "__le__",
                    "__gt__", "__ge__", "__getattr__", "__setattr__", "__init__", "model_post_init", "__post_init__", "__new__"}
CONSTRAINT_KEYS = ("ge", "gt", "le", "lt", "min_length", "max_length", "min_items", "max_items", "pattern", "regex", "multiple_of", "strict",
                   "allow_inf_nan", "max_digits", "decimal_places", "frozen", "alias", "validation_alias", "serialization_alias", "exclude")


def _shape_json(t):
    """a field shape with classes named by their bare name (a class that moves to another module is the same class)"""
    if isinstance(t, tuple):
        if len(t) == 2 and t[0] == "cls" and isinstance(t[1], str):
            return ["cls", t[1].split(":")[-1]]
        return [_shape_json(c) for c in t]
    return t


def _term_json(t):
    if isinstance(t, tuple):
        return [_term_json(c) for c in t]
    if isinstance(t, frozenset):
        return {"__fs__": sorted(repr(c) for c in t)}
    if isinstance(t, float) and t != t:
        return "nan"
    if isinstance(t, (bytes, complex)) or t is Ellipsis:
        return repr(t)
    return t


def func_decl(index, module, node, cls):
    """{"pos": [positional parameter names in order], "kwonly": [...], "defaults": {name: term}} of a def"""
    from sa.sym import Evaluator
    a = node.args
    pos = [p.arg for p in list(a.posonlyargs) + list(a.args)]
    kwonly = [p.arg for p in a.kwonlyargs]
    ev = Evaluator(index, module, node, f"{module.name}:{node.name}", cls)
    defaults = {}
    allp = list(a.posonlyargs) + list(a.args)
    for p, d in zip(allp[len(allp) - len(a.defaults):], a.defaults):
        try:
            defaults[p.arg] = _term_json(ev.ev_quiet(d))
        except Exception:  # noqa: BLE001 - a default the engine cannot read is compared as text
            defaults[p.arg] = ["text", ast.unparse(d)]
    for p, d in zip(a.kwonlyargs, a.kw_defaults):
        if d is not None:
            try:
                defaults[p.arg] = _term_json(ev.ev_quiet(d))
            except Exception:  # noqa: BLE001
                defaults[p.arg] = ["text", ast.unparse(d)]
    return {"pos": pos, "kwonly": kwonly, "defaults": defaults, "vararg": bool(a.vararg), "kwarg": bool(a.kwarg)}


def _const_of(node, index=None, module=None, _depth=0):
    try:
        return _term_json(ast.literal_eval(node))
    except Exception:  # noqa: BLE001
        pass
    # a module-level named constant stands for its value (`DEFAULT_TIME_EXPANSION = 1.0`)
    if index is not None and module is not None and isinstance(node, (ast.Name, ast.Attribute)) and _depth < 4:
        try:
            sy = index.resolve_expr(module, node)
        except Exception:  # noqa: BLE001
            sy = None
        if sy is not None and sy.kind == "assign" and sy.module is not None:
            d = [x for x in sy.module.defs.get(sy.qual.split(":")[1], []) if isinstance(x, (ast.Assign, ast.AnnAssign)) and x.value is not None]
            if len(d) == 1:
                return _const_of(d[0].value, index, sy.module, _depth + 1)
    return ["text", ast.unparse(node)]


def model_decl(index, models, ci, summ=None):
    cfg = {k: _const_of(v, index, ci.module) for k, v in models.model_config(ci).items()}
    cfg = {k: v for k, v in cfg.items() if PYDANTIC_CONFIG_DEFAULTS.get(k, object()) != v and not (isinstance(v, list) and tuple(v) == PYDANTIC_CONFIG_DEFAULTS.get(k))}
    fields = {}
    for f in models.fields(ci):
        meta = []
        ann = f.ann
        mod_ = f.owner.module
        for _ in range(5):  # a module-level alias (`Seconds = Annotated[float, ...]`) stands for what it abbreviates
            if not isinstance(ann, (ast.Name, ast.Attribute)):
                break
            try:
                sy = index.resolve_expr(mod_, ann)
            except Exception:  # noqa: BLE001
                sy = None
            if sy is None or sy.kind != "assign" or sy.module is None:
                break
            d = [x for x in sy.module.defs.get(sy.qual.split(":")[1], []) if isinstance(x, (ast.Assign, ast.AnnAssign)) and x.value is not None]
            if len(d) != 1:
                break
            ann, mod_ = d[0].value, sy.module
        for x in ast.walk(ann):
            if isinstance(x, ast.Subscript) and ast.unparse(x.value).split(".")[-1] == "Annotated" and isinstance(x.slice, ast.Tuple):
                meta += [ast.unparse(y) for y in x.slice.elts[1:]
                         if not (isinstance(y, ast.Call) and ast.unparse(y.func).split(".")[-1] == "Field"
                                 and all(k.arg in CONSTRAINT_KEYS for k in y.keywords) and not y.args)  # (constraints: compared below)
                         and not (isinstance(y, ast.Call) and ast.unparse(y.func).split(".")[-1] in ("AfterValidator", "BeforeValidator", "PlainValidator")
                                  and len(y.args) == 1 and isinstance(y.args[0], (ast.Name, ast.Attribute)))]  # (validators: read as hooks / by the acceptance rules)
        fields[f.name] = {"shape": _shape_json(f.shape), "meta": meta,
                          "constraints": {k: _const_of(v, index, f.owner.module) for k, v in f.field_kwargs.items() if k in CONSTRAINT_KEYS},
                          "default": None if f.default is None else _const_of(f.default, index, f.owner.module),
                          "factory": None if f.default_factory is None else ast.unparse(f.default_factory)}
    protocol = {n for n in ci.methods if n in PROTOCOL_METHODS}
    # ... also supplied as a class-level value (`__hash__ = hash_by("uuid")`) or by a base class of the package that the reference tree
    # does not have (a shared `IdentifiedModel`): the class still has the method, what it computes is the business of the property's rule
    for st in ci.node.body:
        tg = st.targets if isinstance(st, ast.Assign) else ([st.target] if isinstance(st, ast.AnnAssign) and st.value is not None else [])
        protocol |= {t_.id for t_ in tg if isinstance(t_, ast.Name) and t_.id in PROTOCOL_METHODS and not (isinstance(st.value, ast.Constant) and st.value.value is None)}
    try:
        for b in ci.mro()[1:]:
            if b.module.name.startswith("soundevent") and b.name not in _REFERENCE_CLASS_NAMES():
                protocol |= {n for n in b.methods if n in PROTOCOL_METHODS}
    except Exception:  # noqa: BLE001
        pass
    # ... or set on the class by a decorator of the package (`@hashed_by("uuid")` whose body does `cls.__hash__ = ...`)
    for d in ci.node.decorator_list:
        f_ = d.func if isinstance(d, ast.Call) else d
        try:
            sy_ = index.resolve_expr(ci.module, f_) if isinstance(f_, (ast.Name, ast.Attribute)) else None
        except Exception:  # noqa: BLE001
            sy_ = None
        if sy_ is not None and sy_.kind == "func" and sy_.node is not None:
            for x in ast.walk(sy_.node):
                if isinstance(x, ast.Assign):
                    protocol |= {t_.attr for t_ in x.targets if isinstance(t_, ast.Attribute) and t_.attr in PROTOCOL_METHODS}
                elif isinstance(x, ast.Call) and isinstance(x.func, ast.Name) and x.func.id == "setattr" and len(x.args) == 3 \
                        and isinstance(x.args[1], ast.Constant) and x.args[1].value in PROTOCOL_METHODS:
                    protocol.add(x.args[1].value)
    protocol = sorted(protocol)
    return {"config": cfg, "fields": fields, "protocol": protocol, "hooks": model_hooks(index, models, ci, summ)}


HOOK_DECORATORS = {"field_serializer", "model_serializer", "computed_field", "validator", "root_validator"}


def model_hooks(index, models, ci, summ=None):
    """The hooks of a model (own and inherited) that put another value into / out of an instance than the one supplied:
    validators that REWRITE (a return value other than the validated value itself, a store into it or into self), serialisers,
    computed fields.  Validators that only inspect and raise are not listed: they are the business of the rules on the
    acceptance set.  -> sorted [[owner class, kind, mode, fields...], ...]"""
    from sa.sym import Summaries
    summ = summ or Summaries(index)
    out = []
    for v in models.validators(ci):
        try:
            s = summ.of_node(v.owner.module, v.node, f"{v.owner.qual}.{v.name}", v.owner)
        except Exception:  # noqa: BLE001
            out.append([v.owner.name, v.kind + "-validator", v.mode, *v.fields, "?"])
            continue
        params = {("param", p) for p in s.params}
        rewrites = any(r.term not in params for r in s.returns) or s.fall_live != FALSE
        for e in s.of("store"):
            tgt = e.term[1] if len(e.term) > 1 else None
            root = tgt
            while isinstance(root, tuple) and root and root[0] in ("attr", "sub"):
                root = root[1]
            if root in params:
                rewrites = True
        for e in s.calls:
            f = e.term[1]
            if f[0] == "attr" and f[2] in MUTATORS | {"__setattr__", "__setitem__"}:
                root = f[1]
                while isinstance(root, tuple) and root and root[0] in ("attr", "sub"):
                    root = root[1]
                if root in params:
                    rewrites = True
            if f in (("builtin", "setattr"), ("attr", ("builtin", "object"), "__setattr__")) and e.term[2] and e.term[2][0] in params:
                rewrites = True
        if rewrites:
            out.append([v.owner.name, v.kind + "-validator", v.mode, *v.fields])
    for c in ci.mro():
        for st in c.node.body:
            if isinstance(st, ast.FunctionDef):
                for d in st.decorator_list:
                    call = d if isinstance(d, ast.Call) else None
                    name = ast.unparse(call.func if call else d).split(".")[-1]
                    if name in HOOK_DECORATORS:
                        out.append([c.name, name, "", *[a.value for a in (call.args if call else []) if isinstance(a, ast.Constant)]])
    return sorted(out)


IGNORABLE_BASES = {"ABC", "Generic", "Protocol", "object"}


def class_decl(ci):
    """base classes by their last name component (an Enum with a str mixin is another type than a bare Enum)"""
    bases = sorted({ast.unparse(b.value if isinstance(b, ast.Subscript) else b).split(".")[-1] for b in ci.base_exprs} - IGNORABLE_BASES)
    return {"bases": bases}


def _is_const_display(v):
    """a constant or a (nested) tuple / list display of constants (a class-level table of names), or nothing"""
    if v is None or isinstance(v, ast.Constant):
        return True
    if isinstance(v, (ast.Tuple, ast.List)):
        return all(_is_const_display(e) for e in v.elts)
    return False


def plain_new_bases(ci, ref_classes):
    """names of the bases of ci that are in-package classes introduced after the reference tree and plain: no external ancestry, no
    special method other than the constructor (which the rules read through super().__init__), no annotated class attributes --
    such a base shares code without changing what kind of object the instances are"""
    known = {q.split(":")[-1] for q in ref_classes}
    out = set()
    for b in ci.bases:
        if b.name not in known and all(not (set(x.split(".")[-1] for x in c.ext_bases) - IGNORABLE_BASES)
                                       and not ({n for n in c.methods if n in PROTOCOL_METHODS} - {"__init__"})
                                       and not any(isinstance(st, ast.AnnAssign) and not _is_const_display(st.value) for st in c.node.body) for c in b.mro()):
            out.add(b.name)
    return out


def package_exports(index):
    """{package module: {public name: [kind, canonical qual]}} for the functions / classes the package's __init__ modules bind"""
    out = {}
    for m in index.modules.values():
        if not m.is_pkg:
            continue
        names = {}
        for n in list(m.imports) + list(m.defs):
            if n.startswith("_"):
                continue
            try:
                sy = index.resolve(m, n)
            except Exception:  # noqa: BLE001
                sy = None
            if sy is not None and sy.kind in ("func", "class") and ":" in sy.qual and sy.module is not None:
                names[n] = [sy.kind, sy.qual]
        out[m.name] = names
    return out


def module_constants(m):
    """{"mod:NAME": literal} for the module-level names in capitals bound once to a number, string or boolean"""
    out = {}
    for name, defs in m.defs.items():
        if not name.isupper() or len(defs) != 1 or not isinstance(defs[0], (ast.Assign, ast.AnnAssign)) or defs[0].value is None:
            continue
        v = defs[0].value
        if isinstance(v, ast.UnaryOp) and isinstance(v.op, ast.USub) and isinstance(v.operand, ast.Constant):
            try:
                out[f"{m.name}:{name}"] = -v.operand.value
            except TypeError:
                pass
        elif isinstance(v, ast.Constant) and isinstance(v.value, (int, float, str, bool)):
            out[f"{m.name}:{name}"] = v.value
    return out


def _load_decls():
    import json
    p = os.path.join(os.path.dirname(os.path.dirname(os.path.abspath(__file__))), "sa", "pinned_decls.json")
    try:
        with open(p) as f:
            return json.load(f)
    except OSError:
        return None


def check_declarations(ctx: Ctx, files: List[str]):
    from sa.index import pick_def
    ref = _load_decls()
    ctx.rule("G.4", "public signatures keep the reference's positional order and default values", 1)
    ctx.rule("G.5", "model declarations (config, field types, constraints, defaults) agree with the reference", 1)
    if ref is None:
        ctx.undec("G.4", "sa/pinned_decls.json", "reference declaration table missing")
        return
    index, models = ctx.index, ctx.models
    mods = [m for m in index.modules.values() if m.relpath in files]
    # what the anchored code is built on: the package modules it imports names from (one hop) -- a declaration changed there
    # (a default of a shared helper, a model's config, a constant) changes the anchored behaviour although its text is untouched
    seen_m = {m.name for m in mods}
    for m in list(mods):
        for st in ast.walk(m.tree):
            tm = None
            if isinstance(st, ast.ImportFrom) and st.module and st.level == 0 and st.module.startswith("soundevent"):
                for a in st.names:
                    cand = index.modules.get(f"{st.module}.{a.name}")
                    if cand is not None and cand.name not in seen_m:
                        seen_m.add(cand.name)
                        mods.append(cand)
                tm = index.modules.get(st.module)
            elif isinstance(st, ast.Import):
                for a in st.names:
                    if a.name.startswith("soundevent"):
                        tm = index.modules.get(a.name)
            if tm is not None and tm.name not in seen_m:
                seen_m.add(tm.name)
                mods.append(tm)
    # package __init__ modules only re-export: follow them to where the imported names are defined
    for m in list(mods):
        if m.relpath.endswith("__init__.py"):
            for st in m.tree.body:
                if isinstance(st, ast.ImportFrom) and st.module and st.level == 0 and st.module.startswith("soundevent"):
                    tm = index.modules.get(st.module)
                    if tm is not None and tm.name not in seen_m:
                        seen_m.add(tm.name)
                        mods.append(tm)
    # one hop: model classes named in the annotations of the public functions of the anchor files
    extra_classes = {}
    n_f = n_m = 0
    for m in mods:
        units = [(name, None, pick_def([d for d in defs if isinstance(d, ast.FunctionDef)])) for name, defs in m.defs.items()
                 if any(isinstance(d, ast.FunctionDef) for d in defs)]
        for ci in m.classes.values():
            units += [(f"{ci.name}.{mn}", ci, pick_def(fns)) for mn, fns in ci.methods.items()]
        exported = None
        for st in m.tree.body:
            if isinstance(st, ast.Assign) and any(isinstance(t, ast.Name) and t.id == "__all__" for t in st.targets) \
                    and isinstance(st.value, (ast.List, ast.Tuple)):
                exported = {e.value for e in st.value.elts if isinstance(e, ast.Constant) and isinstance(e.value, str)}
        for qn, ci, fn in units:
            leaf = qn.split(".")[-1]
            public = not leaf.startswith("_") or leaf in ("__init__", "__call__")
            if public and exported is not None and qn.split(".")[0] not in exported:
                public = False  # the module states its public names: everything else is internal and may be re-parameterised
            if public:
                for p in list(fn.args.posonlyargs) + list(fn.args.args) + list(fn.args.kwonlyargs):
                    if p.annotation is not None:
                        for x in ast.walk(p.annotation):
                            if isinstance(x, (ast.Name, ast.Attribute)):
                                try:
                                    sy = index.resolve_expr(m, x)
                                except Exception:  # noqa: BLE001
                                    sy = None
                                if sy is not None and sy.kind == "class" and ":" in sy.qual:
                                    c2 = index.class_by_qual(sy.qual)
                                    if c2 is not None and models.is_model(c2):
                                        extra_classes[c2.qual] = c2
            r = ref["functions"].get(f"{m.name}:{qn}")
            if r is None or not public:
                continue
            n_f += 1
            cur = func_decl(index, m, fn, ci)
            site = f"{m.relpath}:{fn.lineno} {qn}"
            if cur["pos"][:len(r["pos"])] != r["pos"] and not (set(r["pos"]) <= set(cur["pos"] + cur["kwonly"]) and False):
                moved = [p for i, p in enumerate(r["pos"]) if i >= len(cur["pos"]) or cur["pos"][i] != p]
                ctx.bad("G.4", m.relpath, qn, f"def {leaf}({', '.join(cur['pos'])})",
                        f"the positional parameters of {qn} are ({', '.join(cur['pos'])}) but callers were written against "
                        f"({', '.join(r['pos'])}): a positional argument now binds `{moved[0]}`'s slot to another parameter "
                        f"(keyword-only callers do not notice, which is why nothing in the package fails)", fn.lineno,
                        witness={"reference_order": r["pos"], "current_order": cur["pos"]})
                continue
            bad_default = None
            for p, dv in r["defaults"].items():
                if p in cur["defaults"] and cur["defaults"][p] != dv:
                    bad_default = (p, dv, cur["defaults"][p])
                    break
                if p not in cur["defaults"] and p in cur["pos"] + cur["kwonly"]:
                    bad_default = (p, dv, "<required>")
                    break
            if bad_default:
                p, dv, cv = bad_default
                ctx.bad("G.4", m.relpath, qn, f"{p}={_show_json(cv)}",
                        f"the default of `{p}` in {qn} is {_show_json(cv)} where the reference declares {_show_json(dv)}: every call that "
                        f"relies on the default now computes with another value", fn.lineno,
                        witness={"parameter": p, "reference_default": _show_json(dv), "current_default": _show_json(cv)})
            else:
                ctx.ok("G.4", site, "positional order and defaults as on the reference")
    # named constants of the anchor files (and of the modules they import a constant from)
    cmods = {m.name: m for m in mods}
    for m in mods:
        for st in ast.walk(m.tree):
            if isinstance(st, ast.ImportFrom) and st.module and any(a.name.isupper() for a in st.names):
                tm = index.modules.get(st.module) or index.modules.get(f"{m.package}.{st.module}" if st.level else st.module)
                if tm is not None:
                    cmods[tm.name] = tm
        for x in ast.walk(m.tree):
            if isinstance(x, ast.Attribute) and x.attr.isupper():
                try:
                    sy = index.resolve_expr(m, x)
                except Exception:  # noqa: BLE001
                    sy = None
                if sy is not None and sy.kind == "assign" and sy.module is not None:
                    cmods[sy.module.name] = sy.module
    for m in cmods.values():
        for key, rv in sorted(ref.get("constants", {}).items()):
            if not key.startswith(m.name + ":"):
                continue
            name = key.split(":")[1]
            cur_all = module_constants(m)
            d = m.defs.get(name)
            if not d:
                continue
            line = getattr(d[0], "lineno", 1)
            if key not in cur_all:
                ctx.bad("G.4", m.relpath, name, f"{name} = {ast.unparse(d[0].value)[:40] if getattr(d[0], 'value', None) is not None else '?'}",
                        f"the constant {name} is no longer the literal {rv!r} of the reference (now `{ast.unparse(d[0].value)[:60] if getattr(d[0], 'value', None) is not None else '?'}`): "
                        f"every computation that uses it changes with it", line, witness={"reference": rv})
            elif cur_all[key] != rv or type(cur_all[key]) is not type(rv):
                ctx.bad("G.4", m.relpath, name, f"{name} = {cur_all[key]!r}",
                        f"the constant {name} is {cur_all[key]!r} where the reference declares {rv!r}: every computation that uses it changes with it",
                        line, witness={"reference": rv, "current": cur_all[key]})
            else:
                ctx.ok("G.4", f"{m.relpath}:{line} {name}", f"constant as on the reference ({rv!r})")
    classes = {}
    for m in mods:
        for ci in m.classes.values():
            if models.is_model(ci):
                classes[ci.qual] = ci
    classes.update(extra_classes)
    by_name = {}
    for q_ in ref["models"]:
        by_name.setdefault(q_.split(":")[-1], []).append(q_)
    for q, ci in sorted(classes.items()):
        r = ref["models"].get(q)
        if r is None and len(by_name.get(ci.name, [])) == 1 and by_name[ci.name][0] not in classes:
            r = ref["models"][by_name[ci.name][0]]  # the class moved to another module
        if r is None:
            continue
        n_m += 1
        cur = model_decl(index, models, ci, ctx.summ)
        site = f"{ci.module.relpath}:{ci.node.lineno} {ci.name}"
        problems = []
        for k in sorted(set(r["config"]) | set(cur["config"])):
            if r["config"].get(k) != cur["config"].get(k):
                problems.append((ci.node.lineno, f"model_config[{k!r}] = {_show_json(cur['config'].get(k, '<pydantic default>'))}",
                                 f"model_config option `{k}` of {ci.name} is {_show_json(cur['config'].get(k, '<pydantic default>'))} where the reference "
                                 f"declares {_show_json(r['config'].get(k, '<pydantic default>'))}: pydantic validates, coerces or freezes instances of this model differently"))
        for fname, rf in r["fields"].items():
            cf = cur["fields"].get(fname)
            if cf is None:
                continue  # removal of a field is the business of the field-flow rules
            line = models.field_map(ci)[fname].node.lineno
            opaque_ = [x_ for x_ in cf["meta"] if x_ not in rf["meta"] and x_.split("(")[0].split(".")[-1] in ("AfterValidator", "BeforeValidator", "PlainValidator", "WrapValidator")
                       and not x_.split("(", 1)[1].lstrip().startswith("lambda")]  # (a lambda written in place is readable: compared as a difference)
            if cf["shape"] == rf["shape"] and opaque_ and [x_ for x_ in cf["meta"] if x_ not in opaque_] == rf["meta"]:
                # the only difference: validators hung on the annotation as the result of a call (`AfterValidator(_validator(_check))`):
                # whether they leave the accepted values alone is the acceptance rules' business, and they cannot read them either
                ctx.undec("G.5", f"{ci.module.relpath}:{line} {ci.name}", f"{ci.name}.{fname} carries validators that are not plain functions ({opaque_[0][:60]}): "
                                                                        f"what they accept / rewrite cannot be compared with the reference declaration")
            elif cf["shape"] != rf["shape"] or cf["meta"] != rf["meta"]:
                problems.append((line, f"{fname}: {ast.unparse(models.field_map(ci)[fname].ann)[:60]}",
                                 f"the declared type of {ci.name}.{fname} is `{ast.unparse(models.field_map(ci)[fname].ann)[:80]}`; the reference declares "
                                 f"{_show_shape(rf)}: pydantic accepts, coerces or transforms other values for this field"))
            elif cf["constraints"] != rf["constraints"]:
                problems.append((line, f"{fname}: Field({', '.join(f'{k}={_show_json(v)}' for k, v in cf['constraints'].items())})",
                                 f"the constraints of {ci.name}.{fname} are {cf['constraints']} where the reference declares {rf['constraints']}"))
            elif cf["default"] != rf["default"] or cf["factory"] != rf["factory"]:
                problems.append((line, f"{fname} default = {_show_json(cf['default'])}",
                                 f"the default of {ci.name}.{fname} is {_show_json(cf['default'] if cf['factory'] is None else cf['factory'])} where the reference "
                                 f"declares {_show_json(rf['default'] if rf['factory'] is None else rf['factory'])}"))
        if sorted(cur.get("protocol", [])) != sorted(r.get("protocol", [])):
            added = sorted(set(cur.get("protocol", [])) - set(r.get("protocol", [])))
            gone = sorted(set(r.get("protocol", [])) - set(cur.get("protocol", [])))
            problems.append((ci.node.lineno, f"{ci.name}: {'+' + ', +'.join(added) if added else ''}{' -' + ', -'.join(gone) if gone else ''}",
                             f"{ci.name} {'now defines ' + ', '.join(added) if added else ''}{' and ' if added and gone else ''}{'no longer defines ' + ', '.join(gone) if gone else ''}: "
                             f"how its instances compare, hash, test true, iterate or are constructed differs from the reference -- every presence test, "
                             f"set / dict membership and equality check on them is affected"))
        if "hooks" in r:
            rh, ch = [tuple(h) for h in r["hooks"]], [tuple(h) for h in cur["hooks"]]
            # a hook of the reference that moved to a base / subclass or was renamed keeps its (kind, mode, fields)
            from collections import Counter
            extra = sorted((Counter(h[1:] for h in ch) - Counter(h[1:] for h in rh)).elements())
            for h in extra:
                owner = [x[0] for x in ch if x[1:] == h][-1]
                oc = next((c for c in ci.mro() if c.name == owner), ci)
                what = f"{h[0]}({', '.join(repr(x) for x in h[2:])}{', ' if h[2:] and h[1] else ''}{'mode=' + repr(h[1]) if h[1] else ''})"
                problems.append((oc.node.lineno, f"{owner}: @{what}",
                                 f"{ci.name} now carries a {what} hook ({'declared in ' + owner + ', ' if owner != ci.name else ''}absent on the reference) that replaces "
                                 f"the supplied value: instances no longer hold / dump what they were given, so every computation on this model "
                                 f"sees other values than its caller passed"))
        for line, construct, msg in problems:
            ctx.bad("G.5", ci.module.relpath, ci.name, construct, msg, line)
        if not problems:
            ctx.ok("G.5", site, "config, field types, constraints and defaults as on the reference")
    # base classes of every class of the modules in scope (a str / int mixin dropped from an Enum, a model turned dataclass ...)
    n_c = 0
    for m in mods:
        for c in m.classes.values():
            r = ref.get("classes", {}).get(c.qual)
            if r is None:
                continue
            n_c += 1
            cur = class_decl(c)
            cur["bases"] = sorted(set(cur["bases"]) - plain_new_bases(c, ref.get("classes", {})))
            # a new in-package base that itself is nothing but the reference bases plus methods (`class IdentifiedModel(BaseModel)` with
            # a shared __hash__, no fields, no configuration, no validators): the class is still a subclass of the reference bases --
            # the methods it inherits that way are compared as its own (protocol methods above)
            known_ = {q.split(":")[-1] for q in ref.get("classes", {})}
            for b_ in list(c.bases):
                if b_.name in cur["bases"] and b_.name not in known_ and b_.module.name.startswith("soundevent"):
                    try:
                        thin = not any(isinstance(st, ast.AnnAssign) and "ClassVar" not in ast.unparse(st.annotation) for x_ in b_.mro() if x_.module.name.startswith("soundevent") for st in x_.node.body) \
                            and not any(isinstance(st, ast.Assign) and any(isinstance(t_, ast.Name) and t_.id == "model_config" for t_ in st.targets) for st in b_.node.body) \
                            and not any(d_ for fns in b_.methods.values() for fn_ in fns for d_ in fn_.decorator_list if "validator" in ast.unparse(d_) or "serializer" in ast.unparse(d_))
                    except Exception:  # noqa: BLE001
                        thin = False
                    if thin:
                        inherited_ = class_decl(b_)["bases"]
                        cur["bases"] = sorted((set(cur["bases"]) - {b_.name}) | set(inherited_))
            if cur["bases"] != r["bases"]:
                gone, added = sorted(set(r["bases"]) - set(cur["bases"])), sorted(set(cur["bases"]) - set(r["bases"]))
                ctx.bad("G.5", m.relpath, c.name, f"class {c.name}({', '.join(cur['bases'])})",
                        f"the bases of {c.name} are ({', '.join(cur['bases'])}) where the reference declares ({', '.join(r['bases'])})"
                        f"{': without ' + ', '.join(gone) if gone else ''}{' with ' + ', '.join(added) if added else ''} its instances are of another type -- "
                        f"they compare, hash and convert differently (a member of `class E(str, Enum)` IS its string value; a member of `class E(Enum)` is not)",
                        c.node.lineno, witness={"reference_bases": r["bases"], "current_bases": cur["bases"]})
    ctx.ok("G.5", f"{len(files)} anchor file(s)", f"{n_c} class headers compared with the reference")
    ctx.ok("G.4", f"{len(files)} anchor file(s)", f"{n_f} public signatures compared with the reference")
    ctx.ok("G.5", f"{len(files)} anchor file(s)", f"{n_m} model classes compared with the reference")


def _show_json(v):
    if isinstance(v, list):
        try:
            from sa.alias import from_json
            return show(from_json(v))[:60]
        except Exception:  # noqa: BLE001
            return str(v)[:60]
    return repr(v)[:60]


def _show_shape(rf):
    from sa.alias import from_json
    from sa.models import shape_str
    try:
        return shape_str(from_json(rf["shape"])) + (f" with {rf['meta']}" if rf["meta"] else "")
    except Exception:  # noqa: BLE001
        return str(rf["shape"])[:60]


# ---------------------------------------------------------------------------------- G.6 / G.7 order of effects
ONE_SHOT = {"enumerate", "zip", "map", "filter", "iter", "reversed"}
LOOKUP_ERRORS = {"KeyError", "IndexError", "AttributeError", "StopIteration", "LookupError", "ImportError", "ModuleNotFoundError"}
# handlers of the reference tree that end without raising, by design (file, function, exception): the function reports the
# failure through its return value / falls back to a default
KNOWN_QUIET_HANDLERS = {
    ("src/soundevent/audio/files.py", "is_audio_file", "sf.SoundFileError"),      # "is it audio?" -> False
    ("src/soundevent/data/geometries.py", "_repr_html_", "ImportError"),          # optional dependency for notebooks
    ("src/soundevent/io/crowsetta/labels.py", "label_to_tags", "ValueError"),     # unparsable label -> fallback tag
}


# (exception, guarded callable) of the handlers above: they stay quiet by design wherever a refactor moves them
KNOWN_QUIET_CALLS = {("SoundFileError", "info"), ("SoundFileError", "SoundFile"), ("ValueError", "tag_fn"), ("ImportError", "geometry_to_html")}


def _scope_modules(ctx: Ctx, files: List[str]):
    rel = set(files)
    for sm_ in list(ctx.summ._cache.values()):
        rel.add(sm_.module.relpath)
    return [m for m in ctx.index.modules.values() if m.relpath in rel]


def check_effects(ctx: Ctx, files: List[str]):
    ctx.rule("G.6", "no one-shot iterator is bound to a name and consumed twice", 1)
    ctx.rule("G.7", "no new exception handler that ends without raising (a failure turned into silent continuation)", 1)
    n6 = n7 = 0
    # the expected count is zero: the rules must fire on the positive examples of fixtures/effects.py on every run
    class _Probe:
        def __init__(self):
            self.hits = set()
        def bad(self, rule, *a, **k):
            self.hits.add(rule)
        def ok(self, *a, **k):
            pass
    if not getattr(ctx, "_effects_probe", False):
        fx = os.path.join(os.path.dirname(os.path.dirname(os.path.abspath(__file__))), "fixtures", "effects.py")
        class _M:
            relpath = "fixtures/effects.py"
            tree = ast.parse(open(fx).read())
        probe = _Probe()
        _effects_of(probe, _M)
        if probe.hits != {"G.6", "G.7"}:
            ctx.undec("G.6", "fixtures/effects.py", f"the positive fixture is not reported (fired: {sorted(probe.hits)}): the rules cannot fire")
            return
    for m in _scope_modules(ctx, files):
        a6, a7 = _effects_of(ctx, m)
        n6 += a6
        n7 += a7
    ctx.ok("G.6", f"{len(files)} anchor file(s)", f"{n6} functions scanned for re-consumed one-shot iterators; positive fixture reported")
    ctx.ok("G.7", f"{len(files)} anchor file(s)", f"{n7} exception handlers classified (lookups with a fallback, re-raising, {len(KNOWN_QUIET_HANDLERS)} quiet by design); positive fixture reported")


def _effects_of(ctx, m):
    n6 = n7 = 0
    if True:
        for fn in ast.walk(m.tree):
            if not isinstance(fn, (ast.FunctionDef, ast.AsyncFunctionDef)):
                continue
            n6 += 1
            # G.6: x = enumerate(...) / zip / map / filter / iter / reversed / (generator expression), x consumed more than once
            binds = {}
            for st in ast.walk(fn):
                if isinstance(st, ast.Assign) and len(st.targets) == 1 and isinstance(st.targets[0], ast.Name):
                    v = st.value
                    one = isinstance(v, ast.GeneratorExp) or (isinstance(v, ast.Call) and isinstance(v.func, ast.Name) and v.func.id in ONE_SHOT)
                    binds.setdefault(st.targets[0].id, []).append((st, one))
            for name, defs in binds.items():
                if len(defs) != 1 or not defs[0][1]:
                    continue
                st = defs[0][0]
                uses = []
                for x in ast.walk(fn):
                    if isinstance(x, (ast.For, ast.comprehension)) and isinstance(x.iter, ast.Name) and x.iter.id == name:
                        uses.append(x.iter)
                    elif isinstance(x, ast.Call):
                        for a in list(x.args) + [k.value for k in x.keywords]:
                            a = a.value if isinstance(a, ast.Starred) else a
                            if isinstance(a, ast.Name) and a.id == name:
                                uses.append(a)
                    elif isinstance(x, ast.YieldFrom) and isinstance(x.value, ast.Name) and x.value.id == name:
                        uses.append(x.value)
                if len(uses) >= 2:
                    ctx.bad("G.6", m.relpath, fn.name, f"{name} = {ast.unparse(st.value)[:60]}",
                            f"`{name}` is bound to a one-shot iterator (`{ast.unparse(st.value)[:60]}`) and consumed {len(uses)} times "
                            f"(lines {', '.join(str(u.lineno) for u in uses[:4])}): the first consumer exhausts it (or takes the first "
                            f"elements), every later one sees what is left -- nothing", uses[1].lineno)
            # G.6 (second clause): a list / dict / set mutated inside the loop that iterates it
            MUTATORS = {"remove", "append", "insert", "pop", "clear", "extend", "add", "discard", "update", "popitem", "sort", "reverse"}
            for lp in ast.walk(fn):
                if not isinstance(lp, ast.For) or not isinstance(lp.iter, ast.Name):
                    continue
                nm = lp.iter.id
                for x in [y for b in lp.body for y in ast.walk(b)]:
                    hit = None
                    if isinstance(x, ast.Call) and isinstance(x.func, ast.Attribute) and isinstance(x.func.value, ast.Name) \
                            and x.func.value.id == nm and x.func.attr in MUTATORS:
                        hit = x
                    elif isinstance(x, ast.Delete) and any(isinstance(t_, ast.Subscript) and isinstance(t_.value, ast.Name) and t_.value.id == nm for t_ in x.targets):
                        hit = x
                    if hit is not None:
                        # leaving the loop right after the mutation is the one safe use
                        ctx.bad("G.6", m.relpath, fn.name, f"for ... in {nm}: {ast.unparse(hit)[:50]}",
                                f"`{nm}` is changed (`{ast.unparse(hit)[:50]}`) inside the loop that iterates it: the iteration skips or "
                                f"repeats elements, so some of them are never examined", hit.lineno)
                        break
            # G.7: handlers that end without raising
            for t in ast.walk(fn):
                if not isinstance(t, ast.Try):
                    continue
                for h in t.handlers:
                    n7 += 1
                    names = [ast.unparse(x) for x in (h.type.elts if isinstance(h.type, ast.Tuple) else [h.type])] if h.type is not None else ["BaseException"]
                    if all(nm.split(".")[-1] in LOOKUP_ERRORS for nm in names):
                        continue  # look-before-you-leap written as try / except: a lookup with a fallback
                    if any(isinstance(x, ast.Raise) for x in ast.walk(h)):
                        continue
                    if any((m.relpath, fn.name, nm) in KNOWN_QUIET_HANDLERS for nm in names):
                        continue
                    calls = [x for b in t.body for x in ast.walk(b) if isinstance(x, ast.Call)]
                    # the same quiet-by-design handler after a move: same exception around the same guarded call
                    if any(nm.split(".")[-1] == q_exc.split(".")[-1] and any(ast.unparse(c_.func).split(".")[-1] == q_call for c_ in calls)
                           for nm in names for q_exc, q_call in KNOWN_QUIET_CALLS):
                        continue
                    ctx.bad("G.7", m.relpath, fn.name, f"except {', '.join(names)}: (no raise)",
                            f"{fn.name} catches {', '.join(names)} around `{ast.unparse(calls[0])[:60] if calls else ast.unparse(t.body[0])[:60]}` and carries on "
                            f"without raising: a failure that used to reach the caller (a rejected value, a refused seek, a validation error) "
                            f"now ends in a silently different result", h.lineno)
    return n6, n7


# ---------------------------------------------------------------------------------- G.8 truthiness of model instances
def check_truthiness(ctx: Ctx, files: List[str]):
    """`if obj.parent:` means `obj.parent is not None` only as long as the class of that field defines neither __bool__ nor
    __len__: a container protocol added to a model makes its empty instances falsy, and every presence test written as a
    truthiness test starts skipping them."""
    ctx.rule("G.8", "presence tests written as truthiness are on values whose class defines neither __bool__ nor __len__", 1)
    models = ctx.models
    n = 0
    seen = set()
    for sm_ in list(ctx.summ._cache.values()):
        if not isinstance(sm_.node, (ast.FunctionDef, ast.AsyncFunctionDef)):
            continue
        pcls = {}
        for pname, ann in sm_.annotations.items():
            if isinstance(ann, (ast.Name, ast.Attribute)):
                try:
                    sy = ctx.index.resolve_expr(sm_.module, ann)
                except Exception:  # noqa: BLE001
                    sy = None
                if sy is not None and sy.kind == "class" and ":" in sy.qual:
                    c = ctx.index.class_by_qual(sy.qual)
                    if c is not None and models.is_model(c):
                        pcls[pname] = c
        if not pcls:
            continue
        for e in sm_.events:
            for cj in conjuncts(e.live):
                t = cj[1] if cj[0] == "not" else cj
                if t[0] != "attr" or t[1][0] != "param" or t[1][1] not in pcls:
                    continue
                fi = models.field_map(pcls[t[1][1]]).get(t[2])
                if fi is None:
                    continue
                shp = fi.shape[1] if fi.shape[0] == "opt" else fi.shape
                if shp[0] != "cls":
                    continue
                c2 = ctx.index.class_by_qual(shp[1])
                if c2 is None:
                    continue
                key = (sm_.qual, t)
                if key in seen:
                    continue
                seen.add(key)
                n += 1
                dunder = next((d for d in ("__bool__", "__len__") if c2.find_method(d)), None)
                fn = sm_.qual.split(":")[-1]
                if dunder:
                    ctx.bad("G.8", sm_.module.relpath, fn, f"if {show(t)}",
                            f"{fn} tests `{show(t)}` for truthiness, but {c2.name} defines {dunder}: an instance for which it gives "
                            f"0 / False (an empty one) is treated as absent -- skipped, not converted, not written", e.lineno,
                            witness={"class": c2.name, "method": dunder})
                else:
                    ctx.ok("G.8", f"{sm_.module.relpath}:{e.lineno} {fn}", f"truthiness of {show(t)} ({c2.name}: no __bool__ / __len__)")
    ctx.ok("G.8", f"{len(files)} anchor file(s)", f"{n} truthiness tests of model-valued fields checked")


# ---------------------------------------------------------------------------------------------------------------- G.10
BYPASS_CONSTRUCT = {"model_construct", "construct"}
BYPASS_COPY = {"model_copy", "copy"}


def _guards_of(class_nodes):
    """(validator names, {field: constraint keywords}) declared by the given ClassDef nodes (a class and its in-package bases)"""
    vals, cons = [], {}
    for c in class_nodes:
        for st in c.body:
            if isinstance(st, ast.FunctionDef):
                for d in st.decorator_list:
                    nm = ast.unparse(d.func if isinstance(d, ast.Call) else d).split(".")[-1]
                    if nm in ("field_validator", "model_validator", "validator", "root_validator"):
                        flds = [a.value for a in (d.args if isinstance(d, ast.Call) else []) if isinstance(a, ast.Constant)]
                        vals.append((st.name, nm, flds))
            elif isinstance(st, ast.AnnAssign) and isinstance(st.target, ast.Name):
                ks = []
                for x in ast.walk(st):
                    if isinstance(x, ast.Call) and ast.unparse(x.func).split(".")[-1] == "Field":
                        ks += [k.arg for k in x.keywords if k.arg in CONSTRAINT_KEYS and k.arg not in ("alias", "validation_alias", "serialization_alias", "exclude", "frozen")]
                    if isinstance(x, ast.Call) and ast.unparse(x.func).split(".")[-1] in ("AfterValidator", "BeforeValidator", "PlainValidator", "WrapValidator"):
                        ks.append(ast.unparse(x.func).split(".")[-1])
                if ks:
                    cons[st.target.id] = ks
    return vals, cons


def _bypass_sites(tree, class_of):
    """[(call node, enclosing function name, kind, class name or None, class nodes or None, updated field names or None)]"""
    out = []
    parents = {}
    for n in ast.walk(tree):
        for ch in ast.iter_child_nodes(n):
            parents[ch] = n

    def enclosing(n):
        fn = cls = None
        while n in parents:
            n = parents[n]
            if fn is None and isinstance(n, (ast.FunctionDef, ast.AsyncFunctionDef)):
                fn = n
            if cls is None and isinstance(n, ast.ClassDef):
                cls = n
        return fn, cls

    for x in ast.walk(tree):
        if not (isinstance(x, ast.Call) and isinstance(x.func, ast.Attribute)):
            continue
        a = x.func.attr
        if a in BYPASS_CONSTRUCT:
            kind, fields = "construct", [k.arg for k in x.keywords if k.arg and k.arg != "_fields_set"]
        elif a in BYPASS_COPY:
            upd = next((k.value for k in x.keywords if k.arg == "update"), None)
            if upd is None or (isinstance(upd, ast.Constant) and upd.value is None):
                continue
            kind = "copy"
            fields = [k.value for k in upd.keys if isinstance(k, ast.Constant)] if isinstance(upd, ast.Dict) and all(k is not None for k in upd.keys) else None
            if isinstance(upd, ast.Call) and isinstance(upd.func, ast.Name) and upd.func.id == "dict" and not upd.args:
                fields = [k.arg for k in upd.keywords if k.arg]
        else:
            continue
        fn, cls = enclosing(x)
        out.append((x, fn.name if fn else "<module>", kind, fields, class_of(x.func.value, fn, cls)))
    return out


def check_validation_bypass(ctx: Ctx, files: List[str]):
    """pydantic runs validators in `Model(...)` / `model_validate`, never in `model_construct(...)` or `model_copy(update=...)`:
    an instance built that way is not checked, not normalised and not coerced."""
    ctx.rule("G.10", "no model instance is built or altered past its validators (model_construct / model_copy(update=...))", 1)
    index, models = ctx.index, ctx.models
    # positive fixture
    fx = os.path.join(os.path.dirname(os.path.dirname(os.path.abspath(__file__))), "fixtures", "effects.py")
    ftree = ast.parse(open(fx).read())
    fclasses = {c.name: c for c in ast.walk(ftree) if isinstance(c, ast.ClassDef)}

    def f_class_of(recv, fn, cls):
        if isinstance(recv, ast.Name) and recv.id in fclasses:
            return recv.id, [fclasses[recv.id]]
        return None

    fhits = [s_ for s_ in _bypass_sites(ftree, f_class_of) if s_[4] and (_guards_of(s_[4][1])[0] or _guards_of(s_[4][1])[1])]
    if len(fhits) < 2:
        ctx.undec("G.10", "fixtures/effects.py", "the positive fixture (model_construct / model_copy(update=) on a validated model) is not reported: the rule cannot fire")
        return
    n = 0
    for m in _scope_modules(ctx, files):
        def class_of(recv, fn, cls, m=m):
            ci = None
            if isinstance(recv, (ast.Name, ast.Attribute)):
                if isinstance(recv, ast.Name) and recv.id in ("cls", "self") and cls is not None:
                    ci = m.classes.get(cls.name)
                elif isinstance(recv, ast.Name) and fn is not None:
                    for p in list(fn.args.posonlyargs) + list(fn.args.args) + list(fn.args.kwonlyargs):
                        if p.arg == recv.id and p.annotation is not None:
                            for y in ast.walk(p.annotation):
                                if isinstance(y, (ast.Name, ast.Attribute)):
                                    try:
                                        sy = index.resolve_expr(m, y)
                                    except Exception:  # noqa: BLE001
                                        sy = None
                                    if sy is not None and sy.kind == "class" and ":" in sy.qual and ci is None:
                                        ci = index.class_by_qual(sy.qual)
                if ci is None:
                    try:
                        sy = index.resolve_expr(m, recv)
                    except Exception:  # noqa: BLE001
                        sy = None
                    if sy is not None and sy.kind == "class" and ":" in sy.qual:
                        ci = index.class_by_qual(sy.qual)
                if ci is None and isinstance(recv, ast.Attribute):
                    # obj.field.model_copy(...): the declared class of that field, when obj is an annotated parameter
                    inner = class_of(recv.value, fn, cls)
                    if inner is not None:
                        owner = next((index.class_by_qual(q) for q in [getattr(inner[2], "qual", None)] if q), None)
                        if owner is not None:
                            fi = models.field_map(owner).get(recv.attr)
                            shp = fi.shape if fi is not None else None
                            while shp is not None and shp[0] in ("opt",):
                                shp = shp[1]
                            if shp is not None and shp[0] == "cls":
                                ci = index.class_by_qual(shp[1])
            if ci is None or not models.is_model(ci):
                return None
            return ci.name, [c.node for c in ci.mro()], ci

        for x, fname, kind, fields, cinfo in _bypass_sites(m.tree, class_of):
            n += 1
            call = ast.unparse(x)[:70]
            if cinfo is None:
                ctx.undec("G.10", f"{m.relpath}:{x.lineno} {fname}", f"`{call}` builds / alters an object without validation and its class is not resolved")
                continue
            cname, nodes = cinfo[0], cinfo[1]
            vals, cons = _guards_of(nodes)
            if kind == "copy" and fields is not None:
                vals = [v for v in vals if v[1] in ("model_validator", "root_validator") or not v[2] or set(v[2]) & set(fields) or "*" in v[2]]
                cons = {k: v for k, v in cons.items() if k in fields}
            if vals or cons:
                what = "; ".join([f"validator {v[0]}" for v in vals[:4]] + [f"{k}: {', '.join(v)}" for k, v in list(cons.items())[:3]])
                ctx.bad("G.10", m.relpath, fname, call,
                        f"`{call}` {'builds' if kind == 'construct' else 'alters'} a {cname} without running its validation ({what}): "
                        f"values that `{cname}(...)` rejects or normalises are stored as given, so every invariant those validators "
                        f"establish can be bypassed on this path", x.lineno, witness={"class": cname, "skipped": what})
            else:
                ctx.ok("G.10", f"{m.relpath}:{x.lineno} {fname}", f"{cname} has no validators / constraints on the affected fields (only coercion is skipped)")
    ctx.ok("G.10", f"{len(files)} anchor file(s)", f"{n} unvalidated constructions found in the modules in scope; positive fixture reported")


# ---------------------------------------------------------------------------------------------------------------- G.9
def export_divergences(index, ref):
    """[(package, public name, reference qual, current qual)] for the public function names of the package's __init__ modules
    that now resolve to ANOTHER definition although the one the reference exports is still where it was (a definition that
    merely moved is the same definition: sa/index.py follows it)."""
    out = []
    for pkg, names in sorted(ref.get("exports", {}).items()):
        m = index.modules.get(pkg)
        if m is None:
            continue
        for n, (kind, rq) in sorted(names.items()):
            if kind != "func":
                continue
            try:
                sy = index.resolve(m, n)
            except Exception:  # noqa: BLE001
                sy = None
            if sy is None or sy.kind != "func" or ":" not in sy.qual or sy.qual == rq or "." in sy.qual.split(":")[1]:
                continue
            rmod, rname = rq.split(":")
            hm = index.modules.get(rmod)
            if hm is None or not any(isinstance(d, ast.FunctionDef) for d in hm.defs.get(rname, [])):
                continue  # moved
            out.append((pkg, n, rq, sy.qual))
    return out


def check_public_exports(ctx: Ctx, mod, files: List[str]):
    """The rules analyse the definitions the property is anchored in.  Users reach them through the package's public names:
    where such a name now resolves to another definition while the anchored one still exists, the property's own rules are
    run once more with that definition in the anchored one's place ("public view")."""
    ref = _load_decls()
    ctx.rule("G.9", "the package's public names resolve to the definitions the rules analysed, or to ones that pass the same rules", 1)
    if ref is None or "exports" not in ref:
        ctx.undec("G.9", "sa/pinned_decls.json", "reference export table missing")
        return
    div = export_divergences(ctx.index, ref)
    rel = [d for d in div if ctx.index.modules[d[2].split(":")[0]].relpath in files]
    n = sum(len(v) for v in ref["exports"].values())
    ctx.ok("G.9", "package __init__ modules", f"{n} reference exports compared; {len(div)} resolve to another definition, {len(rel)} of them anchored here")
    if not rel:
        return
    index2 = Index(ctx.index.root, ctx.index.overlay)
    for pkg, name, rq, cq in rel:
        index2.redirect[tuple(rq.split(":"))] = tuple(cq.split(":"))
    ctx2 = Ctx(ctx.prop, index2, ctx.tier)
    what = "; ".join(f"{pkg}.{name} -> {cq} (reference: {rq})" for pkg, name, rq, cq in rel)
    m0 = ctx.index.modules[rel[0][3].split(":")[0]]
    line0 = next((d.lineno for d in m0.defs.get(rel[0][3].split(":")[1], []) if isinstance(d, ast.FunctionDef)), 1)
    try:
        mod.run(ctx2)
    except AnalysisError as e:
        ctx.undec("G.9", f"{m0.relpath}:{line0} {rel[0][3].split(':')[1]}", f"public view ({what}): the rules cannot analyse the replacing definition: {e}")
        return
    have = [f.key() for f in ctx.findings]
    new = [f for f in ctx2.findings if f.key() not in have]
    have_u = {(u.rule, u.reason) for u in ctx.undecided}
    new_u = [u for u in ctx2.undecided if (u.rule, u.reason) not in have_u]
    for f in new:
        ctx.bad("G.9", m0.relpath, rel[0][3].split(":")[1], f"{f.rule}: {f.construct}",
                f"the public name {what} no longer resolves to the analysed definition, and with the replacing definition in its place "
                f"rule {f.rule} fails: {f.message}", line0, witness=f.witness)
    for u in new_u:
        ctx.undec("G.9", f"{m0.relpath}:{line0} {rel[0][3].split(':')[1]}", f"public view ({what}): {u.rule} undecided: {u.reason}")
    if not new and not new_u:
        ctx.ok("G.9", f"{m0.relpath}:{line0}", f"public view ({what}): every rule of the property passes on the replacing definition")


# ------------------------------------------------------------------------------------------- helpers written out in callers
def helper_or_caller(ctx: Ctx, modname: str, fname: str):
    """Summary of a private reference helper -- or, when the helper no longer exists because its body was written out in the one
    function that called it on the reference tree, the summary of that caller (the helper's events are then part of it).
    -> (summary, written_out: bool); raises the lookup error when neither applies."""
    try:
        return ctx.summ.of_func(modname, fname), False
    except AnalysisError:
        if not fname.split(".")[-1].startswith("_"):
            raise
        from sa.alias import CALLS
        callers = sorted({s_["caller"] for s_ in CALLS.get(f"{modname}:{fname}", {}).get("sites", [])})
        if len(callers) != 1:
            raise
        cm, cf = callers[0].split(":")
        return ctx.summ.of_func(cm, cf), True


# ---------------------------------------------------------------------- G.11: calls that cannot succeed
def _local_names(fn: ast.AST) -> set:
    out = set()
    if isinstance(fn, (ast.FunctionDef, ast.AsyncFunctionDef, ast.Lambda)):
        a = fn.args
        for p in list(a.posonlyargs) + list(a.args) + list(a.kwonlyargs) + ([a.vararg] if a.vararg else []) + ([a.kwarg] if a.kwarg else []):
            out.add(p.arg)
    for x in ast.walk(fn):
        if isinstance(x, ast.Name) and isinstance(x.ctx, (ast.Store, ast.Del)):
            out.add(x.id)
        elif isinstance(x, (ast.FunctionDef, ast.AsyncFunctionDef, ast.ClassDef)) and x is not fn:
            out.add(x.name)
        elif isinstance(x, (ast.Import, ast.ImportFrom)):
            for al in x.names:
                out.add((al.asname or al.name).split(".")[0])
    return out


def call_shape_problems(call: ast.Call, fdef: ast.FunctionDef, skip_first=False) -> List[str]:
    """why `call` raises TypeError against the signature of `fdef` (empty: it binds)"""
    if any(isinstance(a, ast.Starred) for a in call.args) or any(k.arg is None for k in call.keywords):
        return []
    a = fdef.args
    pos = list(a.posonlyargs) + list(a.args)
    if skip_first and pos:
        pos = pos[1:]
    n_def = len(a.defaults)
    required_pos = [p.arg for p in pos[: len(pos) - n_def]] if n_def else [p.arg for p in pos]
    kwonly_required = [p.arg for p, d in zip(a.kwonlyargs, a.kw_defaults) if d is None]
    names = [p.arg for p in pos]
    posonly = {p.arg for p in a.posonlyargs}
    problems = []
    if len(call.args) > len(pos) and a.vararg is None:
        problems.append(f"{len(call.args)} positional arguments for {len(pos)} positional parameters")
    bound = set(names[: len(call.args)])
    for k in call.keywords:
        if k.arg in bound:
            problems.append(f"parameter `{k.arg}` given twice")
        elif (k.arg in names and k.arg not in posonly) or k.arg in [p.arg for p in a.kwonlyargs]:
            bound.add(k.arg)
        elif a.kwarg is None:
            problems.append(f"unexpected keyword `{k.arg}`")
    for p in required_pos + kwonly_required:
        if p not in bound:
            problems.append(f"required parameter `{p}` is not given")
    return problems


def check_call_shapes(ctx: Ctx, files: List[str]):
    """Every call of an in-package function binds against that function's signature, and every construction of a data model
    gives the fields that have no default: a call that leaves a required parameter out (or names one that does not exist) raises
    TypeError / ValidationError on every execution of that line -- whatever the inputs -- so the behaviour behind it is gone."""
    ctx.rule("G.11", "calls of in-package functions bind against their signatures; model constructions give every required field", 1)
    index, models = ctx.index, ctx.models
    n = 0
    for m in _scope_modules(ctx, files):
        scopes = [(m.tree, set())]
        for fn in ast.walk(m.tree):
            if isinstance(fn, (ast.FunctionDef, ast.AsyncFunctionDef)):
                scopes.append((fn, _local_names(fn)))
        seen = set()
        for scope, local in reversed(scopes):  # innermost functions first: a call is judged in its own scope
            fname = getattr(scope, "name", "<module>")
            for x in ast.walk(scope):
                if not isinstance(x, ast.Call) or id(x) in seen:
                    continue
                seen.add(id(x))
                root = x.func
                while isinstance(root, ast.Attribute):
                    root = root.value
                if not isinstance(root, ast.Name) or root.id in local or root.id in ("self", "cls", "super"):
                    continue
                try:
                    sy = index.resolve_expr(m, x.func)
                except Exception:  # noqa: BLE001
                    continue
                if sy is None or ":" not in getattr(sy, "qual", ""):
                    continue
                modname, name = sy.qual.split(":")
                if sy.kind == "func" and "." not in name:
                    try:
                        tm = index.module(modname)
                    except Exception:  # noqa: BLE001
                        continue
                    defs = [d for d in tm.defs.get(name, []) if isinstance(d, ast.FunctionDef)]
                    if len(defs) != 1 or defs[0].decorator_list:
                        continue  # overloads / decorated functions: the visible signature is not (only) this one
                    probs = call_shape_problems(x, defs[0])
                    n += 1
                    if probs:
                        ctx.bad("G.11", m.relpath, fname, f"{ast.unparse(x)[:80]}",
                                f"{fname}: the call `{ast.unparse(x)[:100]}` does not bind against `def {name}({ast.unparse(defs[0].args)[:100]})`: "
                                f"{'; '.join(probs)} -- TypeError on every execution", x.lineno)
                elif sy.kind == "class":
                    ci = index.class_by_qual(sy.qual)
                    if ci is None or not models.is_model(ci) or x.args or any(k.arg is None for k in x.keywords):
                        continue
                    if any(v.mode in ("before", "wrap") for v in models.validators(ci)) or "__init__" in ci.methods or any("__init__" in c.methods for c in ci.mro() if c is not ci):
                        continue  # a before-mode hook may supply fields; a hand-written constructor has its own signature
                    fm = models.field_map(ci)
                    given = {k.arg for k in x.keywords}
                    aliases = {}
                    for f_ in fm.values():
                        for ak in ("alias", "validation_alias"):
                            av = f_.field_kwargs.get(ak)
                            if isinstance(av, ast.Constant):
                                aliases[f_.name] = av.value
                    missing = [f_.name for f_ in fm.values() if f_.required and f_.default_factory is None and f_.name not in given and aliases.get(f_.name) not in given
                               and not f_.optional is None]
                    missing = [f_ for f_ in missing if fm[f_].shape[0] != "classvar"]
                    n += 1
                    if missing:
                        ctx.bad("G.11", m.relpath, fname, f"{ast.unparse(x)[:80]}",
                                f"{fname}: `{ast.unparse(x)[:100]}` builds a {ci.name} without its required field(s) {missing}: "
                                f"ValidationError on every execution", x.lineno)
    # the expected count of reports is zero: the binding test must fire on a known-bad call on every run
    probe = ast.parse("def f(a, b, *, c, d=1): ...\nf(1, c=2)\nf(1, 2, c=3, e=4)\nf(1, 2, c=3)")
    fdef_, bad1, bad2, good = probe.body[0], probe.body[1].value, probe.body[2].value, probe.body[3].value
    if not call_shape_problems(bad1, fdef_) or not call_shape_problems(bad2, fdef_) or call_shape_problems(good, fdef_):
        ctx.undec("G.11", "probe", "the binding test does not separate the probe calls: the rule cannot fire")
        return
    ctx.ok("G.11", f"{len(list(_scope_modules(ctx, files)))} modules", f"{n} resolved calls / model constructions bind (probe calls separated)")


def expand_new_helpers(ctx, t):
    """calls of side-effect free module functions that the reference tree does not have, whose arguments became explicit only after a
    rule's substitution (`_widen(*geometry.coordinates, b)` once the coordinates are a display), replaced by their value"""
    from sa.sym import PINNED, expand_pure_calls, fold_sub
    if not isinstance(t, tuple) or not t:
        return t
    if not isinstance(t[0], str):
        return tuple(expand_new_helpers(ctx, c) for c in t)
    t = tuple(expand_new_helpers(ctx, c) if isinstance(c, tuple) else c for c in t)
    if t[0] == "call" and t[1][0] == "global" and t[1][2] == "func" and ":" in t[1][1]:
        modname, name = t[1][1].split(":")
        if name not in PINNED.get(modname, ()) and modname in ctx.index.modules:
            v = expand_pure_calls(t, ctx.summ, None, ctx.index.modules[modname])
            if v != t:
                return fold_sub(v)
    return t


class Settle:
    """A rule that compares spellings runs first; afterwards the same obligation is decided on finite models (sa/meval.py).  If the
    models all agree with the statement, what the spelling-based rule reported since the snapshot is withdrawn; if a model
    disagrees, that is reported (whatever the spelling-based rule said); if the models cannot be evaluated, nothing changes."""

    def __init__(self, ctx):
        self.ctx = ctx
        self.snap = (len(ctx.findings), len(ctx.undecided), {k: len(v) for k, v in ctx.instances.items()})

    def clean(self) -> bool:
        return len(self.ctx.findings) == self.snap[0] and len(self.ctx.undecided) == self.snap[1]

    def withdraw(self, keep=None):
        """keep(text) -> True for reports (by function name / site text) that the models do not speak about and that therefore stay"""
        ctx = self.ctx
        keep = keep or (lambda text: False)
        ctx.findings[self.snap[0]:] = [f for f in ctx.findings[self.snap[0]:] if keep(f.func)]
        ctx.undecided[self.snap[1]:] = [u for u in ctx.undecided[self.snap[1]:] if keep(u.site)]
        for k in list(ctx.instances):
            n0 = self.snap[2].get(k, 0)
            ctx.instances[k][n0:] = [i for i in ctx.instances[k][n0:] if i.get("verdict") == "PASS" or keep(i.get("site", ""))]

    def clean_except(self, keep) -> bool:
        ctx = self.ctx
        return not [f for f in ctx.findings[self.snap[0]:] if not keep(f.func)] and not [u for u in ctx.undecided[self.snap[1]:] if not keep(u.site)]


def foreign_formulation(ctx, s):
    """Why a summary is written in a formulation the spelling-based rules cannot read (None = it is not): it carries state through a
    loop that was not resolved, calls an in-package helper / a method of an object built in place / an entry of a table that the engine
    did not open.  A rule that finds a deviation in such a function does not know whether it is one."""
    from sa.sym import PINNED
    new_helpers = sorted({q for q in getattr(s, "inlined", ()) if ":" in q and q.split(":")[1].split(".")[0] not in {n.split(".")[0] for n in PINNED.get(q.split(":")[0], ())}
                          and q.split(":")[0] != s.module.name})
    if len(new_helpers) >= 4:
        return f"{len(new_helpers)} helpers of another module that the reference tree does not have ({', '.join(h.split(':')[1] for h in new_helpers[:3])}, ...): a generic engine spliced in"
    for e in s.events:
        for t in (e.term, e.live):
            for x in walk(t):
                if x[0] in ("loopout", "phi") and len(x) == 3:
                    return f"state carried through a loop (`{x[1]}`)"
                if x[0] == "ext" and len(x) == 2 and x[1] in ("itertools.starmap", "functools.reduce", "itertools.chain.from_iterable", "itertools.accumulate",
                                                               "itertools.groupby", "itertools.tee", "itertools.zip_longest"):
                    return f"a functional pipeline (`{x[1]}`)"
                if x[0] == "call" and isinstance(x[1], tuple):
                    f = x[1]
                    if f[0] == "global" and f[2] == "func" and ":" in f[1]:
                        mn, fn = f[1].split(":")
                        if fn.split(".")[0] not in {n.split(".")[0] for n in PINNED.get(mn, ())} and mn in ctx.index.modules:
                            return f"a helper the engine did not open (`{fn}`)"
                    if f[0] == "attr" and f[1][0] == "call" and isinstance(f[1][1], tuple) and f[1][1][0] == "global" and f[1][1][2] == "class" \
                            and str(f[1][1][1]).startswith("soundevent"):
                        return f"a method of an object built in place (`{f[1][1][1].split(':')[-1]}.{f[2]}`)"
                    if f[0] == "sub" and f[1][0] == "global" and f[1][2] == "assign":
                        return f"an entry of the table `{f[1][1].split(':')[-1]}`"
    return None


def soften_foreign(ctx, settle, rule_prefixes):
    """The reports made since `settle` (a Settle snapshot) by the named rules, about functions whose summary is in a foreign formulation
    (or about tables of a module whose functions are), become UNDECIDED: the rule matched the reference's formulation and did not find it."""
    new = ctx.findings[settle.snap[0]:]
    keep, turned = [], []
    for f in new:
        if not any(f.rule.split("/")[-1].startswith(p) or f.rule.startswith(p) for p in rule_prefixes):
            keep.append(f)
            continue
        reason = None
        mod = next((m for m in ctx.index.modules.values() if m.relpath == f.file), None)
        if mod is not None:
            cands = []
            try:
                cands.append(ctx.summ.of_func(mod.name, f.func))
            except Exception:  # noqa: BLE001
                pass
            # ... and the other functions of its module (a finding about an entry point or a table is about the helpers it is built from)
            for d, defs in mod.defs.items():
                if any(isinstance(x, ast.FunctionDef) for x in defs):
                    try:
                        cands.append(ctx.summ.of_func(mod.name, d))
                    except Exception:  # noqa: BLE001
                        pass
            for s_ in cands:
                reason = foreign_formulation(ctx, s_)
                if reason:
                    break
        if reason:
            turned.append((f, reason))
        else:
            keep.append(f)
    if not turned:
        return
    ctx.findings[settle.snap[0]:] = keep
    gone = {(f.rule, f.func) for f, _ in turned}
    for k in list(ctx.instances):
        n0 = settle.snap[2].get(k, 0)
        ctx.instances[k][n0:] = [i for i in ctx.instances[k][n0:] if not (i.get("verdict") == "VIOLATION" and any(k == r_ and fn_ in i.get("site", "") for r_, fn_ in gone))]
    for f, reason in turned:
        ctx.undec(f.rule[len(ctx._prefix):] if ctx._prefix and f.rule.startswith(ctx._prefix) else f.rule, f"{f.file}:{f.line} {f.func}",
                  f"the rule did not find the reference's formulation ({f.construct[:50]}), and {f.func} is written with {reason}: not decided")
