"""C16 -- range dimensions and coordinate lookup (R16.1 - R16.3)."""

from __future__ import annotations

import itertools

from sa.canon import canon
from sa.peval import peval
from sa.report import Ctx
from sa.sym import callkw, FALSE, NONE, NOT, Summary, bind_args, conjuncts, show, subst, walk

DIMS = "soundevent.arrays.dimensions"
AOPS = "soundevent.arrays.operations"

EXPLANATION = (
    "Static decision of the structural clauses of range dimensions and coordinate lookup: R16.1 the step recorded in the "
    "attributes is the very step given to np.arange (with start/stop/dtype forwarded), `size` means step = (stop - "
    "start) / size, the trailing element that rounding pushed to the stop value is trimmed, and the time / frequency "
    "wrappers forward start/stop/step to the right parameters (step = 1 / samplerate when absent); R16.2 get_coord_index "
    "is `get_slice_bound(value, 'right') - 1` inside the closed range [start, stop] and outside it raises KeyError iff "
    "raise_error, else clamps to 0 / size -- decided on all orderings of value against start and stop; R16.3 "
    "set_value_at_pos builds one full-slice indexer, replaces for each queried dimension the entry at that dimension's "
    "own axis number with that dimension's own coordinate index, and stores once. The values and count np.arange "
    "produces (and the tolerance of the trim) are numerical and not decided."
    'R16.1 evaluates the trailing-element test on placements of the last coordinate relative to stop (0 to 0.1 step below: trimmed; 0.9 to 1.1 step below: kept). '
)
ASSUMPTIONS = ["pandas Index.get_slice_bound(v, 'right') is the number of coordinates <= v on a sorted index (trusted)",
               "np.arange(start, stop, step) yields start + i*step (trusted; its element count under rounding is not decided)"]


class C16:
    def __init__(self, ctx: Ctx):
        self.ctx = ctx
        self.file = ctx.index.module(DIMS).relpath

    # ------------------------------------------------------------------ R16.1
    def check_range_dim(self, wrappers=("create_time_range", "create_frequency_range"), size_mode=True):
        ctx = self.ctx
        s = ctx.summ.of_func(DIMS, "create_range_dim")
        site = f"{self.file}:{s.node.lineno} create_range_dim"
        name, start, stop, step, size, dtype = (("param", p) for p in ("name", "start", "stop", "step", "size", "dtype"))
        step_eff_none = ("bin", "/", ("bin", "-", stop, start), size)
        ar = [e for e in s.calls if e.term[1] == ("ext", "numpy.arange")]
        if len(ar) != 1:
            ctx.undec("R16.1", site, f"{len(ar)} np.arange calls")
            return
        a = ar[0].term
        kw = callkw(a)
        pos = list(a[2])
        a_start, a_stop, a_step = kw.get("start", pos[0] if pos else None), kw.get("stop", pos[1] if len(pos) > 1 else None), kw.get("step", pos[2] if len(pos) > 2 else None)
        for case, env, want_step in (("step given", {("cmp", "is", step, NONE): False, ("cmp", "isnot", step, NONE): True}, step),
                                     ) + (() if not size_mode else (("size given", {("cmp", "is", step, NONE): True, ("cmp", "isnot", step, NONE): False,
                                                     ("cmp", "is", size, NONE): False, ("cmp", "isnot", size, NONE): True}, step_eff_none),)):
            got = peval(a_step, env) if a_step is not None else None
            if got is not None and canon(got) == canon(want_step):
                ctx.ok("R16.1", f"{self.file}:{ar[0].lineno} create_range_dim", f"{case}: arange step = {show(want_step)[:40]}")
            else:
                ctx.bad("R16.1", self.file, "create_range_dim", f"{case}: np.arange(step={show(got)[:50] if got else '-'})",
                        f"{case}: the coordinates are generated with step {show(got)[:60] if got else '?'} instead of {show(want_step)[:60]}",
                        ar[0].lineno)
        if a_start == start and a_stop == stop and kw.get("dtype", pos[3] if len(pos) > 3 else None) == dtype:
            ctx.ok("R16.1", f"{self.file}:{ar[0].lineno} create_range_dim", "arange(start=start, stop=stop, dtype=dtype)")
        else:
            ctx.bad("R16.1", self.file, "create_range_dim", f"np.arange({show(a_start)[:20] if a_start else '-'}, {show(a_stop)[:20] if a_stop else '-'})",
                    "start / stop / dtype are not forwarded to np.arange as given", ar[0].lineno)
        both_none = [r for r in s.raises if peval(r.live, {("cmp", "is", step, NONE): True, ("cmp", "is", size, NONE): True,
                                                           ("cmp", "isnot", step, NONE): False, ("cmp", "isnot", size, NONE): False}) == ("const", True)]
        if both_none:
            ctx.ok("R16.1", site, "neither step nor size -> ValueError")
        else:
            ctx.bad("R16.1", self.file, "create_range_dim", "step is None and size is None", "a call without step and size is not rejected", s.node.lineno)
        # returned Variable: attrs step == the arange step term, data = (trimmed) coords
        var = [r.term for r in s.returns if r.term[0] == "call" and r.term[1] == ("ext", "xarray.Variable")]
        if len(var) != 1:
            ctx.undec("R16.1", site, "returned xr.Variable(...) not found")
            return
        vk = callkw(var[0])
        attrs = vk.get("attrs")
        stepkey = ("attr", ("attr", ("global", "soundevent.arrays.attributes:DimAttrs", "class"), "step"), "value")
        rec = None
        if attrs is not None and attrs[0] == "dict":
            for k, v in attrs[1]:
                if k in (stepkey, ("const", "step")):
                    rec = v
        if rec is not None and rec == a_step:
            ctx.ok("R16.1", site, "recorded step attribute is the step used to generate the coordinates")
        else:
            ctx.bad("R16.1", self.file, "create_range_dim", f"attrs step = {show(rec)[:50] if rec else 'missing'}",
                    f"the advertised step attribute ({show(rec)[:60] if rec else 'missing'}) is not the step the coordinates were generated "
                    f"with ({show(a_step)[:60] if a_step else '?'})", s.node.lineno)
        data = vk.get("data")
        coords = ar[0].term
        trimmed = ("sub", coords, ("slice", NONE, ("const", -1), NONE))
        trim_ok = data is not None and data[0] == "ite" and trimmed in (data[2], data[3]) and coords in (data[2], data[3])
        if trim_ok:
            c = data[1] if data[2] == trimmed else NOT(data[1])
            last = ("sub", coords, ("const", -1))
            mentions = any(x == last for x in walk(c)) and any(x == stop for x in walk(c))
            # the trim must apply in both modes (step given / size given)
            for env_ in ({("cmp", "is", step, NONE): False, ("cmp", "isnot", step, NONE): True, ("cmp", "is", size, NONE): True, ("cmp", "isnot", size, NONE): False},
                         {("cmp", "is", step, NONE): True, ("cmp", "isnot", step, NONE): False, ("cmp", "is", size, NONE): False, ("cmp", "isnot", size, NONE): True})[:2 if size_mode else 1]:
                ce = peval(c, env_)
                if ce[0] == "const":
                    mentions = False
            trim_ok = mentions
            if trim_ok:
                # the test as a function of (last, stop, step): it must fire when the last element is the spurious one (within
                # rounding drift of the stop value -- the drift grows with start and the number of steps, up to a good fraction
                # of a step) and must not fire when it is the legitimate last element one step below stop
                verdicts = []
                for S, stv in ((1.0, 0.1), (3600.5, 1 / 48000), (600.0, 1 / 192000), (22050.0, 10.0)):
                    for d, want in ((0.0, True), (-1e-6, True), (1e-12, True), (1e-6, True), (1e-3, True), (1e-2, True), (0.1, True),
                                    (0.9, False), (1.0, False), (1.1, False)):
                        env_ = {last: S - d * stv, stop: S, ("param", "step"): stv}
                        if a_step is not None:
                            env_[a_step] = stv
                        for q in (("cmp", "is", step, NONE), ("cmp", "is", size, NONE)):
                            env_[q] = q[2] == size
                        for q in (("cmp", "isnot", step, NONE), ("cmp", "isnot", size, NONE)):
                            env_[q] = q[2] == step
                        got = peval(c, env_)
                        if got[0] != "const":
                            verdicts = None
                            break
                        if bool(got[1]) != want:
                            verdicts.append((S, stv, d, bool(got[1])))
                    if verdicts is None:
                        break
                if verdicts:
                    S, stv, d, gotv = verdicts[0]
                    ctx.bad("R16.1", self.file, "create_range_dim", f"trim iff {show(c)[:70]}",
                            f"the trailing-element test `{show(c)[:90]}` {'fires' if gotv else 'does not fire'} when the last generated "
                            f"coordinate is {d} step(s) below stop (stop={S}, step={stv:.6g}): "
                            + ("the legitimate last coordinate is removed" if gotv else
                               "the extra coordinate that np.arange produces when rounding pushes start + n*step just below stop survives "
                               "(its distance from stop grows with start and the number of steps): n + 1 coordinates instead of n"),
                            s.node.lineno, witness={"stop": S, "step": stv, "last": S - d * stv, "trimmed": gotv})
                    trim_ok = None
        if trim_ok is None:
            pass
        elif trim_ok and vk.get("dims") == name:
            ctx.ok("R16.1", site, "trailing element at/after the stop value trimmed; dims=name")
        else:
            ctx.bad("R16.1", self.file, "create_range_dim", f"data={show(data)[:70] if data else '-'}",
                    "the generated coordinates must be returned with a trailing element trimmed iff rounding pushed it to the stop "
                    "value (comparison of coords[-1] with stop): otherwise the axis contains the excluded stop value", s.node.lineno)
        # wrappers
        for fname, sp, ep, defaults in (("create_time_range", "start_time", "end_time", True), ("create_frequency_range", "low_freq", "high_freq", False)):
            if fname not in wrappers:
                continue
            ws = ctx.summ.of_func(DIMS, fname)
            wsite = f"{self.file}:{ws.node.lineno} {fname}"
            calls = [r.term for r in ws.returns if r.term[0] == "call" and r.term[1] == ("global", f"{DIMS}:create_range_dim", "func")]
            if len(calls) != 1:
                ctx.undec("R16.1", wsite, "does not return create_range_dim(...)")
                continue
            b, extra, spreads, _ = bind_args(calls[0], s.params)
            stp = b.get("step")
            if defaults:
                sr = ("param", "samplerate")
                e1 = {("cmp", "is", ("param", "step"), NONE): True, ("cmp", "isnot", ("param", "step"), NONE): False,
                      ("cmp", "is", sr, NONE): False, ("cmp", "isnot", sr, NONE): True}
                e2 = {("cmp", "is", ("param", "step"), NONE): False, ("cmp", "isnot", ("param", "step"), NONE): True}
                ok_step = canon(peval(stp, e1)) == canon(("bin", "/", ("const", 1), sr)) and peval(stp, e2) == ("param", "step")
            else:
                ok_step = stp == ("param", "step")
            if b.get("start") == ("param", sp) and b.get("stop") == ("param", ep) and ok_step and b.get("name") == ("param", "name") \
                    and b.get("dtype") == ("param", "dtype"):
                ctx.ok("R16.1", wsite, f"start={sp}, stop={ep}, step{' (1/samplerate when absent)' if defaults else ''} forwarded")
            else:
                ctx.bad("R16.1", self.file, fname, f"create_range_dim(start={show(b.get('start', NONE))}, stop={show(b.get('stop', NONE))}, step={show(stp)[:40] if stp else '-'})",
                        f"{fname} must forward start={sp}, stop={ep} and the step{' (1 / samplerate when no step is given)' if defaults else ''} "
                        f"to create_range_dim", ws.node.lineno)

    # ------------------------------------------------------------------ R16.2
    def check_coord_index(self):
        ctx = self.ctx
        s = ctx.summ.of_func(DIMS, "get_coord_index")
        site = f"{self.file}:{s.node.lineno} get_coord_index"
        arr, dim, value, re_ = (("param", p) for p in s.params[:4])
        rng = ("call", ("global", f"{DIMS}:get_dim_range", "func"), (arr, dim), ())
        st, sp = ("sub", rng, ("const", 0)), ("sub", rng, ("const", 1))
        inrange = ("bin", "-", ("call", ("attr", ("sub", ("attr", arr, "indexes"), dim), "get_slice_bound"), (value, ("const", "right")), ()), ("const", 1))
        size = ("sub", ("attr", arr, "sizes"), dim)
        bad = None
        n = 0
        from sa.memo import simplify
        from sa.sym import TRUE, FALSE as F_
        cases_ = []
        for v, raise_error in itertools.product((-1.0, 0.0, 0.5, 1.0, 2.0), (True, False)):
            env = {st: 0.0, sp: 1.0, value: v, re_: raise_error}
            # conditions the grid does not decide (e.g. "the axis records a step") are free: every combination of
            # their truth values is a case of its own
            resid = [peval(e.live, env) for e in s.returns + s.raises]
            atoms = []
            for lv in resid:
                if lv[0] != "const":
                    for c in conjuncts(lv):
                        a_ = c[1] if c[0] == "not" else c
                        if a_[0] in ("and", "or"):
                            atoms = None
                            break
                        if a_ not in atoms and NOT(a_) not in atoms:
                            atoms.append(a_)
                    if atoms is None:
                        break
            if atoms is None or len(atoms) > 3:
                ctx.undec("R16.2", site, f"path condition outside the recognised fragment: {show([l for l in resid if l[0] != 'const'][0])[:70]}")
                return
            for vals in itertools.product((TRUE, F_), repeat=len(atoms)):
                cases_.append((v, raise_error, env, dict(zip(atoms, vals))))
        for v, raise_error, env, facts in cases_:
            outs = []
            for e in s.returns + s.raises:
                lv = simplify(peval(e.live, env), facts)
                if lv == ("const", True):
                    outs.append((e.kind, peval(e.term, env) if e.kind == "return" else e.term))
                elif lv[0] != "const":
                    ctx.undec("R16.2", site, f"path condition outside the recognised fragment: {show(lv)[:70]}")
                    return
            n += 1
            if len(outs) != 1:
                bad = (v, raise_error, f"{len(outs)} outcomes")
                break
            kind, t = outs[0]
            if 0.0 <= v <= 1.0:
                good = kind == "return" and canon(t) == canon(peval(inrange, env))
                exp = "get_slice_bound(value, 'right') - 1"
            elif raise_error:
                exc = t[1] if t[0] == "raise_from" else t
                good = kind == "raise" and exc[0] == "call" and exc[1] == ("builtin", "KeyError")
                exp = "KeyError"
            else:
                good = kind == "return" and t == (("const", 0) if v < 0 else size)
                exp = "0" if v < 0 else "arr.sizes[dim]"
            if not good:
                when = "".join(f" when `{show(a_)[:60]}` is {b_[1]}" for a_, b_ in facts.items())
                bad = (v, raise_error, f"{kind} {show(t)[:70]}{when} (expected {exp})")
                break
        if bad is None:
            ctx.ok("R16.2", site, f"in [start, stop]: right bound - 1; outside: KeyError iff raise_error else clamp to 0 / size ({n} cases)")
        else:
            v, raise_error, what = bad
            where = "below the range" if v < 0 else ("above the range" if v > 1 else ("at the lower edge" if v == 0 else ("at the upper edge" if v == 1 else "inside the range")))
            ctx.bad("R16.2", self.file, "get_coord_index", f"value {where}, raise_error={raise_error}",
                    f"for a value {where} (axis range [0, 1], value {v}, raise_error={raise_error}) the lookup gives {what}",
                    s.node.lineno, witness={"range": [0.0, 1.0], "value": v, "raise_error": raise_error})
        self.check_dim_range()

    def check_dim_range(self):
        """get_dim_range = (min, max) of the dimension's own index (used by C17 as a prerequisite as well)."""
        ctx = self.ctx
        gr = ctx.summ.of_func(DIMS, "get_dim_range")
        a, d = ("param", gr.params[0]), ("param", gr.params[1])
        idx = ("sub", ("attr", a, "indexes"), d)
        want = ("tuple", (("call", ("attr", idx, "min"), (), ()), ("call", ("attr", idx, "max"), (), ())))
        if len(gr.returns) == 1 and gr.returns[0].term == want:
            ctx.ok("R16.2", f"{self.file}:{gr.node.lineno} get_dim_range", "(index.min(), index.max()) of the named dimension")
        else:
            ctx.bad("R16.2", self.file, "get_dim_range", f"return {show(gr.returns[0].term)[:60] if gr.returns else '-'}",
                    "get_dim_range must return (min, max) of the named dimension's index", gr.node.lineno)

    # ------------------------------------------------------------------ R16.3
    def check_set_value(self):
        ctx = self.ctx
        s = ctx.summ.of_func(AOPS, "set_value_at_pos")
        file = s.module.relpath
        site = f"{file}:{s.node.lineno} set_value_at_pos"
        arr, val = ("param", s.params[0]), ("param", s.params[1])
        q = ("param", "**" + s.kwarg) if s.kwarg else None
        stores = s.of("store")
        final = [e for e in stores if e.term[1][0] == "sub" and e.term[1][1] == ("attr", arr, "data")]
        idx_stores = [e for e in stores if e not in final]
        items = ("call", ("attr", q, "items"), (), ()) if q is not None else None
        SL = ("slice", NONE, NONE, NONE)
        RNG = ("call", ("builtin", "range"), (("attr", arr, "ndim"),), ())

        def entry_ok(lid, key, val):
            """key / value of the per-dimension entry: axis number of THAT dim -> coordinate index of THAT dim"""
            e = ("elem", lid)
            dimv, coord = ("sub", e, ("const", 0)), ("sub", e, ("const", 1))
            want_pos = ("call", ("attr", arr, "get_axis_num"), (dimv,), ())
            want_val = ("call", ("global", f"{DIMS}:get_coord_index", "func"), (arr, dimv, coord), ())
            return key == want_pos and ctx.normcalls(val) == ctx.normcalls(want_val)

        ok_idx = init_ok = False
        index_term = None  # the term that must subscript array.data
        form = None
        loops = [l for l in s.loops.values() if l.kind == "for" and l.iter == items and not l.conds]
        if q is not None and len(loops) == 1 and len(idx_stores) == 1:
            # form A: full-slice list, one store per queried dimension, tuple(indexer)
            form = "list of slices updated per query item"
            t = idx_stores[0].term
            indexer = t[1][1] if t[1][0] == "sub" else None
            ok_idx = t[1][0] == "sub" and entry_ok(loops[0].id, t[1][2], t[2]) and loops[0].id in idx_stores[0].loops \
                and all(c[0] == "inloop" for c in conjuncts(idx_stores[0].live))
            from sa import seqview
            # one full slice per axis, however the list is spelled ([slice(None) for _ in range(ndim)], [slice(None)] * ndim)
            init_ok = indexer is not None and seqview.item(indexer, ("param", "__i__")) == SL \
                and seqview.length(indexer) in (("attr", arr, "ndim"), ("call", ("builtin", "len"), (("attr", arr, "shape"),), ()),
                                                ("call", ("builtin", "len"), (("attr", arr, "dims"),), ()))
            index_term = ("call", ("builtin", "tuple"), (indexer,), ()) if indexer is not None else None
        elif q is not None and not idx_stores and len(final) == 1:
            # form B: {axis: index for each query item} looked up per axis, full slice elsewhere
            form = "per-axis lookup in a table of the queried axes"
            it = final[0].term[1][2]
            g = it[2][0] if it[0] == "call" and it[1] == ("builtin", "tuple") and len(it[2]) == 1 else it
            if g[0] == "comp" and g[1] in ("gen", "list") and len(g[3]) == 1 and g[3][0][1] == RNG and not g[3][0][2]:
                ax = ("elem", g[3][0][0])
                elt = g[2]
                tab = None
                if elt[0] == "ite" and elt[1][0] == "cmp" and elt[1][1] == "in" and elt[1][2] == ax and elt[3] == SL and elt[2] == ("sub", elt[1][3], ax):
                    tab = elt[1][3]
                elif elt[0] == "call" and elt[1][0] == "attr" and elt[1][2] == "get" and elt[2] == (ax, SL) and not elt[3]:
                    tab = elt[1][1]
                if tab is not None:
                    init_ok = True
                    if tab[0] == "comp" and tab[1] == "dict" and len(tab[3]) == 1 and tab[3][0][1] == items and not tab[3][0][2] and tab[2][0] == "kv":
                        ok_idx = entry_ok(tab[3][0][0], tab[2][1], tab[2][2])
                    else:
                        ctx.undec("R16.3", site, f"the table of queried axes is built in a form the rule does not read: {show(tab)[:70]}")
                        return
                index_term = it if it[0] == "call" else ("call", ("builtin", "tuple"), (it,), ()) if g[1] == "list" else it
        else:
            # positional pairing of two sequences derived from the query, one of them re-ordered on its own
            for L in s.loops.values():
                it = L.iter
                if it[0] == "call" and it[1] == ("builtin", "zip") and len(it[2]) == 2 and q is not None:
                    def from_q(t):
                        return any(x == q for x in walk(t))
                    def reordered(t):
                        return t[0] == "call" and t[1] in (("builtin", "sorted"), ("builtin", "reversed")) and from_q(t)
                    a_, b_ = it[2]
                    if from_q(a_) and from_q(b_) and reordered(a_) != reordered(b_):
                        srt = a_ if reordered(a_) else b_
                        ctx.bad("R16.3", file, "set_value_at_pos", f"zip({show(a_)[:40]}, {show(b_)[:40]})",
                                f"`{show(srt)[:70]}` is re-ordered on its own and then paired position by position with `{show(b_ if srt is a_ else a_)[:50]}`, "
                                f"which keeps the order of the keyword arguments: unless the keywords happen to be given in axis order, each "
                                f"position is looked up on, and written along, another dimension's axis", getattr(L.node, "lineno", s.node.lineno),
                                witness={"call": "set_value_at_pos(a, v, y=3.25, x=0.5) on dims (x, y)"})
                        return
            ctx.undec("R16.3", site, "loop over the query items not found")
            return
        if ok_idx and init_ok:
            ctx.ok("R16.3", site, f"indexer[axis of dim] = get_coord_index(array, dim, coord) for each query item, full slice elsewhere ({form})")
        else:
            ctx.bad("R16.3", file, "set_value_at_pos", f"indexer stores: {[show(x.term)[:70] for x in idx_stores] or show(index_term)[:80]}",
                    "for every queried dimension the indexer entry at THAT dimension's axis number must be THAT dimension's coordinate "
                    "index, starting from one full slice per axis: otherwise another cell is addressed", s.node.lineno)
        if len(final) == 1 and index_term is not None and final[0].term[1][2] == index_term and final[0].term[2] == val \
                and not final[0].loops:
            ctx.ok("R16.3", site, "single store array.data[tuple(indexer)] = value")
        else:
            ctx.bad("R16.3", file, "set_value_at_pos", f"data stores: {[show(x.term)[:70] for x in final]}",
                    "the value must be written exactly once, to array.data[tuple(indexer)], after the indexer is complete", s.node.lineno)
        if len(s.returns) == 1 and s.returns[0].term == arr:
            ctx.ok("R16.3", site, "returns the array")
        else:
            ctx.bad("R16.3", file, "set_value_at_pos", "return array", "must return the modified array", s.node.lineno)


def run(ctx: Ctx):
    ctx.rule("R16.1", "recorded step == generating step; size => (stop-start)/size; trim; wrappers forward", 8)
    ctx.rule("R16.2", "coordinate lookup: right bound - 1 in range, raise/clamp outside", 2)
    ctx.rule("R16.3", "set_value_at_pos addresses each query dimension's own axis, single store", 3)
    c = C16(ctx)
    c.check_range_dim()
    c.check_coord_index()
    c.check_set_value()
    return EXPLANATION, ASSUMPTIONS
