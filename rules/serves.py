"""G.12 -- the entry points a property speaks about keep serving every valid request.

Every property of the form "for every input F returns ..." is broken by a rejection that fires for a valid input, wherever the
condition comes from (`if hop == 12345: raise`, `if clip.duration > 600: raise`, `if not tags: raise`).  The rules that read what F
computes evaluate it on scenarios and sample points; a rejection that is false on all of them passes there.  This rule reads the
rejections themselves: for each listed entry function, every `raise` of its summary (helpers inlined) that is not the conversion of
a caught error must be *dead for valid requests*:

* the documented rejections of F (what the property's statement allows F to refuse: non-positive hop, a negative buffer, ...) are
  given as atoms that hold for valid requests; the condition of the raise is folded under them (and under both readings of every
  optional parameter's `is None`, and every value of a quantity with a finite range such as a geometry's type tag);
* what remains is put into disjunctive normal form and decided over intervals: a comparison of an *input-determined* quantity (a
  parameter, an attribute chain of one, `len()` of one, or a quantity the specification names) with a numeric constant constrains
  that quantity; truthiness / isinstance / equality-with-a-string of such a quantity is free (valid requests of both kinds exist);
* a disjunct that is satisfiable together with the valid-request atoms is a valid request that F refuses: reported, with example
  values; a condition with atoms outside this fragment is undecided (never silently accepted).

It decides the rejections, not the results (those are the property's own rules)."""

from __future__ import annotations

import itertools
from typing import Dict, List, Optional, Tuple

from sa.peval import peval
from sa.report import Ctx
from sa.sym import AND as AND_, FALSE, NONE, NOT, TRUE, conjuncts, mk_cmp, show, walk

OPS = "soundevent.geometry.operations"
AOPS = "soundevent.arrays.operations"
DIMS = "soundevent.arrays.dimensions"
TASKS = "soundevent.evaluation.tasks"
CROW = "soundevent.io.crowsetta"
TAGS = ["TimeStamp", "TimeInterval", "Point", "LineString", "Polygon", "BoundingBox", "MultiPoint", "MultiLineString", "MultiPolygon"]


def P(name):
    return ("param", name)


def C(v):
    return ("const", v)


def _rng(k):
    return ("sub", ("call", ("global", f"{DIMS}:get_dim_range", "func"), (P("arr"), P("dim")), ()), C(k))


def _opt(p, other):
    """`p` as the function reads it when None means `other`"""
    return ("ite", ("cmp", "is", P(p), NONE), other, P(p))


# property -> [(module, function, {"valid": [atoms true for valid requests], "enum": {term: [values]}, "quantities": [extra input-determined terms],
#               "why": what the statement promises})]
SERVES: Dict[str, List[Tuple[str, str, dict]]] = {
    "C05": [(OPS, "compute_bounds", {"why": "bounds are defined for every geometry"}),
            (OPS, "get_geometry_point", {"valid": [("cmp", "in", P("position"), None)], "enum": {("attr", P("geometry"), "type"): TAGS},
                                         "why": "every named position of every geometry is a point"}),
            ("soundevent.geometry.conversion", "geometry_to_shapely", {"enum": {("attr", P("geom"), "type"): TAGS}, "why": "every geometry type converts"}),
            ("soundevent.geometry.features", "compute_geometric_features", {"enum": {("attr", P("geometry"), "type"): TAGS}, "why": "features are defined for every geometry type"})],
    "C06": [("soundevent.evaluation.affinity", "compute_affinity", {"why": "the affinity is defined for every pair of geometries and all buffers"}),
            ("soundevent.evaluation.affinity", "compute_affinity_in_time", {"helper": True, "why": "the temporal affinity is defined for every pair of geometries"})],
    "C07": [("soundevent.evaluation.match", "match_geometries", {"why": "every list of sources and targets is matched"}),
            ("soundevent.evaluation.match", "_select_matches", {"why": "every affinity matrix has an assignment"})],
    "C08": [(f"{TASKS}.sound_event_detection", "sound_event_detection", {"why": "every list of clip predictions / annotations is evaluated"})],
    "C09": [(f"{TASKS}.clip_classification", "clip_classification", {"why": "every list of clip predictions / annotations is evaluated"}),
            (f"{TASKS}.clip_multilabel_classification", "clip_multilabel_classification", {"why": "every list of clip predictions / annotations is evaluated"}),
            (f"{TASKS}.sound_event_classification", "sound_event_classification", {"why": "every list of clip predictions / annotations is evaluated"})],
    "C10": [(f"{CROW}.bbox", "bbox_to_annotation", {"why": "every crowsetta bounding box becomes a sound event annotation"}),
            (f"{CROW}.bbox", "bbox_from_annotation", {"valid": [("cmp", "isnot", ("attr", ("attr", P("obj"), "sound_event"), "geometry"), NONE)],
                                                      "why": "every annotation with a geometry is exported (unsuitable geometry types are convert_geometry_to_bbox's rejection)"}),
            (f"{CROW}.bbox", "convert_geometry_to_bbox", {"enum": {("attr", P("geometry"), "type"): TAGS},
                                                          "valid": [("or", (("cmp", "eq", ("attr", P("geometry"), "type"), C("BoundingBox")), P("cast_to_bbox"))),
                                                                    NOT(("and", (("cmp", "in", ("attr", P("geometry"), "type"), ("list", (C("TimeInterval"), C("TimeStamp")))), P("raise_on_time_geometries"))))],
                                                          "why": "every bounding box is kept, every other geometry is cast when casting is requested (time-only ones unless the caller asks for an error)"}),
            (f"{CROW}.segment", "segment_from_annotation", {"valid": [("cmp", "isnot", ("attr", ("attr", P("obj"), "sound_event"), "geometry"), NONE)],
                                                            "why": "every annotation with a geometry is exported"}),
            (f"{CROW}.segment", "convert_geometry_to_interval", {"enum": {("attr", P("geometry"), "type"): TAGS},
                                                                 "valid": [("or", (("cmp", "eq", ("attr", P("geometry"), "type"), C("TimeInterval")), P("cast_to_segment")))],
                                                                 "why": "every time interval is kept, every other geometry is cast when casting is requested"}),
            (f"{CROW}.segment", "segment_to_annotation", {"valid": [("or", (("cmp", "isnot", ("attr", P("segment"), "onset_s"), NONE), ("cmp", "isnot", ("attr", P("segment"), "onset_sample"), NONE))),
                                                                    ("or", (("cmp", "isnot", ("attr", P("segment"), "offset_s"), NONE), ("cmp", "isnot", ("attr", P("segment"), "offset_sample"), NONE)))],
                                                          "why": "every segment with an onset and an offset (in seconds or samples) becomes an annotation"}),
            (f"{CROW}.sequence", "sequence_to_annotations", {"why": "every crowsetta sequence becomes a list of annotations"}),
            (f"{CROW}.labels", "label_to_tags", {"why": "every label is turned into tags under every option"}),
            (f"{CROW}.labels", "label_from_tag", {"why": "every tag has a label under every option"}),
            (f"{CROW}.labels", "label_from_tags", {"why": "every tag list has a label under every option"})],
    "C11": [(OPS, "buffer_geometry", {"valid": [mk_cmp("ge", P("time_buffer"), C(0)), mk_cmp("ge", P("freq_buffer"), C(0))],
                                      "enum": {("attr", P("geometry"), "type"): TAGS}, "why": "every geometry is buffered by every pair of non-negative buffers"})],
    "C12": [(OPS, "intervals_overlap", {"valid": [("or", (("cmp", "is", P("min_absolute_overlap"), NONE), ("cmp", "is", P("min_relative_overlap"), NONE))),
                                                  mk_cmp("ge", P("min_relative_overlap"), C(0)), mk_cmp("le", P("min_relative_overlap"), C(1))],
                                        "models": lambda ctx_: _c12_models(ctx_),
                                        "why": "every pair of intervals is compared for every single threshold (a relative one in [0, 1])"}),
            (OPS, "have_temporal_overlap", {"why": "the predicate is defined for every pair of geometries (thresholds are intervals_overlap's)"}),
            (OPS, "have_frequency_overlap", {"why": "the predicate is defined for every pair of geometries (thresholds are intervals_overlap's)"})],
    "C13": [(OPS, "group_sound_events", {"why": "every list of sound events is partitioned"}),
            (OPS, "_compute_similarity_matrix", {"why": "every list of sound events has a similarity matrix"})],
    "C14": [("soundevent.operations", "segment_clip", {"valid": [mk_cmp("gt", P("duration"), C(0)), mk_cmp("gt", P("hop"), C(0))],
                                                      "why": "every clip is segmented for every positive duration and hop"})],
    "C15": [("soundevent.audio.io", "load_clip", {"why": "every clip of every recording is loaded (zero-filled past the end of the file)"}),
            ("soundevent.audio.io", "load_recording", {"why": "every recording is loaded"}),
            ("soundevent.audio.io", "load_audio", {"helper": True, "why": "every readable file is loaded from every offset"})],
    "C16": [(DIMS, "get_coord_index", {"valid": [mk_cmp("ge", P("value"), _rng(0)), mk_cmp("le", P("value"), _rng(1))], "quantities": [_rng(0), _rng(1)],
                                       "why": "every value inside the range of the axis has an index"}),
            (AOPS, "set_value_at_pos", {"why": "every addressed cell can be written"}),
            (DIMS, "create_time_range", {"valid": [("or", (("cmp", "isnot", P("step"), NONE), ("cmp", "isnot", P("samplerate"), NONE)))],
                                         "why": "every time range with a step or a samplerate has an axis"}),
            (DIMS, "create_frequency_range", {"why": "every frequency range has an axis"}),
            (DIMS, "get_dim_range", {"why": "every axis has a range"})],
    "C17": [(AOPS, "crop_dim", {"valid": [mk_cmp("le", P("start"), P("stop")), mk_cmp("ge", P("start"), _rng(0)), mk_cmp("le", P("stop"), _rng(1)),
                                          mk_cmp("le", _rng(0), P("stop")), mk_cmp("le", P("start"), _rng(1)), mk_cmp("le", _rng(0), _rng(1))],
                                "quantities": [_rng(0), _rng(1)], "why": "every request inside the current range is cropped"}),
            (AOPS, "crop_dim_width", {"valid": [lambda s_: [mk_cmp("lt", P("width"), t_) for t_ in _compared_with(s_, P("width"))], mk_cmp("ge", P("width"), C(1))],
                                      "enum": {P("position"): ["start", "center", "end"]}, "why": "every width below the current one is cropped to at every position"}),
            (AOPS, "extend_dim_width", {"valid": [lambda s_: [mk_cmp("gt", P("width"), t_) for t_ in _compared_with(s_, P("width"))]],
                                        "enum": {P("position"): ["start", "center", "end"]}, "why": "every width above the current one is extended to at every position"}),
            (AOPS, "adjust_dim_width", {"valid": [mk_cmp("ge", P("width"), C(1))], "enum": {P("position"): ["start", "center", "end"]},
                                        "why": "every width of at least one sample is reached"}),
            (AOPS, "extend_dim", {"valid": [mk_cmp("le", P("start"), P("stop")), mk_cmp("le", _rng(0), P("stop")), mk_cmp("le", P("start"), _rng(1)), mk_cmp("le", _rng(0), _rng(1))],
                                  "quantities": [_rng(0), _rng(1)], "why": "every request with start <= stop is extended"})],
    "C18": [("soundevent.io.aoef", "save", {"must_reach": [("writes the document", lambda t: t[1][0] == "attr" and t[1][2] in ("write_text", "write_bytes", "write"))], "why": "every collection object is saved (a recording outside the audio directory is the recording adapter's rejection)"}),
            ("soundevent.io.aoef", "load", {"assume": "file_guards", "why": "every file that save has written is loaded, with every audio directory"})],
    "C01": [("soundevent.io.aoef", "save", {"must_reach": [("writes the document", lambda t: t[1][0] == "attr" and t[1][2] in ("write_text", "write_bytes", "write"))],
                                             "why": "every collection object is saved"}),
            ("soundevent.io.aoef", "load", {"assume": "file_guards", "why": "every file that save has written is loaded"})],
    "C19": [("soundevent.evaluation.encoding", "classification_encoding", {"why": "every tag list is encoded against every vocabulary"}),
            ("soundevent.evaluation.encoding", "multilabel_encoding", {"why": "every tag list is encoded against every vocabulary"}),
            ("soundevent.evaluation.encoding", "prediction_encoding", {"why": "every predicted-tag list is encoded against every vocabulary"}),
            ("soundevent.evaluation.encoding", "create_tag_encoder", {"helper": True, "why": "every vocabulary has an encoder"}),
            ("soundevent.evaluation.encoding", "SimpleEncoder.encode", {"helper": True, "why": "every tag is encoded (None outside the vocabulary)"})],
    "C20": [(OPS, "rasterize", {"valid": [mk_cmp("eq", ("call", ("builtin", "len"), (P("values"),), ()), ("call", ("builtin", "len"), (P("geometries"),), ()))],
                                "why": "every list of geometries is rasterised on every template (a value list of another length is the documented rejection)"})],
}


def _axis_role(t, arrs) -> Optional[str]:
    """'lo' / 'hi' when t is the first / last coordinate of an axis of a template parameter in one of its spellings"""
    def from_arr(x):
        return any(y in arrs for y in walk(x))
    if t[0] == "sub" and t[2][0] == "const" and t[1][0] == "call" and t[1][1][0] == "global" and t[1][1][1].endswith(":get_dim_range") and t[2][1] in (0, 1):
        return "lo" if t[2][1] == 0 else "hi"
    if t[0] == "call" and t[1][0] == "attr" and t[1][2] in ("min", "max") and not t[2] and from_arr(t[1][1]):
        return "lo" if t[1][2] == "min" else "hi"
    if t[0] == "call" and t[1] in (("ext", "numpy.min"), ("ext", "numpy.max"), ("builtin", "min"), ("builtin", "max")) and len(t[2]) == 1 and from_arr(t[2][0]):
        return "lo" if t[1][1].endswith("min") else "hi"
    if t[0] == "sub" and t[2][0] == "const" and t[2][1] in (0, -1) and from_arr(t[1]) and not (t[1][0] == "call" and t[1][1][0] == "global"):
        return "lo" if t[2][1] == 0 else "hi"
    if t[0] == "call" and t[1] in (("builtin", "float"), ("builtin", "int")) and len(t[2]) == 1:
        return _axis_role(t[2][0], arrs)
    if t[0] == "call" and t[1][0] == "attr" and t[1][2] == "item" and not t[2]:
        return _axis_role(t[1][1], arrs)
    return None


def _canon_axis(t, arrs):
    """every spelling of the axis' first / last coordinate is the one quantity the specification names"""
    if not isinstance(t, tuple) or not t or not isinstance(t[0], str):
        return tuple(_canon_axis(c, arrs) for c in t) if isinstance(t, tuple) else t
    r = _axis_role(t, arrs)
    if r is not None:
        return _rng(0) if r == "lo" else _rng(1)
    return tuple(_canon_axis(c, arrs) if isinstance(c, tuple) else c for c in t)


def _compared_with(summ, q):
    """the input-determined, non-constant terms the function's rejections compare the quantity q with (the current size of the axis,
    in whichever spelling the code reads it)"""
    out = []
    params = set(summ.params)
    for r in summ.raises:
        for x in walk(r.live):
            if x[0] == "cmp" and x[1] in ("lt", "le", "eq", "ne") and q in (x[2], x[3]):
                o = x[3] if x[2] == q else x[2]
                if o[0] != "const" and _input_determined(o, params, []) and o not in out:
                    out.append(o)
    return out


def _input_determined(t, params, extra) -> bool:
    if t in extra:
        return True
    if t[0] == "param":
        return t[1] in params
    if t[0] == "attr":
        return _input_determined(t[1], params, extra)
    if t[0] == "sub" and (t[2][0] == "const" or _input_determined(t[2], params, extra)):
        return _input_determined(t[1], params, extra)
    if t[0] == "call" and t[1] == ("builtin", "len") and len(t[2]) == 1 and not t[3]:
        return _input_determined(t[2][0], params, extra)
    if t[0] == "call" and t[1] in (("ext", "pathlib.Path"), ("builtin", "str"), ("ext", "os.fspath")) and len(t[2]) == 1 and not t[3]:
        return _input_determined(t[2][0], params, extra)
    return False


def _simplify(t):
    """len([x] * n) is n"""
    if not isinstance(t, tuple) or not t:
        return t
    t = tuple(_simplify(c) if isinstance(c, tuple) else c for c in t)
    if t[0] == "call" and t[1] == ("builtin", "len") and len(t[2]) == 1 and t[2][0][0] == "bin" and t[2][0][1] == "*":
        for lst, n in ((t[2][0][2], t[2][0][3]), (t[2][0][3], t[2][0][2])):
            if lst[0] == "list" and len(lst[1]) == 1:
                return n
    if t[0] == "call" and t[1] == ("builtin", "len") and len(t[2]) == 1 and t[2][0][0] == "comp" and t[2][0][1] == "list" and len(t[2][0][3]) == 1 \
            and not t[2][0][3][0][2]:
        it = t[2][0][3][0][1]  # len([f(x) for x in xs]) is len(xs); over range(n) it is n (n a length)
        if it[0] == "call" and it[1] == ("builtin", "range") and len(it[2]) == 1 and it[2][0][0] == "call" and it[2][0][1] == ("builtin", "len"):
            return it[2][0]
        if it[0] != "call":
            return ("call", ("builtin", "len"), (it,), ())
    if t[0] == "call" and t[1] == ("builtin", "len") and len(t[2]) == 1 and not t[3] and t[2][0][0] == "call" \
            and t[2][0][1] in (("builtin", "list"), ("builtin", "tuple")) and len(t[2][0][2]) == 1 and not t[2][0][3] and t[2][0][2][0][0] in ("param", "attr"):
        return ("call", ("builtin", "len"), (t[2][0][2][0],), ())  # len(list(xs)) of a sequence argument is len(xs)
    if t[0] == "call" and t[1] == ("builtin", "len") and len(t[2]) == 1 and not t[3] and t[2][0][0] == "call" \
            and t[2][0][1] in (("builtin", "list"), ("builtin", "tuple")) and len(t[2][0][2]) == 1 and t[2][0][2][0][0] == "call" \
            and t[2][0][2][0][1] == ("ext", "itertools.repeat") and len(t[2][0][2][0][2]) == 2 and not t[2][0][2][0][3]:
        return t[2][0][2][0][2][1]  # len(list(repeat(x, n))) is n
    if t[0] == "call" and t[1] == ("builtin", "isinstance") and len(t[2]) == 2 and not t[3] and (
            t[2][1] == ("builtin", "object") or (t[2][1][0] in ("tuple", "list") and ("builtin", "object") in t[2][1][1])):
        return TRUE  # everything is an object: the catch-all row of a table of type tests
    if t[0] == "cmp" and t[2] == t[3] and t[1] in ("eq", "le"):
        return TRUE
    if t[0] == "cmp" and t[2] == t[3] and t[1] in ("ne", "lt"):
        return FALSE
    return t


def _dnf(t, limit=64) -> Optional[List[List[Tuple[tuple, bool]]]]:
    """list of conjunctions of (atom, polarity); None when it grows past the limit"""
    if t == TRUE:
        return [[]]
    if t == FALSE:
        return []
    if t[0] == "and":
        out = [[]]
        for x in t[1]:
            d = _dnf(x, limit)
            if d is None:
                return None
            out = [a + b for a in out for b in d]
            if len(out) > limit:
                return None
        return out
    if t[0] == "or":
        out = []
        for x in t[1]:
            d = _dnf(x, limit)
            if d is None:
                return None
            out += d
            if len(out) > limit:
                return None
        return out
    if t[0] == "not":
        inner = NOT(t[1])
        if inner[0] == "not":
            return [[(t[1], False)]]
        return _dnf(inner, limit)
    if t[0] == "inloop":
        return [[]]
    return [[(t, True)]]


class _Box:
    """interval constraints per quantity; ints for len()"""

    def __init__(self):
        self.lo: Dict[tuple, Tuple[float, bool]] = {}
        self.hi: Dict[tuple, Tuple[float, bool]] = {}
        self.ne: Dict[tuple, set] = {}
        self.rel: Dict[tuple, frozenset] = {}

    def add(self, q, op, c) -> None:
        if op == "eq":
            self.add(q, "ge", c)
            self.add(q, "le", c)
        elif op == "ne":
            self.ne.setdefault(q, set()).add(c)
        elif op in ("gt", "ge"):
            cur = self.lo.get(q)
            new = (c, op == "gt")
            if cur is None or new[0] > cur[0] or (new[0] == cur[0] and new[1] and not cur[1]):
                self.lo[q] = new
        elif op in ("lt", "le"):
            cur = self.hi.get(q)
            new = (c, op == "lt")
            if cur is None or new[0] < cur[0] or (new[0] == cur[0] and new[1] and not cur[1]):
                self.hi[q] = new

    def example(self) -> Optional[Dict[tuple, float]]:
        out = {}
        for q in set(self.lo) | set(self.hi) | set(self.ne):
            is_len = q[0] == "call" and q[1] == ("builtin", "len")
            lo, hi = self.lo.get(q), self.hi.get(q)
            if is_len:
                if lo is None or lo[0] < 0:
                    lo = (0, False)
            cands = []
            if lo is not None and hi is not None:
                if lo[0] > hi[0] or (lo[0] == hi[0] and (lo[1] or hi[1])):
                    return None
                cands = [lo[0], hi[0], (lo[0] + hi[0]) / 2, lo[0] + (hi[0] - lo[0]) / 3]
            elif lo is not None:
                cands = [lo[0], lo[0] + 1, lo[0] + 2.5, lo[0] + 1000]
            elif hi is not None:
                cands = [hi[0], hi[0] - 1, hi[0] - 2.5, hi[0] - 1000]
            else:
                cands = [0, 1, 2.5, -1, 12345.678]
            if is_len:
                import math
                cands = [c_ for c_ in [math.ceil(c) for c in cands] + [math.floor(c) for c in cands] + ([lo[0] + k for k in range(0, 6)] if lo else [])]
            pick = None
            for c in cands:
                if lo is not None and (c < lo[0] or (c == lo[0] and lo[1])):
                    continue
                if hi is not None and (c > hi[0] or (c == hi[0] and hi[1])):
                    continue
                if c in self.ne.get(q, ()):
                    continue
                pick = c
                break
            if pick is None:
                return None
            out[q] = pick
        return out


def _num(t):
    if t[0] == "const" and isinstance(t[1], (int, float)) and not isinstance(t[1], bool):
        return t[1]
    if t[0] == "neg" and t[1][0] == "const" and isinstance(t[1][1], (int, float)) and not isinstance(t[1][1], bool):
        return -t[1][1]
    return None


def _classify(atom, pol, params, extra):
    """('iv', q, op, c) | ('free', key, polarity) | None (outside the fragment)"""
    if atom[0] == "cmp" and atom[1] in ("lt", "le", "eq", "ne"):
        op, a, b = atom[1], atom[2], atom[3]
        if not pol:
            op = {"lt": "ge", "le": "gt", "eq": "ne", "ne": "eq"}[op]
        ca, cb = _num(a), _num(b)
        if cb is not None and ca is None and _input_determined(a, params, extra):
            return ("iv", a, op, cb)
        if ca is not None and cb is None and _input_determined(b, params, extra):
            return ("iv", b, {"lt": "gt", "le": "ge", "gt": "lt", "ge": "le", "eq": "eq", "ne": "ne"}[op], ca)
        if ca is None and cb is None and _input_determined(a, params, extra) and _input_determined(b, params, extra):
            # an order / equality relation between two input-determined quantities: one of '<', '=', '>' per ordered pair
            allowed = {"lt": {"<"}, "le": {"<", "="}, "eq": {"="}, "ne": {"<", ">"}, "gt": {">"}, "ge": {">", "="}}[op]
            if repr(a) > repr(b):
                a, b = b, a
                allowed = {{"<": ">", ">": "<", "=": "="}[x] for x in allowed}
            return ("rel", (a, b), frozenset(allowed))
        # equality of an input-determined quantity with a string / None-free constant: valid requests of both kinds exist
        for x, y in ((a, b), (b, a)):
            if y[0] == "const" and isinstance(y[1], str) and _input_determined(x, params, extra) and atom[1] in ("eq", "ne"):
                return ("free", ("eq", x, y), (atom[1] == "eq") == pol)
        return None
    if atom[0] == "call" and atom[1] == ("builtin", "isinstance") and len(atom[2]) == 2 and _input_determined(atom[2][0], params, extra):
        return ("free", atom, pol)
    if atom[0] == "cmp" and atom[1] in ("in", "notin") and _input_determined(atom[2], params, extra) and atom[3][0] in ("tuple", "list", "set") \
            and all(x[0] == "const" for x in atom[3][1]):
        return ("free", ("in", atom[2], atom[3]), (atom[1] == "in") == pol)
    if atom[0] == "call" and ((atom[1][0] == "attr" and atom[1][2] in ("exists", "is_file", "is_dir") and not atom[2] and _input_determined(atom[1][1], params, extra))
                              or (atom[1] in (("ext", "os.path.exists"), ("ext", "os.path.isfile"), ("ext", "os.path.isdir")) and len(atom[2]) == 1
                                  and _input_determined(atom[2][0], params, extra))):
        return ("free", atom, pol)  # the state of the file system at a path the caller names: both states occur
    if _input_determined(atom, params, extra):
        return ("free", ("truthy", atom), pol)  # truthiness of a parameter / attribute: empty and non-empty inputs are both valid
    if atom[0] == "call" and atom[1] in (("builtin", "bool"), ("builtin", "any"), ("builtin", "all")) and len(atom[2]) == 1 and _input_determined(atom[2][0], params, extra):
        return ("free", atom, pol)
    return None


def _leaf_atoms(c):
    if c[0] in ("and", "or"):
        out = []
        for x in c[1]:
            out += _leaf_atoms(x)
        return out
    if c[0] == "not":
        return _leaf_atoms(c[1])
    return [c]


def _decide(lv, box0, params, extra, assumed, depth, venv=None):
    """('dead',) | ('fires', conjunction, example values) | ('unknown', why)  for a folded rejection condition"""
    lv = _simplify(lv)
    if venv:
        lv = _simplify(peval(lv, venv))
    if lv == FALSE or (lv[0] == "const" and not lv[1]):
        return ("dead",)
    ites = [x for x in walk(lv) if x[0] == "ite"]
    if ites and depth < 6:
        # a conditional value inside the condition (`len(values if is_seq else [values] * n)`): both readings of its test
        atom = _leaf_atoms(ites[0][1])[0]
        outs = []
        for val in (True, False):
            sub = peval(lv, {atom: val, NOT(atom): not val})
            outs.append(_decide(sub, box0, params, extra, assumed + [(atom, val)], depth + 1, venv))
        for o in outs:
            if o[0] == "fires":
                return o
        for o in outs:
            if o[0] == "unknown":
                return o
        return ("dead",)
    d = _dnf(lv)
    if d is None:
        return ("unknown", f"condition too large: {show(lv)[:80]}")
    unknown = None
    for conj in d:
        conj = list(assumed) + list(conj)
        box = _Box()
        box.lo, box.hi, box.ne = dict(box0.lo), dict(box0.hi), {k_: set(v_) for k_, v_ in box0.ne.items()}
        box.rel = dict(box0.rel)
        free: Dict[tuple, bool] = {}
        ok = True
        outside = None
        for atom, pol in conj:
            if atom[0] == "const":
                if bool(atom[1]) != pol:
                    ok = False
                continue
            k = _classify(atom, pol, params, extra)
            if k is None:
                outside = atom
                continue
            if k[0] == "iv":
                box.add(k[1], k[2], k[3])
            elif k[0] == "rel":
                box.rel[k[1]] = box.rel.get(k[1], frozenset("<=>")) & k[2]
                if not box.rel[k[1]]:
                    ok = False
            else:
                if free.get(k[1], k[2]) != k[2]:
                    ok = False
                free[k[1]] = k[2]
        if not ok:
            continue
        ex = box.example()
        if ex is None:
            continue
        if outside is not None:
            unknown = outside
            continue
        return ("fires", conj, ex)
    if unknown is not None:
        return ("unknown", f"`{show(unknown)[:90]}` is outside the decided fragment")
    return ("dead",)


def _c12_models(ctx) -> bool:
    """intervals_overlap serves every valid request of the model family of R12.1 - R12.3 (rules/c12.intervals_models)"""
    from sa.peval import Unknown
    try:
        from .c12 import intervals_models
        r = intervals_models(ctx)
        return r[1] is None
    except (Unknown, RecursionError):
        return False


def check_function(ctx: Ctx, rule: str, modname: str, fname: str, spec: dict) -> None:
    s = ctx.summ.of_func(modname, fname)
    file = s.module.relpath
    site = f"{file}:{s.node.lineno} {fname}"
    params = set(s.params)
    extra = list(spec.get("quantities", ()))
    raises = [r for r in s.raises if not r.in_handler]
    # atoms that hold for valid requests; `position in <the accepted names>` is given with the list left open (None)
    valid = []
    atoms_ = []
    for a in spec.get("valid", ()):
        atoms_ += a(s) if callable(a) else [a]
    for a in atoms_:
        if a[0] == "cmp" and a[3] is None:
            for r in raises:
                for x in walk(r.live):
                    if x[0] == "cmp" and x[1] in ("in", "notin") and x[2] == a[2]:
                        valid.append(("cmp", "in", x[2], x[3]))
        else:
            valid.append(a)
    # optional parameters: both readings of `p is None`
    nones = sorted({x[2] for r in s.events for x in walk(r.live) if x[0] == "cmp" and x[1] in ("is", "isnot") and x[3] == NONE
                    and (x[2][0] == "param" or (x[2][0] == "attr" and _input_determined(x[2], params, extra)))}, key=repr)
    optional = []
    a_ = s.node.args
    allp = list(a_.posonlyargs) + list(a_.args)
    dflt = dict(zip([p.arg for p in allp[len(allp) - len(a_.defaults):]], a_.defaults))
    dflt.update({p.arg: d for p, d in zip(a_.kwonlyargs, a_.kw_defaults) if d is not None})
    import ast as _ast
    for p in nones:
        if p[0] != "param":
            optional.append(p)  # an attribute of an input that may be None: both readings are inputs
            continue
        d = dflt.get(p[1])
        ann = next((x.annotation for x in allp + list(a_.kwonlyargs) if x.arg == p[1]), None)
        anntext = _ast.unparse(ann) if ann is not None else ""
        if (isinstance(d, _ast.Constant) and d.value is None) or "Optional" in anntext or "None" in anntext:
            optional.append(p)
    enums = list(spec.get("enum", {}).items())
    def verdict_of(live0):
        verdict = "dead"
        detail = None
        for none_vals in itertools.product((True, False), repeat=len(optional)):
            for enum_vals in (itertools.product(*[v for _, v in enums]) if enums else [()]):
                env = {}
                for p, isnone in zip(optional, none_vals):
                    env[("cmp", "is", p, NONE)] = isnone
                    env[("cmp", "isnot", p, NONE)] = not isnone
                for p in nones:
                    if p not in optional:
                        env[("cmp", "is", p, NONE)] = False
                        env[("cmp", "isnot", p, NONE)] = True
                for (q, _), v in zip(enums, enum_vals):
                    env[q] = v
                live = _canon_axis(live0, [P("arr"), P("array")]) if spec.get("quantities") else live0
                lv = _simplify(peval(live, env))
                lv = peval(lv, env)
                if spec.get("assume") == "file_guards":
                    from .c01 import file_guard_assignments
                    lv = peval(lv, file_guard_assignments(lv))
                # the valid-request atoms, folded under the same scenario (an optional parameter that is None has no value to constrain)
                box0 = _Box()
                venv = {}
                skip_params = {p for p, isnone in zip(optional, none_vals) if isnone}
                invalid_scenario = False
                for a in valid:
                    av = peval(a, env)
                    if av[0] == "const":
                        if not av[1]:
                            invalid_scenario = True  # this reading of the optional parameters is not a valid request
                        continue
                    if any(x in skip_params for x in walk(av)):
                        continue
                    venv[av] = True
                    na = NOT(av)
                    venv[na] = False
                    if av[0] == "cmp" and av[1] in ("eq", "ne"):
                        venv[("cmp", av[1], av[3], av[2])] = True
                        venv[("cmp", "ne" if av[1] == "eq" else "eq", av[3], av[2])] = False
                    k = _classify(av, True, params, extra)
                    if k is not None and k[0] == "iv":
                        box0.add(k[1], k[2], k[3])
                    elif k is not None and k[0] == "rel":
                        box0.rel[k[1]] = box0.rel.get(k[1], frozenset("<=>")) & k[2]
                if invalid_scenario:
                    continue
                lv = peval(lv, venv) if venv else lv
                lv = _simplify(lv)
                if lv == FALSE or (lv[0] == "const" and not lv[1]):
                    continue
                res = _decide(lv, box0, params, extra, [], 0, venv)
                if res[0] == "fires":
                    verdict, detail = "fires", (res[1], res[2], env)
                    break
                if res[0] == "unknown":
                    verdict, detail = "unknown", res[1]
            if verdict == "fires":
                break
        return verdict, detail

    def spells_out_lookup(r):
        """`if k not in X: raise KeyError(...)` in front of `X[k]`: the request failed with a KeyError at that subscript anyway --
        the rejection refuses nothing that was served (the subscript is evaluated whenever the path goes on under the same conditions)"""
        if not (r.term[0] == "call" and r.term[1] == ("builtin", "KeyError")):
            return False
        cj = list(conjuncts(r.live))
        for a in cj:
            if a[0] == "cmp" and a[1] == "notin" and len(a) == 4:
                rest = set(cj) - {a}
                look = ("sub", a[3], a[2])
                for e in s.events:
                    if e.idx > r.idx and not e.in_handler and any(x == look for x in walk(e.term)) \
                            and set(conjuncts(e.live)) - {("cmp", "in", a[2], a[3]), TRUE} <= rest:
                        return True
        return False

    n_dead = 0
    for r in raises:
        if spells_out_lookup(r):
            n_dead += 1
            continue
        verdict, detail = verdict_of(r.live)
        if verdict == "dead":
            n_dead += 1
        elif verdict == "fires":
            conj, ex, env = detail
            vals = ", ".join(f"{show(q)[:40]} = {v!r}" for q, v in sorted(ex.items(), key=lambda kv: repr(kv[0])))
            cond = " and ".join(("" if pol else "not ") + show(a)[:50] for a, pol in conj) or "always"
            scen = ", ".join(f"{show(k)[:30]}={v!r}" for k, v in env.items() if not (k[0] == "cmp" and k[1] == "isnot")) if env else ""
            ctx.bad(rule, file, fname, f"raise under `{show(r.live)[:70]}`",
                    f"{fname} refuses a valid request: the rejection at line {r.lineno} fires when {cond}"
                    + (f" (e.g. {vals})" if vals else "") + (f" [{scen}]" if scen else "")
                    + f" -- {spec.get('why', 'the property promises a result for every valid input')}", r.lineno,
                    witness={"condition": cond, "example": {show(q): v for q, v in ex.items()}})
        elif spec.get("models") is not None and spec["models"](ctx):
            # the guard is outside the interval / ordering fragment, but the function itself was evaluated on the finite models of its
            # rule (all of them valid requests where a value is expected): none of them is refused
            n_dead += 1
        else:
            ctx.undec(rule, f"{file}:{r.lineno} {fname}", f"cannot decide whether the rejection `{show(r.live)[:90]}` can fire for a valid request: {detail}")
    if n_dead == len(raises) and not spec.get("callee"):
        ctx.ok(rule, site, f"{len(raises)} own rejection(s), none can fire for a valid request ({spec.get('why', '')})")
    # (b) no valid request is answered with nothing: a path that returns None (or falls off the end) from a function that answers
    # with a value -- its annotation is not Optional / None, or its other paths return one -- and a generator that ends before its
    # first element can be produced, under a condition a valid request satisfies
    import ast as _ast2
    ann = getattr(s.node, "returns", None)
    anntext = _ast2.unparse(ann) if ann is not None else ""
    optional_result = ann is not None and (anntext in ("None",) or "Optional" in anntext or "None" in anntext)
    def report(kind, live, line, what):
        verdict, detail = verdict_of(live)
        if verdict == "fires":
            conj, ex, env = detail
            vals = ", ".join(f"{show(q)[:40]} = {v!r}" for q, v in sorted(ex.items(), key=lambda kv: repr(kv[0])))
            cond = " and ".join(("" if pol else "not ") + show(a)[:50] for a, pol in conj) or "always"
            ctx.bad(rule, file, fname, f"{kind} under `{show(live)[:70]}`",
                    f"{fname} {what} when {cond}" + (f" (e.g. {vals})" if vals else "")
                    + f" -- {spec.get('why', 'the property promises a result for every valid input')}", line,
                    witness={"condition": cond, "example": {show(q): v for q, v in ex.items()}})
        elif verdict == "unknown":
            ctx.undec(rule, f"{file}:{line} {fname}", f"cannot decide whether `{show(live)[:90]}` ({kind}) holds for a valid request: {detail}")
    if s.is_generator:
        ys = s.yields
        first = min((y.idx for y in ys), default=None)
        for e in s.of("return"):
            if first is not None and e.idx < first and not e.loops and not e.in_handler and isinstance(e.node, _ast2.Return):
                report("return before the first element", e.live, e.lineno, "ends without producing anything")
    elif not optional_result:
        rets = [r for r in s.raw_returns if not r.in_handler]
        valued = [r for r in rets if r.term != NONE]
        if valued or ann is not None:
            for r in rets:
                if r.term == NONE and isinstance(r.node, _ast2.Return):
                    report("return None", r.live, r.lineno, "answers a valid request with None")
            if s.fall_live != FALSE and valued:
                report("falls off the end", s.fall_live, s.node.lineno, "answers a valid request with None (a path falls off the end)")
    # (c) the effect the property is about is reached for every valid request
    for label, pred in spec.get("must_reach", ()):
        evs = [e for e in s.calls if pred(e.term)]
        if not evs:
            ctx.undec(rule, site, f"the call that {label} was not found")
            continue
        from sa.sym import OR as _OR
        reach = _OR(*[AND_(*[c for c in conjuncts(e.live) if c[0] != "inloop"]) for e in evs])
        report(f"{label} skipped", NOT(reach), evs[0].lineno, f"does not reach the call that {label}")


def check_serves_valid(ctx: Ctx, prop: str) -> None:
    entries = SERVES.get(prop)
    if not entries:
        return
    ctx.rule("G.12", "entry points keep serving every valid request (no rejection fires outside the documented ones)", len(entries))
    from sa.index import AnchorMissing
    for modname, fname, spec in entries:
        try:
            check_function(ctx, "G.12", modname, fname, spec)
        except AnchorMissing:
            if not fname.startswith("_") and not spec.get("helper"):
                raise
            ctx.ok("G.12", f"{modname}:{fname}", "private helper not present (its code is read where it was written out)")
    # the functions the entry points call (module-level functions of the package, to depth 3): one that had no rejection and no None
    # answer of its own on the reference tree (sa/pinned_exits.json) has no documented one -- whatever it acquires must be dead for
    # valid requests too.  Callees with rejections of their own and no specification here are not covered.
    import json as _json
    import os as _os
    try:
        pinned = _json.load(open(_os.path.join(_os.path.dirname(_os.path.dirname(_os.path.abspath(__file__))), "sa", "pinned_exits.json")))
    except Exception:  # noqa: BLE001
        pinned = {}
    listed = {f"{m_}:{f_}" for es in SERVES.values() for m_, f_, _ in es}
    seen, frontier, n_callees = set(), [(m_, f_, 0) for m_, f_, _ in entries], 0
    while frontier:
        m_, f_, d_ = frontier.pop()
        try:
            s_ = ctx.summ.of_func(m_, f_)
        except Exception:  # noqa: BLE001
            continue
        for tm_ in [e.term for e in s_.calls] + [L_.iter for L_ in s_.loops.values()]:
            for x in walk(tm_):
                if x[0] == "call" and x[1][0] == "global" and x[1][2] == "func" and ":" in x[1][1] and "." not in x[1][1].split(":")[1]:
                    q = x[1][1].replace("@reference", "")
                    if q in seen:
                        continue
                    seen.add(q)
                    cm, cf = q.split(":")
                    if d_ < 3:
                        frontier.append((cm, cf, d_ + 1))
                    pe = pinned.get(q)
                    if q in listed or pe is None or pe["raises"] or pe["none_returns"] or (pe["falls_off"] and not pe.get("generator")):
                        continue
                    try:
                        check_function(ctx, "G.12", cm, cf, {"why": f"it serves {fname_of(entries)} and had no rejection of its own", "callee": True})
                        n_callees += 1
                    except AnchorMissing:
                        pass
    ctx.extra["g12_callees"] = n_callees


def fname_of(entries):
    return " / ".join(sorted({f_ for _, f_, _ in entries})[:3]) + (" ..." if len(entries) > 3 else "")
