"""Provenance typing of the evaluation tasks (shared by C08 / C09).

Every value that reaches a metric, a scoring function or a result object is typed by WHERE IT COMES FROM: the clip annotations,
the clip predictions, the truth encoded from an annotation's tags, the score row encoded from a prediction's tags, lists of
these, the Match / ClipEvaluation objects built from them.  The typing is computed from the summaries of the task's own functions
(calls to helpers are followed through their summaries with the roles of the actual arguments, whatever the helpers are called
and however the work is split among them), starting from the task entry point, whose parameters have the roles its signature
names.  The rules read off this typing:

  * a metric / scoring function is called as f(truth, scores): first the truth (or the list of truths), then the score row (or
    the stack of rows), nested equally deep -- never crossed, never a list that receives no entry, never a "truth" encoded from
    the prediction's tags or a score row encoded from the annotation's tags;
  * result objects get what their fields name: ClipEvaluation(annotations=<annotation>, predictions=<prediction>, matches=<the
    matches built>), Evaluation(clip_evaluations=<the clip evaluations built>), Match(source=<prediction>, target=<annotation>);
  * a task / clip score is the mean of the scores of exactly the objects reported next to it (decided on two scenarios of the
    guard conditions: a non-empty selection gives the mean, an empty one a constant without dividing by zero).
"""
from __future__ import annotations

from typing import Dict, List, Optional, Tuple

from sa.peval import peval, truth
from sa.sym import NONE, Summary, bind_args, callkw, show, walk

ENC = "soundevent.evaluation.encoding"
MET = "soundevent.evaluation.metrics"
COMMON = "soundevent.evaluation.tasks.common"
TASKS = "soundevent.evaluation.tasks"

OTHER = ("other",)
EMPTY = ("empty",)
TRUTH = ("truth",)
SCORES = ("scores",)
SCORE = ("score",)
ENCODER = ("enc",)
VOCAB = ("vocab",)
METRIC = ("metric",)
NOCLASS = ("none",)  # the literal None: as a truth it is the 'none' class of an unlabelled / unmatched item
WRAPPERS = {("ext", "numpy.array"), ("ext", "numpy.asarray"), ("ext", "numpy.stack"), ("ext", "numpy.vstack"), ("builtin", "list"),
            ("builtin", "tuple"), ("ext", "numpy.concatenate")}
MEANS = (("ext", "numpy.mean"), ("ext", "numpy.nanmean"), ("ext", "numpy.average"), ("ext", "statistics.mean"), ("ext", "statistics.fmean"))
OBJECTS = {"soundevent.data.matches:Match": "Match", "soundevent.data.clip_evaluations:ClipEvaluation": "ClipEvaluation",
           "soundevent.data.evaluations:Evaluation": "Evaluation", "soundevent.data.features:Feature": "Feature"}


def seq(r):
    return ("seq", r)


def strip(r) -> Tuple[tuple, int]:
    d = 0
    while r[0] == "seq":
        r, d = r[1], d + 1
    return r, d


def rshow(r) -> str:
    if r[0] == "seq":
        return f"list of {rshow(r[1])}" if r[1] != EMPTY else "a list that never receives an entry"
    if r[0] == "tuple":
        return "(" + ", ".join(rshow(x) for x in r[1]) + ")"
    if r[0] == "dict":
        return f"dict of {rshow(r[1])}"
    if r[0] == "record":
        return "record(" + ", ".join(f"{k}: {rshow(v)}" for k, v in r[1]) + ")"
    if r[0] == "bad":
        return r[1]
    if r[0] == "mix":
        return " or ".join(rshow(x) for x in r[1])
    names = {"truth": "encoded truth", "scores": "encoded score row", "ann": "annotation", "pred": "prediction", "tags": "tags of the",
             "obj": "", "score": "a score", "other": "an unrelated value", "enc": "the encoder", "metric": "a metric function",
             "metricvalue": "a metric value", "empty": "nothing", "none": "None"}
    return (names.get(r[0], r[0]) + " " + " ".join(str(x) for x in r[1:])).strip()


def join(a, b):
    if a == b:
        return a
    if a == EMPTY:
        return b
    if b == EMPTY:
        return a
    if NOCLASS in (a, b):
        o = b if a == NOCLASS else a
        if o == TRUTH or o[0] in ("ann", "pred", "obj", "bad"):
            return o  # an optional value: None is the 'none' class of a truth, the absent side of a pairing
    if a[0] == "seq" and b[0] == "seq":
        return seq(join(a[1], b[1]))
    if a[0] == "tuple" and b[0] == "tuple" and len(a[1]) == len(b[1]):
        return ("tuple", tuple(join(x, y) for x, y in zip(a[1], b[1])))
    if a[0] == "record" and b[0] == "record" and [k for k, _ in a[1]] == [k for k, _ in b[1]]:
        return ("record", tuple((k, join(x, y)) for (k, x), (_, y) in zip(a[1], b[1])))
    for x in (a, b):
        if x[0] == "bad":
            return x
    parts = []
    for x in (a, b):
        for y in (x[1] if x[0] == "mix" else (x,)):
            if y not in parts:
                parts.append(y)
    return ("mix", tuple(parts))


def has(r, kind) -> Optional[tuple]:
    if r[0] == kind:
        return r
    for x in r[1:]:
        if isinstance(x, tuple) and x and isinstance(x[0], str):
            f = has(x, kind)
            if f is not None:
                return f
        elif isinstance(x, tuple):
            for y in x:
                if isinstance(y, tuple) and y and isinstance(y[0], str):
                    f = has(y, kind)
                    if f is not None:
                        return f
    return None


class Frame:
    def __init__(self, s: Summary, env: Dict[str, tuple]):
        self.s = s
        self.env = env
        self.locals: Dict[str, tuple] = {}
        self.cache: Dict[tuple, tuple] = {}


class Obs:
    """one observation at a sink"""

    def __init__(self, kind, func, file, lineno, text, roles, terms):
        self.kind, self.func, self.file, self.lineno, self.text, self.roles, self.terms = kind, func, file, lineno, text, roles, terms


class Flow:
    def __init__(self, ctx, modname: str, entry: str):
        self.ctx = ctx
        self.modname = modname
        self.entry = entry
        self.obs: List[Obs] = []
        self.seen_obs = set()
        self.memo: Dict[tuple, tuple] = {}
        self.stack: List[str] = []
        self.frames: List[Frame] = []

    # ------------------------------------------------------------------ driving
    def run(self):
        s = self.ctx.summ.of_func(self.modname, self.entry)
        env = {"clip_predictions": seq(("pred", "clip")), "clip_annotations": seq(("ann", "clip")), "tags": VOCAB}
        fr = Frame(s, env)
        self.top = fr
        out = EMPTY
        for r in s.returns:
            out = join(out, self.role(fr, r.term))
        self.result = out
        return self

    def observe(self, fr: Frame, kind, text, roles, terms=()):
        key = (kind, fr.s.qual, text, tuple(roles))
        if key in self.seen_obs:
            return
        self.seen_obs.add(key)
        self.obs.append(Obs(kind, fr.s.qual.split(":")[-1], fr.s.module.relpath, fr.s.node.lineno, text, tuple(roles), (fr,) + tuple(terms)))

    def record_fields(self, ci):
        """field names, in order, of a NamedTuple / dataclass of the task package (None for any other class)"""
        import ast as _ast
        bases = [_ast.unparse(b) for b in ci.node.bases]
        decos = [_ast.unparse(d) for d in ci.node.decorator_list]
        if not (any(b.split(".")[-1] == "NamedTuple" for b in bases) or any("dataclass" in d for d in decos)):
            return None
        return [st.target.id for st in ci.node.body if isinstance(st, _ast.AnnAssign) and isinstance(st.target, _ast.Name)]

    # ------------------------------------------------------------------ the typing
    def role(self, fr: Frame, t, depth=0) -> tuple:
        if not isinstance(t, tuple) or not t:
            return OTHER
        if depth > 80:
            return OTHER
        return self._role(fr, t, depth + 1)

    def elem_role(self, fr: Frame, lid, depth) -> tuple:
        if lid in fr.locals:
            return fr.locals[lid]
        L = fr.s.loops.get(lid)
        if L is None:
            return OTHER
        return self.element_of(self.role(fr, L.iter, depth))

    def element_of(self, r):
        if r[0] == "seq":
            return r[1]
        if r[0] == "dict":
            return OTHER  # iterating a dict gives its keys
        if r[0] == "bad":
            return r
        if r[0] == "obj":
            return ("bad", f"the (field, value) pairs of one {r[1]} spread into a list (its fields are iterated where the object is meant)")
        if r[0] == "mix":
            out = EMPTY
            for x in r[1]:
                out = join(out, self.element_of(x))
            return out
        return OTHER

    def _role(self, fr: Frame, t, depth) -> tuple:
        k = t[0]
        s = fr.s
        if k == "param":
            return fr.env.get(t[1], OTHER)
        if k == "const":
            return NOCLASS if t[1] is None else OTHER
        if k == "ite":
            return join(self.role(fr, t[2], depth), self.role(fr, t[3], depth))
        if k == "elem":
            return self.elem_role(fr, t[1], depth)
        if k == "tuple":
            rs = tuple(self.role(fr, x, depth) for x in t[1])
            ci = s.rec_types.get(t)
            if ci is not None and not any(x[0] == "star" for x in t[1]):
                import ast as _ast
                names = [st.target.id for st in ci.node.body if isinstance(st, _ast.AnnAssign) and isinstance(st.target, _ast.Name)]
                if len(names) == len(rs):
                    return ("record", tuple(zip(names, rs)))  # a NamedTuple: fields by name and by position
            return ("tuple", rs)
        if k == "list":
            out = EMPTY
            for x in t[1]:
                out = join(out, self.element_of(self.role(fr, x[1], depth)) if x[0] == "star" else self.role(fr, x, depth))
            return seq(out)
        if k == "global":
            if t[2] == "func" and t[1].startswith(MET + ":"):
                return METRIC
            if t[1].split(":")[0].startswith(TASKS) and t[1].split(":")[1].isupper():
                return seq(("tuple", (("term",), METRIC)))  # a (term, metric) table
            return OTHER
        if k == "alloc":
            if t in s.alloc_comps:
                return self.role(fr, s.alloc_comps[t], depth)
            out = EMPTY
            found = False
            for e in s.calls:
                f = e.term[1]
                if f[0] == "attr" and f[1] == t and len(e.term[2]) == 1:
                    if f[2] == "append":
                        out, found = join(out, self.role(fr, e.term[2][0], depth)), True
                    elif f[2] == "extend":
                        out, found = join(out, self.element_of(self.role(fr, e.term[2][0], depth))), True
                    elif f[2] == "insert":
                        found = True
            stored = EMPTY
            for e in s.events:
                if e.kind == "store" and e.term[1][0] == "sub" and e.term[1][1] == t:
                    stored = join(stored, self.role(fr, e.term[2], depth))
                elif e.kind == "store" and any(x == t for x in walk(e.term[1])):
                    return OTHER
            if t[1] == "dict":
                return ("dict", stored if stored != EMPTY else OTHER)
            if stored != EMPTY:
                return OTHER  # a list filled by item assignment: not followed
            return seq(out) if found or t[1] == "list" else OTHER
        if k == "comp":
            saved = dict(fr.locals)
            try:
                for lid, it, conds in t[3]:
                    fr.locals[lid] = self.element_of(self.role(fr, it, depth))
                if t[1] == "dict":
                    v = t[2][2] if t[2][0] == "kv" else t[2]
                    return ("dict", self.role(fr, v, depth))
                return seq(self.role(fr, t[2], depth))
            finally:
                fr.locals = saved
        if k == "sub":
            base = self.role(fr, t[1], depth)
            if base[0] == "tuple":
                if t[2][0] == "const" and isinstance(t[2][1], int) and -len(base[1]) <= t[2][1] < len(base[1]):
                    return base[1][t[2][1]]
                return OTHER
            if base[0] == "record":
                # a NamedTuple unpacked / indexed by position
                if t[2][0] == "const" and isinstance(t[2][1], int) and -len(base[1]) <= t[2][1] < len(base[1]):
                    return base[1][t[2][1]][1]
                return OTHER
            if base[0] == "seq":
                return base if t[2][0] == "slice" else base[1]
            if base[0] == "dict":
                return base[1]
            if base[0] == "bad":
                return base
            return OTHER
        if k == "attr":
            base = self.role(fr, t[1], depth)
            if base[0] in ("ann", "pred"):
                if t[2] == "tags":
                    return ("tags", base[0])
                if t[2] == "sound_events" and base[1] == "clip":
                    return seq((base[0], "se"))
                return OTHER
            if base[0] == "obj" and t[2] == "score":
                return SCORE
            if base[0] == "record":
                return dict(base[1]).get(t[2], OTHER)
            if base[0] == "bad":
                return base
            return OTHER
        if k == "call":
            return self.call_role(fr, t, depth)
        if k == "bin" and t[1] == "+":
            a, b = self.role(fr, t[2], depth), self.role(fr, t[3], depth)
            if a[0] == "seq" and b[0] == "seq":
                return join(a, b)
            return OTHER
        return OTHER

    def call_role(self, fr: Frame, t, depth) -> tuple:
        f = t[1]
        kw = callkw(t)
        if f == ("builtin", "enumerate") and t[2]:
            r = self.role(fr, t[2][0], depth)
            return seq(("tuple", (OTHER, self.element_of(r)))) if r[0] == "seq" else (r if r[0] == "bad" else OTHER)
        if f == ("builtin", "zip") and t[2]:
            return seq(("tuple", tuple(self.element_of(self.role(fr, a, depth)) for a in t[2])))
        if f in (("builtin", "reversed"), ("builtin", "sorted")) and t[2]:
            r = self.role(fr, t[2][0], depth)
            return r if r[0] in ("seq", "bad") else OTHER
        if f == ("builtin", "dict") and len(t[2]) == 1:
            r = self.role(fr, t[2][0], depth)
            if r[0] == "dict":
                return r
            if r[0] == "seq" and r[1][0] == "tuple" and len(r[1][1]) == 2:
                return ("dict", r[1][1][1])
            return ("dict", OTHER)
        if f == ("ext", "itertools.chain.from_iterable") and len(t[2]) == 1:
            return seq(self.element_of(self.element_of(self.role(fr, t[2][0], depth))))
        if f == ("ext", "itertools.chain"):
            out = EMPTY
            for a in t[2]:
                out = join(out, self.element_of(self.role(fr, a, depth)))
            return seq(out)
        if f == ("builtin", "map") and len(t[2]) >= 2:
            g = t[2][0]
            self.fresh = getattr(self, "fresh", 0) + 1
            lids = []
            for i, xs in enumerate(t[2][1:]):
                lid = f"__map{self.fresh}_{i}"
                fr.locals[lid] = self.element_of(self.role(fr, xs, depth))
                lids.append(("elem", lid))
            if g[0] == "call" and g[1] == ("ext", "functools.partial") and g[2]:
                call = ("call", g[2][0], tuple(g[2][1:]) + tuple(lids), g[3])
            else:
                call = ("call", g, tuple(lids), ())
            return seq(self.role(fr, call, depth))
        if f[0] == "attr" and f[2] == "get" and t[2]:
            base = self.role(fr, f[1], depth)
            if base[0] == "dict":
                return base[1]
        if f[0] == "attr" and f[2] in ("values",) and not t[2]:
            base = self.role(fr, f[1], depth)
            if base[0] == "dict":
                return seq(base[1])
        if f in WRAPPERS and t[2]:
            r = self.role(fr, t[2][0], depth)
            return r if r[0] in ("seq", "bad") else OTHER
        if f[0] == "global" and f[1] in OBJECTS or (f[0] == "global" and self.ctx.index.canonical_qual("class", f[1]) in OBJECTS):
            name = OBJECTS.get(f[1]) or OBJECTS[self.ctx.index.canonical_qual("class", f[1])]
            roles = {k_: self.role(fr, v, depth) for k_, v in kw.items()}
            self.observe(fr, name, show(t)[:100], sorted(roles.items()), (t,))
            return ("obj", name)
        if f[0] == "global" and f[2] == "class" and f[1].split(":")[0].startswith(TASKS):
            ci = self.ctx.index.class_by_qual(f[1])
            fields = self.record_fields(ci) if ci is not None else None
            if fields is not None:
                vals = {}
                for i, a in enumerate(t[2]):
                    if a[0] != "star" and i < len(fields):
                        vals[fields[i]] = self.role(fr, a, depth)
                for k_, v in kw.items():
                    vals[k_] = self.role(fr, v, depth)
                return ("record", tuple((f_, vals.get(f_, OTHER)) for f_ in fields))
        if f[0] == "global" and f[2] == "func" and f[1].startswith(ENC + ":"):
            name = f[1].split(":")[1]
            cs = self.ctx.summ.of_func(ENC, name)
            b, _, _, _ = bind_args(t, cs.params)
            if name in ("classification_encoding", "multilabel_encoding", "prediction_encoding"):
                tags = self.role(fr, b["tags"], depth) if "tags" in b else OTHER
                enc = self.role(fr, b["encoder"], depth) if "encoder" in b else OTHER
                want = "pred" if name == "prediction_encoding" else "ann"
                what = "score row" if want == "pred" else "truth"
                if want == "pred" and "tags" in b and b["tags"] in (("list", ()), ("tuple", ())):
                    return SCORES  # the all-zero row of an item nothing was predicted for
                if tags == ("tags", want):
                    if enc not in (ENCODER, OTHER):
                        return ("bad", f"a {what} encoded with {rshow(enc)} as encoder")
                    return SCORES if want == "pred" else TRUTH
                if tags[0] == "tags":
                    return ("bad", f"a {what} encoded from the tags of the {'annotation' if tags[1] == 'ann' else 'prediction'}")
                if tags[0] == "bad":
                    return tags
                return OTHER
            if name == "create_tag_encoder":
                # the vocabulary of the task is the caller's `tags`, whole and in its order: classes are its positions
                arg = b.get("tags", t[2][0] if t[2] else None)
                while arg is not None and arg[0] == "call" and arg[1] in (("builtin", "list"), ("builtin", "tuple")) and len(arg[2]) == 1 and not arg[3]:
                    arg = arg[2][0]
                ra = self.role(fr, arg, depth) if arg is not None else OTHER
                if ra == VOCAB:
                    return ENCODER
                if ra == ("opaque",):
                    return ENCODER
                return ("bad", f"an encoder built from `{show(arg)[:50] if arg is not None else '-'}` instead of the task's tag vocabulary")
            return OTHER
        callee = self.role(fr, f, depth) if f[0] in ("param", "sub", "elem", "global", "attr") else OTHER
        if callee == METRIC:
            args = list(t[2])
            a = kw.get("y_true", args[0] if args else None)
            b_ = kw.get("y_score", args[1] if len(args) > 1 else None)
            ra = self.role(fr, a, depth) if a is not None else EMPTY
            rb = self.role(fr, b_, depth) if b_ is not None else EMPTY
            self.observe(fr, "metric", show(t)[:110], (ra, rb), (t,))
            return ("metricvalue",)
        if f in MEANS:
            return ("mean",)
        if f[0] == "global" and f[2] == "func" and (f[1].startswith(TASKS + ".") or f[1].startswith(TASKS + ":")):
            mod, name = f[1].split(":")
            try:
                cs = self.ctx.summ.of_func(mod, name)
            except Exception:  # noqa: BLE001
                return OTHER
            if cs.qual in self.stack or len(self.stack) > 12:
                return OTHER
            b, extra, spreads, too_many = bind_args(t, cs.params)
            env = {}
            for p in cs.params:
                if p in b:
                    env[p] = self.role(fr, b[p], depth)
                elif p in cs.defaults:
                    env[p] = OTHER
                else:
                    env[p] = OTHER
            mkey = (cs.qual, tuple(sorted(env.items())))
            if mkey in self.memo:
                return self.memo[mkey]
            self.stack.append(cs.qual)
            try:
                fr2 = Frame(cs, env)
                fr2.args = {("param", p): (fr, v) for p, v in b.items()}
                out = EMPTY
                evs = cs.yields if cs.is_generator else cs.returns
                for r in evs:
                    out = join(out, self.role(fr2, r.term, depth))
                if cs.is_generator:
                    out = seq(out)
            finally:
                self.stack.pop()
            self.memo[mkey] = out
            return out
        return OTHER


# ---------------------------------------------------------------------- rule helpers
def check_metric_calls(ctx, rule, flow: Flow, tm: str) -> int:
    """every metric / scoring call reached from the task's result is f(truth(s), score row(s)), equally nested"""
    n = 0
    for o in flow.obs:
        if o.kind != "metric":
            continue
        ra, rb = o.roles
        (ba, da), (bb, db) = strip(ra), strip(rb)
        site = f"{o.file}:{o.lineno} {o.func}"
        bad = has(ra, "bad") or has(rb, "bad")
        if bad is not None:
            ctx.bad(rule, o.file, o.func, o.text[:80], f"{tm}.{o.func}: `{o.text}` is computed over {bad[1]}: the value is not the metric of the "
                    f"evaluated items' truths and predicted scores", o.lineno)
        elif ba in (TRUTH, NOCLASS) and bb == SCORES and da == db:
            if da >= 1 and len(o.terms) >= 2:
                # the i-th truth and the i-th score row belong to the same item: both lists are drawn from the same sequence
                fr_, call_ = o.terms[0], o.terms[1]
                kw_ = callkw(call_)
                a_ = kw_.get("y_true", call_[2][0] if call_[2] else None)
                b_ = kw_.get("y_score", call_[2][1] if len(call_[2]) > 1 else None)
                rw_a = rows_in_frame(flow, fr_, a_) if a_ is not None else ("opaque",)
                rw_b = rows_in_frame(flow, fr_, b_) if b_ is not None else ("opaque",)
                if rw_a != ("opaque",) and rw_b != ("opaque",) and rw_a != rw_b:
                    ctx.bad(rule, o.file, o.func, o.text[:80],
                            f"{tm}.{o.func}: in `{o.text}` the truths and the score rows are not drawn from the same sequence of items "
                            f"(truths: {show(a_)[:70]}; scores: {show(b_)[:70]}): the i-th truth is compared with the scores of another item "
                            f"whenever the two sequences differ in order or membership", o.lineno)
                    continue
            n += 1
            ctx.ok(rule, site, f"`{o.text[:60]}`: ({rshow(ra)}, {rshow(rb)})")
        elif ba in (OTHER,) or bb in (OTHER,) or ba[0] == "mix" or bb[0] == "mix":
            ctx.undec(rule, site, f"cannot tell what `{o.text[:70]}` is computed over: ({rshow(ra)}, {rshow(rb)})")
        else:
            ctx.bad(rule, o.file, o.func, o.text[:80],
                    f"{tm}.{o.func}: `{o.text}` is called with ({rshow(ra)}, {rshow(rb)}) where (truth, score rows) of the same items, nested "
                    f"equally deep, are required: the value is not the metric its term names", o.lineno,
                    witness={"first_argument": rshow(ra), "second_argument": rshow(rb)})
    return n


def check_objects(ctx, rule, flow: Flow, tm: str, se_level: bool, both_sides: bool = False):
    """result objects get what their fields name"""
    want = {
        "ClipEvaluation": {"annotations": ("ann", "clip"), "predictions": ("pred", "clip")},
        "Match": {"source": ("pred", "se"), "target": ("ann", "se")},
    }
    for o in flow.obs:
        roles = dict(o.roles) if o.kind in OBJECTS.values() else None
        if roles is None:
            continue
        site = f"{o.file}:{o.lineno} {o.func}"
        for field, w in want.get(o.kind, {}).items():
            r = roles.get(field)
            if r is None or r == OTHER or r[0] == "mix":
                continue
            if r == w:
                ctx.ok(rule, site, f"{o.kind}({field}=<{rshow(w)}>)")
            elif r[0] in ("ann", "pred", "bad"):
                ctx.bad(rule, o.file, o.func, f"{o.kind}({field}={rshow(r)})",
                        f"{tm}.{o.func}: {o.kind}.{field} receives {rshow(r)} instead of the {rshow(w)}", o.lineno)
        if o.kind == "Match" and both_sides:
            for field in ("source", "target"):
                if field not in roles or roles[field] == NOCLASS:
                    ctx.bad(rule, o.file, o.func, f"Match without {field}",
                            f"{tm}.{o.func}: the Match of an evaluated pair is built without its {field}: the ClipEvaluation that receives it "
                            f"finds the {'prediction' if field == 'source' else 'annotation'} unmatched and rejects the clip", o.lineno)
        for field, cls_ in (("clip_evaluations", "ClipEvaluation"), ("matches", "Match")):
            r = roles.get(field)
            if r is not None and has(r, "bad") is not None:
                ctx.bad(rule, o.file, o.func, f"{o.kind}({field}=...)", f"{tm}.{o.func}: {o.kind}.{field} receives {has(r, 'bad')[1]}", o.lineno)
        if o.kind == "Evaluation" and "clip_evaluations" not in roles:
            ctx.bad(rule, o.file, o.func, "Evaluation(...) without clip_evaluations",
                    f"{tm}.{o.func}: the Evaluation is built without its clip evaluations: the per-clip scores, metrics and matches are not reported", o.lineno)
        if o.kind == "ClipEvaluation" and se_level and "matches" in roles:
            r = roles["matches"]
            if r == seq(("obj", "Match")):
                ctx.ok(rule, site, "ClipEvaluation(matches=<the matches built>)")
            elif r == seq(EMPTY):
                ctx.bad(rule, o.file, o.func, "ClipEvaluation(matches=<a list that never receives an entry>)",
                        f"{tm}.{o.func}: the list handed to ClipEvaluation(matches=...) never receives a match", o.lineno)
        if o.kind == "Evaluation" and "clip_evaluations" in roles:
            r = roles["clip_evaluations"]
            if r == seq(("obj", "ClipEvaluation")):
                ctx.ok(rule, site, "Evaluation(clip_evaluations=<the clip evaluations built>)")
            elif r == seq(EMPTY):
                ctx.bad(rule, o.file, o.func, "Evaluation(clip_evaluations=<a list that never receives an entry>)",
                        f"{tm}.{o.func}: the list handed to Evaluation(clip_evaluations=...) never receives a clip evaluation", o.lineno)
        for field in ("metrics",):
            r = roles.get(field)
            if r is not None and r == seq(EMPTY):
                ctx.bad(rule, o.file, o.func, f"{o.kind}(metrics=<a list that never receives an entry>)",
                        f"{tm}.{o.func}: the metric list of the {o.kind} never receives an entry", o.lineno)


# ---------------------------------------------------------------------- guarded means
def _alternatives(ctx, fr_s: Summary, t, depth=0):
    """[(condition, value)] of a score expression, following in-package helpers (parameters substituted by the arguments)"""
    from sa.sym import AND, NOT, TRUE, subst
    if t[0] == "ite":
        out = []
        for c, v in _alternatives(ctx, fr_s, t[2], depth):
            out.append((AND(t[1], c), v))
        for c, v in _alternatives(ctx, fr_s, t[3], depth):
            out.append((AND(NOT(t[1]), c), v))
        return out
    if t[0] == "call" and t[1][0] == "global" and t[1][2] == "func" and t[1][1].startswith(TASKS) and depth < 4:
        mod, name = t[1][1].split(":")
        try:
            cs = ctx.summ.of_func(mod, name)
        except Exception:  # noqa: BLE001
            return [(TRUE, t)]
        b, extra, spreads, too_many = bind_args(t, cs.params)
        if extra or spreads or too_many or cs.is_generator:
            return [(TRUE, t)]
        mapping = {("param", p): b.get(p, cs.defaults.get(p, NONE)) for p in cs.params}
        out = []
        for r in cs.returns:
            if r.loops:
                return [(TRUE, t)]
            for c, v in _alternatives(ctx, cs, subst(r.term, mapping), depth + 1):
                out.append((AND(subst(r.live, mapping), c), v))
        return out
    return [(TRUE, t)]


def selection_of(sel):
    """(scores list, filter) of the selection a mean is taken over: the list whose i-th entry is the i-th score, and how the
    selection filters it ('none' | 'notnone' | 'isnone' | 'other'):  [x.score for x in X if x.score is not None],
    [s for s in [x.score for x in X] if s is not None], [r.evaluation.score for r in records] ..."""
    def filt(conds, e):
        if not conds:
            return "none"
        if conds == (("cmp", "isnot", e, NONE),):
            return "notnone"
        if conds == (("cmp", "is", e, NONE),):
            return "isnone"
        return "other"
    for w in WRAPPERS:
        if sel[0] == "call" and sel[1] == w and len(sel[2]) == 1:
            return selection_of(sel[2][0])
    if sel[0] != "comp" or sel[1] not in ("list", "gen") or len(sel[3]) != 1:
        return None
    lid, it, conds = sel[3][0]
    e = ("elem", lid)
    f1 = filt(conds, sel[2])
    if sel[2] == e:
        inner = selection_of(it)
        if inner is None:
            return (it, f1)
        lst, f0 = inner
        if f0 == "none":
            return lst, f1
        if f1 == "none":
            return lst, f0
        return lst, (f0 if f0 == f1 else "other")
    return ("comp", sel[1], sel[2], ((lid, it, ()),)), f1


def scores_of(scores_list, X) -> Optional[bool]:
    """is the i-th entry of `scores_list` the .score of the i-th element of X?  (None: the element-wise view does not say)"""
    from sa import seqview
    I = ("param", "__i__")
    from .c04 import alpha
    # [x.score for x in T] with T the reported list itself (whatever T filters)
    if scores_list[0] == "comp" and len(scores_list[3]) == 1 and not scores_list[3][0][2] \
            and scores_list[2] == ("attr", ("elem", scores_list[3][0][0]), "score"):
        T = scores_list[3][0][1]
        if T == X or alpha(T) == alpha(X):
            return True
        for w in WRAPPERS:
            if T[0] == "call" and T[1] == w and len(T[2]) == 1 and (T[2][0] == X or alpha(T[2][0]) == alpha(X)):
                return True
    a, b = seqview.item(scores_list, I), seqview.item(X, I)
    if a is None or b is None:
        return None
    if a == ("attr", b, "score"):
        return True
    from sa import seqview as _sv
    la, lb = _sv.length(scores_list), _sv.length(X)
    if a[0] == "attr" and a[2] == "score" and la is not None and lb is not None:
        return False if (a[1] != b or la != lb) else True
    return None


def check_mean(ctx, rule, s: Summary, value, X, what: str, site_func: str, zero_when_empty=False):
    """`value` (a term of summary `s`) is the mean of the .score of every element of X: decided on two scenarios."""
    from sa.sym import TRUE
    file = s.module.relpath
    site = f"{file}:{s.node.lineno} {site_func}"
    alts = _alternatives(ctx, s, value)
    means = []
    for c, v in alts:
        for x in list(walk(v)) + list(walk(c)):
            if x[0] == "call" and x[1] in MEANS and x[2] and x not in means:
                means.append(x)
    sels = []
    for m in means:
        if m[2][0] not in sels:
            sels.append(m[2][0])
    if not means:
        ctx.bad(rule, file, site_func, f"{what} = {show(value)[:70]}", f"the {what} is not a mean of scores: {show(value)[:120]}", s.node.lineno)
        return False
    if len(sels) != 1:
        ctx.undec(rule, site, f"the {what} averages {len(sels)} different selections")
        return False
    sel = sels[0]
    so = selection_of(sel)
    if so is None:
        ctx.undec(rule, site, f"cannot read the selection the {what} averages: {show(sel)[:80]}")
        return False
    Xs, flt = so
    ok = True
    if flt == "isnone":
        ctx.bad(rule, file, site_func, f"mean over {show(sel)[:70]}",
                f"the {what} averages exactly the scores that are None (the filter keeps `is None`): every real score is dropped", s.node.lineno)
        ok = False
    elif flt == "other":
        ctx.bad(rule, file, site_func, f"mean over {show(sel)[:70]}",
                f"the {what} averages a filtered selection of the scores ({show(sel)[:100]}): it is not the mean over the reported objects", s.node.lineno)
        ok = False
    if X is not None:
        same = scores_of(Xs, X)
        if same is None:
            ctx.undec(rule, site, f"cannot relate the averaged scores {show(Xs)[:60]} to the reported objects {show(X)[:60]}")
            ok = False
        elif same is False:
            ctx.bad(rule, file, site_func, f"mean over {show(Xs)[:60]}",
                    f"the {what} is averaged over {show(Xs)[:80]} while the objects reported next to it are {show(X)[:80]}", s.node.lineno)
            ok = False
    # the same selection written out twice (guard and argument) differs in its loop names only: one spelling for all of them
    from .c04 import alpha
    from sa.sym import subst
    asel = alpha(sel)
    twins = {}
    for c, v in alts:
        for x in list(walk(c)) + list(walk(v)):
            if x[0] == "comp" and x != sel and x not in twins and alpha(x) == asel:
                twins[x] = sel
    # `any(x.score is not None for x in X)` says "the selection is not empty" when the selection is X filtered by that test
    nonempty_terms = []
    if sel[0] == "comp" and len(sel[3]) == 1 and sel[3][0][2]:
        lid0, it0, conds0 = sel[3][0]
        for c, v in alts:
            for x in walk(c):
                if x[0] == "call" and x[1] == ("builtin", "any") and len(x[2]) == 1 and x[2][0][0] == "comp" and len(x[2][0][3]) == 1:
                    g = x[2][0]
                    lid1, it1, conds1 = g[3][0]
                    if it1 == it0 and not conds1 and len(conds0) == 1 and subst(g[2], {("elem", lid1): ("elem", lid0)}) == conds0[0] and x not in nonempty_terms:
                        nonempty_terms.append(x)
    if twins:
        alts = [(subst(c, twins), subst(v, twins)) for c, v in alts]
        means = [subst(m, twins) for m in means]
    nan_terms = [x for c, v in alts for x in list(walk(c)) + list(walk(v))
                 if x[0] == "call" and x[1] in (("ext", "numpy.isnan"), ("ext", "math.isnan")) and any(y == sel for y in walk(x))]
    mean_forms = set()
    for m in means:
        mean_forms.add(m)
        mean_forms.add(("call", ("builtin", "float"), (m,), ()))
    # scenario 1: a non-empty selection (its mean is a number)
    env1 = {sel: (0.5,)}
    env1.update({x: False for x in nan_terms})
    env1.update({x: True for x in nonempty_terms})
    live1 = [(c, v) for c, v in alts if truth(peval(c, env1)) is not False]
    und1 = [(c, v) for c, v in live1 if truth(peval(c, env1)) is None]
    if und1:
        ctx.undec(rule, site, f"the {what}: cannot decide the guard {show(und1[0][0])[:80]} for a non-empty selection")
        ok = False
    elif not live1 or any(v not in mean_forms for c, v in live1):
        got = [show(v)[:50] for c, v in live1 if v not in mean_forms]
        ctx.bad(rule, file, site_func, f"{what} of a non-empty selection",
                f"with at least one score present the {what} is {got[0] if got else 'not returned'} instead of the mean of the scores "
                f"(guards: {'; '.join(show(c)[:60] for c, v in alts)[:200]})", s.node.lineno, witness={"scenario": "one score 0.5", "value": got[0] if got else None})
        ok = False
    # scenario 2: the empty selection (np.mean([]) is NaN)
    env2 = {sel: ()}
    env2.update({x: True for x in nan_terms})
    env2.update({x: False for x in nonempty_terms})
    live2 = [(c, v) for c, v in alts if truth(peval(c, env2)) is not False]
    und2 = [(c, v) for c, v in live2 if truth(peval(c, env2)) is None]
    if und2:
        ctx.undec(rule, site, f"the {what}: cannot decide the guard {show(und2[0][0])[:80]} for an empty selection")
        ok = False
    elif not live2 or any(v[0] != "const" or isinstance(v[1], bool) or not isinstance(v[1], (int, float)) for c, v in live2):
        got = [show(v)[:50] for c, v in live2 if v[0] != "const"]
        ctx.bad(rule, file, site_func, f"{what} of an empty selection",
                f"with no score present the {what} is {got[0] if got else 'not returned'}: np.mean of an empty list is NaN, which the result "
                f"object rejects", s.node.lineno, witness={"scenario": "no scores", "value": "nan"})
        ok = False
    elif zero_when_empty and any(v[1] != 0 for c, v in live2):
        ctx.bad(rule, file, site_func, f"{what} of an empty selection", f"with no score present the {what} must be 0, found {live2[0][1][1]}", s.node.lineno)
        ok = False
    if ok:
        ctx.ok(rule, site, f"{what} = mean over {show(Xs)[:50]}, the scores of the reported objects (non-empty: the mean; empty: a constant)")
    return ok


def check_lookups(ctx, rule, modnames):
    """a dictionary built in the function is never subscripted with a key on a path that has just established the key is absent
    (`if k not in table: ...; table[k]` with the branches crossed raises KeyError for every item, or skips every item)"""
    import ast
    from sa.sym import conjuncts
    n = 0
    for modname in modnames:
        m = ctx.index.module(modname)
        for name, defs in m.defs.items():
            d = defs[-1]
            if not isinstance(d, ast.FunctionDef):
                continue
            s = ctx.summ.of_node(m, d, f"{modname}:{name}")
            seen = set()
            for e in s.events:
                conj = set(conjuncts(e.live))
                for x in walk(e.term):
                    if x[0] == "sub" and x[1][0] in ("comp", "alloc") and x[1][1] == "dict" and (x, e.live) not in seen:
                        seen.add((x, e.live))
                        if ("cmp", "notin", x[2], x[1]) in conj or ("not", ("cmp", "in", x[2], x[1])) in conj:
                            ctx.bad(rule, m.relpath, name, f"{show(x)[:70]} where the key is absent",
                                    f"{name}: `{show(x)[:90]}` is evaluated on the path where `{show(x[2])[:50]}` is NOT a key of the table "
                                    f"(and the items whose key is present are skipped): KeyError for every such item", e.lineno)
                        elif ("cmp", "in", x[2], x[1]) in conj:
                            n += 1
                            ctx.ok(rule, f"{m.relpath}:{e.lineno} {name}", f"lookup {show(x)[:50]} under its membership test")
    return n


def rows_of(t):
    """which sequence of items drives the list-valued term `t`, up to loop names: an unfiltered map keeps the rows of what it
    iterates; a filtered comprehension has rows of its own; conversions keep rows"""
    from .c04 import alpha
    seen = 0
    while seen < 20:
        seen += 1
        if t[0] == "call" and t[1] in WRAPPERS and len(t[2]) == 1:
            t = t[2][0]
            continue
        if t[0] == "comp" and t[1] in ("list", "gen") and len(t[3]) == 1 and not t[3][0][2]:
            t = t[3][0][1]
            continue
        break
    if t[0] == "comp":
        return alpha(("rows", tuple((lid_, it_, cnds) for lid_, it_, cnds in t[3])))
    return alpha(("rows", t))


def rows_in_frame(flow: "Flow", fr: Frame, t, depth=0):
    """rows_of, following the list through parameters (to the caller's argument), accumulators and the components of helper results;
    ('opaque',) when the list is not built by constructs this view reads"""
    from .c04 import alpha
    if depth > 12:
        return ("opaque",)
    while t[0] == "call" and t[1] in WRAPPERS and len(t[2]) == 1:
        t = t[2][0]
    if t[0] == "param":
        src = getattr(fr, "args", {}).get(t)
        if src is None:
            return ("opaque",)
        return rows_in_frame(flow, src[0], src[1], depth + 1)
    if t[0] == "alloc":
        if t in fr.s.alloc_comps:
            return rows_in_frame(flow, fr, fr.s.alloc_comps[t], depth + 1)
        sig = []
        for e in fr.s.calls:
            f = e.term[1]
            if f[0] == "attr" and f[1] == t and f[2] in ("append", "extend", "insert") and len(e.term[2]) >= 1:
                inner = rows_in_frame(flow, fr, e.term[2][0], depth + 1) if f[2] == "extend" else ("one",)
                if inner == ("opaque",):
                    return ("opaque",)
                sig.append((e.loops, alpha(e.live), f[2], inner))
        return ("acc", tuple(sorted(sig, key=repr))) if sig else ("opaque",)
    if t[0] == "sub" and t[2][0] == "const" and isinstance(t[2][1], int) and t[1][0] == "call" and t[1][1][0] == "global" and t[1][1][2] == "func" \
            and t[1][1][1].startswith(TASKS):
        mod, name = t[1][1][1].split(":")
        try:
            cs = flow.ctx.summ.of_func(mod, name)
        except Exception:  # noqa: BLE001
            return ("opaque",)
        rets = cs.returns
        if len(rets) != 1 or rets[0].term[0] != "tuple" or not (0 <= t[2][1] < len(rets[0].term[1])):
            return ("opaque",)
        b, _, _, _ = bind_args(t[1], cs.params)
        fr2 = Frame(cs, {})
        fr2.args = {("param", p): (fr, v) for p, v in b.items()}
        inner = rows_in_frame(flow, fr2, rets[0].term[1][t[2][1]], depth + 1)
        return inner if inner == ("opaque",) else ("ret", name, inner)
    if t[0] == "comp" and t[1] in ("list", "gen") and len(t[3]) == 1:
        lid, it, conds = t[3][0]
        if not conds:
            inner = rows_in_frame(flow, fr, it, depth + 1)
            if inner != ("opaque",):
                return inner
        return rows_of(t)
    if t[0] == "attr" or (t[0] == "call" and t[1][0] == "global"):
        return rows_of(t)
    return ("opaque",)
