"""C04 -- relational schema invariants cannot be bypassed at construction (R04.1 - R04.3)."""

from __future__ import annotations

import ast
import itertools
import math
import os
from typing import Dict, List, Optional, Tuple

from sa.idioms import norm_multiset
from sa.index import AnalysisError, ClassInfo
from sa.models import shape_str, strip_opt
from sa.peval import Unknown, peval, weak_orderings
from sa.report import VERIF, Ctx
from sa.sym import FALSE, NONE, NOT, Summary, conjuncts, show, subst, walk

DATA = "soundevent.data"
EXPLANATION = (
    "Static decision of the structural clauses of schema enforcement: R04.1 every score / affinity field of every data "
    "model is declared with ge=0 and le=1; R04.2 each of the five relational validators is registered with the "
    "specified mode, its extracted rejection formula equals the specified condition (truth table over the named atoms / "
    "all orderings of the compared quantities; set-comprehension normal forms for the match bookkeeping) and every other "
    "path returns its input; R04.3 no code path in the package builds or mutates a model without validation "
    "(model_construct, construct, model_copy(update=), object.__setattr__, __dict__ writes) -- zero occurrences, with a "
    "positive fixture matched on every run. That pydantic runs the same validators for constructor / dict / JSON input is trusted."
    'R04.2 for Clip evaluates the rejection also on near-equal placements (one ulp to 1e-10 relative at several magnitudes): a tolerance accepts a clip that starts after it ends. The reader / writer pair rules of C01 are run on the adapters of the relational models (clip evaluation, match, clip, annotation project). '
)
ASSUMPTIONS = [
    "pydantic applies Field(ge/le) and model validators identically for __init__, model_validate and model_validate_json (trusted)",
    "AOEF loading builds data objects by calling the classes (decided by C01/R01.1)",
]

BYPASS_CALLS = {"model_construct", "construct"}


def alpha(t, mapping=None):
    """Rename loop ids in order of first appearance so comprehension terms compare structurally."""
    mapping = {} if mapping is None else mapping

    def go(x):
        if not isinstance(x, tuple):
            if isinstance(x, str) and x in mapping:
                return mapping[x]
            return x
        if x and x[0] == "comp":
            for lid, it, conds in x[3]:
                mapping.setdefault(lid, f"B{len(mapping)}")
        if x and x[0] == "elem":
            mapping.setdefault(x[1], f"B{len(mapping)}")
        return tuple(go(c) for c in x)

    return go(t)


def sym_cmp(t):
    """canonical form of eq/ne comparisons (operands sorted)."""
    if isinstance(t, tuple) and t and t[0] == "cmp" and t[1] in ("eq", "ne"):
        a, b = sorted([t[2], t[3]], key=repr)
        return ("cmp", t[1], a, b)
    return t


def triggers(s: Summary) -> List[Tuple[tuple, object]]:
    """For sequential `if g: raise` guards: the condition that triggers each raise (earlier negations removed)."""
    out = []
    prev = []
    for r in s.raises:
        conj = [c for c in conjuncts(r.live) if c[0] != "inloop"]
        trig = [c for c in conj if c not in [NOT(p) for p in prev] and not any(c == x for p in prev for x in conjuncts(NOT(p)))]
        from sa.sym import AND
        g = AND(*trig)
        out.append((g, r))
        prev.append(g)
    return out


class C04:
    def __init__(self, ctx: Ctx):
        self.ctx = ctx

    # ------------------------------------------------------------------ R04.1
    def check_bounds(self):
        ctx, m = self.ctx, self.ctx.models
        for ci in m.all_models():
            if not ci.module.name.startswith(DATA + "."):
                continue
            for fi in m.fields(ci):
                if fi.owner.qual != ci.qual:
                    continue
                if fi.name not in ("score", "affinity", "probability", "confidence"):
                    continue
                core = strip_opt(fi.shape)
                if core not in (("prim", "float"), ("prim", "int")):
                    continue
                file = ci.module.relpath
                site = f"{file}:{fi.node.lineno} {ci.name}.{fi.name}"

                def num(k):
                    v = fi.field_kwargs.get(k)
                    if isinstance(v, (ast.Name, ast.Attribute)):
                        # a named bound (`SCORE_MAX = 1`): its value
                        from rules.common import _const_of
                        cv = _const_of(v, ctx.index, fi.owner.module)
                        if isinstance(cv, (int, float)) and not isinstance(cv, bool):
                            return cv
                    if isinstance(v, ast.Constant) and isinstance(v.value, (int, float)):
                        return v.value
                    if isinstance(v, ast.UnaryOp) and isinstance(v.op, ast.USub) and isinstance(v.operand, ast.Constant):
                        return -v.operand.value
                    return None

                ge, le = num("ge"), num("le")
                gt, lt = num("gt"), num("lt")
                if ge == 0 and le == 1 and gt is None and lt is None:
                    ctx.ok("R04.1", site, f"{shape_str(fi.shape)} = Field(ge=0, le=1)")
                else:
                    lost = []
                    if ge != 0:
                        lost.append(f"lower bound is {'ge=' + str(ge) if ge is not None else ('gt=' + str(gt) if gt is not None else 'missing')}")
                    if le != 1:
                        lost.append(f"upper bound is {'le=' + str(le) if le is not None else ('lt=' + str(lt) if lt is not None else 'missing')}")
                    if gt is not None or lt is not None:
                        lost.append("strict bound excludes the end point")
                    w = 7.0 if le != 1 else (-1.0 if ge != 0 else (0.0 if gt is not None else 1.0))
                    ctx.bad("R04.1", file, f"{ci.name}.{fi.name}", f"{fi.name}: {shape_str(fi.shape)} bounds ge={ge} le={le}",
                            f"{ci.name}.{fi.name} is a score/affinity but is not constrained to [0, 1] ({'; '.join(lost)}): "
                            f"{ci.name}({fi.name}={w}) is {'accepted' if (gt is None and lt is None) or w in (7.0, -1.0) else 'rejected'}",
                            fi.node.lineno, witness={"value": w})

    # ------------------------------------------------------------------ R04.2
    def validator(self, modname, cname, vname, mode) -> Optional[Tuple[ClassInfo, Summary, tuple]]:
        ctx, m = self.ctx, self.ctx.models
        ci = ctx.index.need_class(modname, cname)
        allv = [v for v in m.validators(ci, inherited=False) if v.kind == "model"]
        vs = [v for v in allv if v.name == vname]
        if not vs:
            # the validator may have been renamed: the model validator of this class that no other rule of this property claims
            others = {"_check_clips_match", "_check_matches", "_validate_match", "_annotations_are_part_of_the_project", "_validate_times"} - {vname}
            cand = [v for v in allv if v.name not in others]
            if len(cand) == 1:
                vs = cand
                vname = cand[0].name
        if not vs and vname not in ci.methods:
            from sa.index import AnchorMissing
            raise AnchorMissing(f"{cname}.{vname} not found", rule="R04.2", site=f"{ci.module.relpath} {cname}")
        file = ci.module.relpath
        fn = vs[0].node if vs else ci.methods[vname][-1]
        if not vs or vs[0].kind != "model":
            ctx.bad("R04.2", file, f"{cname}.{vname}", "@model_validator missing",
                    f"{cname}.{vname} is not registered as a model validator: the invariant is never checked", fn.lineno)
            return None
        if vs[0].mode != mode:
            ctx.bad("R04.2", file, f"{cname}.{vname}", f"@model_validator(mode={vs[0].mode!r})",
                    f"{cname}.{vname} must run in mode {mode!r} (its body reads {'the raw input mapping' if mode == 'before' else 'validated attributes'})",
                    fn.lineno)
            return None
        s = ctx.summ.of_node(ci.module, fn, f"{ci.qual}.{vname}", ci)
        p = ("param", s.params[0] if mode == "after" else s.params[-1])
        # non-raising paths return the input
        good = s.fall_live == FALSE and s.returns and all(r.term == p for r in s.returns)
        if good:
            ctx.ok("R04.2", f"{file}:{fn.lineno} {cname}.{vname}", f"mode={mode}; every non-raising path returns its input")
        else:
            ctx.bad("R04.2", file, f"{cname}.{vname}", "return self/values",
                    f"a non-raising path of {cname}.{vname} does not return its input "
                    f"({[show(r.term)[:30] for r in s.returns]}, falls off end: {s.fall_live != FALSE})", fn.lineno)
        for r in s.raises:
            exc = r.term[1] if r.term[0] == "raise_from" else r.term
            nm = exc[1][1] if exc[0] == "call" and exc[1][0] == "builtin" else None
            if nm not in ("ValueError", "AssertionError"):
                ctx.bad("R04.2", file, f"{cname}.{vname}", f"raise {show(exc)[:40]}", "exception type not converted by pydantic", r.lineno)
        return ci, s, p

    def truth_check(self, rid, ci, vname, s, trig_terms, atoms: Dict[str, tuple], spec, desc, line):
        """Compare OR(trigger terms) with spec(**atom values) over all boolean assignments of the atoms."""
        ctx = self.ctx
        file = ci.module.relpath
        names = list(atoms)
        # eq spelled instead of ne on an atom: rewrite as its negation
        def flip(t):
            if not isinstance(t, tuple):
                return t
            if t and t[0] == "cmp" and t[1] == "eq" and sym_cmp(("cmp", "ne", t[2], t[3])) in atoms.values():
                return ("not", sym_cmp(("cmp", "ne", t[2], t[3])))
            return tuple(flip(c) for c in t)
        trig_terms = [flip(t) for t in trig_terms]
        mentioned = [n for n in names if any(atoms[n] in set(walk(t)) or atoms[n] == t for t in trig_terms)]
        if not mentioned:
            ctx.bad(rid, file, f"{ci.name}.{vname}", f"raise iff {desc}",
                    f"the rejection condition of {ci.name}.{vname} does not test {desc}: "
                    f"{'; '.join(show(t)[:80] for t in trig_terms) or 'no raise at all'}", line)
            return
        for vals in itertools.product([False, True], repeat=len(names)):
            env = {atoms[n]: v for n, v in zip(names, vals)}
            # also map negated/flipped spellings
            got = False
            for t in trig_terms:
                r = peval(t, env)
                if r[0] != "const":
                    ctx.undec(rid, f"{file}:{line} {ci.name}.{vname}", f"rejection condition outside the recognised fragment: {show(r)[:80]}")
                    return
                got = got or bool(r[1])
            want = spec(**dict(zip(names, vals)))
            if got != want:
                ctx.bad(rid, file, f"{ci.name}.{vname}", f"raise iff {desc}",
                        f"{ci.name}.{vname} {'rejects' if got else 'accepts'} the case {dict(zip(names, vals))} but the "
                        f"specification says {'reject' if want else 'accept'} (raise iff {desc})", line,
                        witness=dict(zip(names, vals)))
                return
        ctx.ok(rid, f"{file}:{line} {ci.name}.{vname}", f"raise iff {desc} (truth table over {names})")

    def check_validators(self):
        ctx = self.ctx
        # (a) + (b) ClipEvaluation: the clip comparison and the match bookkeeping, in whichever after-validators they are written
        # (two validators on the reference tree; one merged validator is the same set of rejections)
        cei = ctx.index.need_class(f"{DATA}.clip_evaluations", "ClipEvaluation")
        cev = [v for v in ctx.models.validators(cei, inherited=False) if v.kind == "model"]
        names = [v.name for v in cev] or ["_check_clips_match", "_check_matches"]
        parts = []
        for vn in names:
            got = self.validator(f"{DATA}.clip_evaluations", "ClipEvaluation", vn, "after")
            if got:
                parts.append(got)
        if parts:
            ci = parts[0][0]
            p = parts[0][2]
            a = ("attr", ("attr", ("attr", p, "annotations"), "clip"), "uuid")
            b = ("attr", ("attr", ("attr", p, "predictions"), "clip"), "uuid")
            clip_trig, match_trig = [], []
            for _, s_, p_ in parts:
                for g, r in triggers(s_):
                    if p_ != p:
                        g = subst(g, {p_: p})
                    (clip_trig if any(x in (a, b) for x in walk(g)) else match_trig).append((g, r, s_))
            s0 = (clip_trig[0][2] if clip_trig else parts[0][1])
            atoms = {"differ": sym_cmp(("cmp", "ne", a, b))}
            # the spelling-based comparison first; where it reports or cannot tell, the validators are decided on every ClipEvaluation
            # of a small scope instead (and a disagreement there is reported even if the spelling looked right)
            snap = (len(ctx.findings), len(ctx.undecided), {k: len(v) for k, v in ctx.instances.items()})
            self.truth_check("R04.2", ci, s0.qual.split(".")[-1], s0, [self._canon(g) for g, _, _ in clip_trig], atoms, lambda differ: differ,
                             "annotations.clip.uuid != predictions.clip.uuid", s0.node.lineno)
            s1 = (match_trig[0][2] if match_trig else parts[-1][1])
            self.check_matches(ci, s1, p, [(g, r) for g, r, _ in match_trig])
            spelled_ok = len(ctx.findings) == snap[0] and len(ctx.undecided) == snap[1]
            mres = self.clip_evaluation_models(parts)
            msite = f"{ci.module.relpath}:{s1.node.lineno} ClipEvaluation validators"
            if mres is not None and mres[1] is None and not spelled_ok:
                # roll the spelling-based reports back: on all models of the scope the validators reject exactly the invalid ones
                del ctx.findings[snap[0]:]
                del ctx.undecided[snap[1]:]
                for k in list(ctx.instances):
                    del ctx.instances[k][snap[2].get(k, 0):]
                ctx.ok("R04.2", msite, f"clips differ -> rejected ({mres[0]} small-scope models: rejected iff invalid)")
                for name in ("duplicate targets", "duplicate sources", "targets == annotated events", "sources == predicted events"):
                    ctx.ok("R04.2", msite, f"rejects unless {name} (decided on the small-scope models)")
            elif mres is not None and mres[1] is not None:
                w = mres[1]
                ctx.bad("R04.2", ci.module.relpath, "ClipEvaluation._check_matches", "validators vs the statement on a small model",
                        f"a clip evaluation with annotated sound events {w['annotated']}, predicted {w['predicted']}, matches (source, target) "
                        f"{w['matches (source, target)']}{'' if w['same clip'] else ' and DIFFERENT clips'} is "
                        f"{'rejected although it satisfies' if w['rejected'] else 'accepted although it violates'} the statement (same clip; the matches "
                        f"mention every annotated and every predicted sound event exactly once, and nothing else)", s1.node.lineno, witness=w)
            elif mres is not None:
                ctx.ok("R04.2", msite, f"{mres[0]} small-scope models: rejected iff invalid")
        # (c) Match._validate_match
        mci = ctx.index.need_class(f"{DATA}.matches", "Match")
        mmv = [v for v in ctx.models.validators(mci, inherited=False) if v.kind == "model"]
        mmode = next((v.mode for v in mmv if v.name == "_validate_match"), mmv[0].mode if len(mmv) == 1 else "after")
        got = self.validator(f"{DATA}.matches", "Match", "_validate_match", mmode if mmode in ("before", "after") else "after")
        if got:
            ci, s, p = got
            snap_c = self._snap()

            def key(k):
                return [("call", ("attr", p, "get"), (("const", k),), ()), ("call", ("attr", p, "get"), (("const", k), NONE), ()),
                        ("attr", p, k), ("sub", p, ("const", k))]

            trig = [g for g, _ in triggers(s)]
            src = [x for x in walk(("and", tuple(trig))) if x[0] == "cmp" and x[1] in ("is", "isnot") and x[3] == NONE and x[2] in key("source")]
            tgt = [x for x in walk(("and", tuple(trig))) if x[0] == "cmp" and x[1] in ("is", "isnot") and x[3] == NONE and x[2] in key("target")]
            # the way the two sides are read must fit the mode: a before-mode hook receives the raw input (the keyword arguments as
            # a dict), an after-mode hook the model instance
            forms = {("attr" if x[2][0] == "attr" else "key") for x in src + tgt}
            if mmode == "before" and "attr" in forms:
                ctx.bad("R04.2", ci.module.relpath, "Match._validate_match", "mode='before' reading self.source / self.target",
                        "the validator runs in before mode, where its argument is the raw input (a dict of the keyword arguments), but reads "
                        ".source / .target as attributes: AttributeError for every Match(...) construction", s.node.lineno)
            elif mmode == "after" and "key" in forms:
                ctx.bad("R04.2", ci.module.relpath, "Match._validate_match", "mode='after' reading the instance like a dict",
                        "the validator runs in after mode, where its argument is the Match instance, but reads source / target with "
                        ".get(...) / [...]: the instance is not a mapping", s.node.lineno)
            if not src or not tgt:
                # maybe written with truthiness / subscripts
                self._match_fallback(ci, s, p, trig)
            else:
                atoms = {"source_is_none": ("cmp", "is", src[0][2], NONE), "target_is_none": ("cmp", "is", tgt[0][2], NONE)}
                trig = [self._polar(t, atoms) for t in trig]
                self.truth_check("R04.2", ci, "_validate_match", s, trig, atoms,
                                 lambda source_is_none, target_is_none: source_is_none and target_is_none,
                                 "source is None and target is None", s.node.lineno)
            from types import SimpleNamespace as NS_
            if mmode == "before":
                opts = ("absent", None, NS_(uuid=1))
                mcases = [{k_: v_ for k_, v_ in (("source", a_), ("target", b_)) if v_ != "absent"} for a_ in opts for b_ in opts]
                mvalid = lambda c_: c_.get("source") is not None or c_.get("target") is not None
                mdesc = lambda c_: f"Match(**{ {k_: ('<a sound event>' if v_ is not None else None) for k_, v_ in c_.items()} })"
            else:
                mcases = [NS_(source=a_, target=b_, affinity=0.5, score=None) for a_ in (None, NS_(uuid=11)) for b_ in (None, NS_(uuid=1))]
                mvalid = lambda c_: c_.source is not None or c_.target is not None
                mdesc = lambda c_: f"a match with source {'set' if c_.source is not None else 'None'} and target {'set' if c_.target is not None else 'None'}"
            self._settle(snap_c, got, mcases, mvalid, mdesc, "Match._validate_match", "a match has a source or a target")
        # (d) AnnotationProject._annotations_are_part_of_the_project
        got = self.validator(f"{DATA}.annotation_projects", "AnnotationProject", "_annotations_are_part_of_the_project", "after")
        if got:
            ci, s, p = got
            file = ci.module.relpath
            trigs = triggers(s)
            site = f"{file}:{s.node.lineno} {ci.name}._annotations_are_part_of_the_project"
            snap_d = self._snap()
            if len(trigs) != 1:
                ctx.undec("R04.2", site, f"{len(trigs)} raise statements (expected 1)")
            else:
                g, r = trigs[0]
                from sa.idioms import existential
                binders, g = existential(r.live, s)
                want_iter = ("attr", p, "clip_annotations")
                ok_loop = len(binders) == 1 and binders[0][1] == want_iter
                e = ("elem", binders[0][0]) if binders else None
                loops = [s.loops[b[0]] for b in binders if b[0] in s.loops]
                lhs = ("attr", ("attr", e, "clip"), "uuid") if e else None
                setcomp = None
                good = False
                if g[0] == "cmp" and g[1] == "notin" and g[2] == lhs:
                    rhs = alpha(g[3])
                    want = alpha(("comp", "set", ("attr", ("attr", ("elem", "X"), "clip"), "uuid"), (("X", ("attr", p, "tasks"), ()),)))
                    want_l = alpha(("comp", "list", ("attr", ("attr", ("elem", "X"), "clip"), "uuid"), (("X", ("attr", p, "tasks"), ()),)))
                    good = rhs in (want, want_l) or (rhs[0] == "call" and rhs[1] in (("builtin", "set"), ("builtin", "frozenset"), ("builtin", "list"), ("builtin", "tuple")) and len(rhs[2]) == 1 and alpha(rhs[2][0]) in (want, want_l, alpha(("comp", "gen", want[2], want[3]))))
                if ok_loop and good:
                    ctx.ok("R04.2", site, "raise iff some annotated clip's clip.uuid is not among {task.clip.uuid}")
                else:
                    ctx.bad("R04.2", file, f"{ci.name}._annotations_are_part_of_the_project", f"raise iff {show(g)[:90]}",
                            f"the membership test is not `annotated_clip.clip.uuid not in {{task.clip.uuid for task in self.tasks}}` "
                            f"over every clip annotation (found: {show(g)[:100]}; loop over {show(loops[0].iter) if loops else '-'})",
                            r.lineno)
            from types import SimpleNamespace as NS_
            import itertools as it_
            pcases = []
            for nt in range(3):
                for tk in it_.product((1, 2), repeat=nt):
                    for na in range(3):
                        for an in it_.product((1, 2, 3), repeat=na):
                            pcases.append(NS_(tasks=[NS_(clip=NS_(uuid=u)) for u in tk], clip_annotations=[NS_(clip=NS_(uuid=u)) for u in an]))
            self._settle(snap_d, got, pcases, lambda c_: all(a_.clip.uuid in {t_.clip.uuid for t_ in c_.tasks} for a_ in c_.clip_annotations),
                         lambda c_: f"a project with tasks on clips {[t_.clip.uuid for t_ in c_.tasks]} and annotations of clips {[a_.clip.uuid for a_ in c_.clip_annotations]}",
                         "AnnotationProject._annotations_are_part_of_the_project", "every annotated clip has a task")
        # (e) Clip._validate_times
        cci = ctx.index.need_class(f"{DATA}.clips", "Clip")
        cmv = [v for v in ctx.models.validators(cci, inherited=False) if v.kind == "model"]
        cmode = next((v.mode for v in cmv if v.name == "_validate_times"), cmv[0].mode if len(cmv) == 1 else "after")
        got = self.validator(f"{DATA}.clips", "Clip", "_validate_times", cmode if cmode in ("before", "after") else "after")
        if got:
            ci, s, p = got
            file = ci.module.relpath
            if cmode == "after":
                st, en = ("attr", p, "start_time"), ("attr", p, "end_time")
                alt = {}
            else:
                st, en = ("sub", p, ("const", "start_time")), ("sub", p, ("const", "end_time"))
                alt = {("call", ("attr", p, "get"), (("const", "start_time"),), ()): st, ("call", ("attr", p, "get"), (("const", "end_time"),), ()): en}
            trig = [g for g, _ in triggers(s)]
            site = f"{file}:{s.node.lineno} Clip._validate_times"
            # R04.6: the ordering is decided on the values the clip will HOLD.  In before mode the validator sees the raw input:
            # pydantic (lax mode) afterwards turns numeric strings into floats, so comparing the raw items compares strings
            # ("10" > "2" is False) -- the comparison must be made on validated attributes (after mode) or on explicit float(...)
            raw_cmp = None
            if cmode != "after":
                for g in trig:
                    for x in walk(g):
                        if x[0] == "cmp" and x[1] in ("lt", "le", "gt", "ge") and any(y in (st, en) or y in alt for y in (x[2], x[3])):
                            raw_cmp = x
            if raw_cmp is not None:
                ctx.bad("R04.6", file, "Clip._validate_times", f"@model_validator(mode='before'): {show(raw_cmp)[:60]}",
                        f"the ordering test `{show(raw_cmp)[:80]}` runs in before mode on the RAW input; pydantic coerces numeric strings to floats "
                        f"only afterwards, so Clip(start_time='10', end_time='2') passes the test as a string comparison and is constructed "
                        f"with start_time 10.0 > end_time 2.0 (and '2', '10' is rejected); a missing key leaves as KeyError, mixed str / number "
                        f"as TypeError instead of a validation error -- through the constructor, dict and JSON validation alike", s.node.lineno,
                        witness={"input": {"start_time": "10", "end_time": "2"}, "constructed": {"start_time": 10.0, "end_time": 2.0}})
            else:
                ctx.ok("R04.6", site, "the ordering is tested on validated (coerced) values")
            for k_ in list(alt):
                pass
            # float(values[...]) is the value itself for the numeric placements below
            fl_ = {("call", ("builtin", "float"), (x_,), ()): x_ for x_ in (st, en)}
            bad = None
            # the three orderings, then pairs one rounding step to a few 1e-10 apart at several magnitudes: a tolerance in
            # the comparison (isclose, round, an epsilon) accepts a clip that starts after it ends
            placements = [dict(o) for o in weak_orderings(["start", "end"])]
            for base in (0.0, 0.3, 1.0, 1000.0, 86400.0):
                for d in (math.ulp(base) if base else 5e-324, 1e-12, 1e-10 * max(base, 1.0)):
                    placements += [{"start": base + d, "end": base}, {"start": base, "end": base + d}]
            for o in placements:
                env = {st: float(o["start"]), en: float(o["end"])}
                for k, v in list(alt.items()) + list(fl_.items()):
                    env[k] = env[v]
                if cmode == "after":
                    # derived attributes (properties such as `duration`) have the value their definition gives for these times
                    for mn, fns in ci.methods.items():
                        if any(ast.unparse(d_) == "property" for d_ in fns[-1].decorator_list):
                            try:
                                ps = ctx.summ.of_node(ci.module, fns[-1], f"{ci.qual}.{mn}", ci)
                            except Exception:  # noqa: BLE001
                                continue
                            if len(ps.returns) == 1:
                                sp_ = ("param", ps.params[0])
                                v_ = peval(ps.returns[0].term, {("attr", sp_, "start_time"): env[st], ("attr", sp_, "end_time"): env[en]})
                                if v_[0] == "const":
                                    env[("attr", p, mn)] = v_[1]
                rej = False
                for t in trig:
                    r = peval(t, env)
                    if r[0] != "const":
                        ctx.undec("R04.2", site, f"rejection condition outside the recognised fragment: {show(r)[:80]}")
                        bad = "undec"
                        break
                    rej = rej or bool(r[1])
                if bad:
                    break
                want = o["start"] > o["end"]
                if rej != want:
                    bad = (o, rej)
                    break
            if bad is None:
                ctx.ok("R04.2", site, f"raise iff start_time > end_time (equal times accepted) on all 3 orderings and {len(placements) - 3} near-equal placements")
            elif bad != "undec":
                o, rej = bad
                rel = "==" if o["start"] == o["end"] else ("<" if o["start"] < o["end"] else ">")
                ctx.bad("R04.2", file, "Clip._validate_times", "raise iff start_time > end_time",
                        f"a clip with start_time {rel} end_time is {'rejected' if rej else 'accepted'} "
                        f"(specification: a clip never starts after it ends; equal times are valid)", s.node.lineno,
                        witness={"start_rank": o["start"], "end_rank": o["end"], "code": "reject" if rej else "accept"})

    def check_raw_comparisons(self):
        """R04.6 package-wide: a before-mode validator of any data model sees the raw input (strings not yet coerced, keys
        possibly missing); an ORDER comparison or arithmetic on its items decides on other values than the instance will hold.
        Identity / membership tests (`is None`, `in`) are unaffected by coercion and pass."""
        ctx, m = self.ctx, self.ctx.models
        n = 0
        for ci in m.all_models():
            if not ci.module.name.startswith(DATA + "."):
                continue
            for v in m.validators(ci, inherited=False):
                if v.mode != "before" or (ci.name == "Clip" and v.name == "_validate_times"):
                    continue
                try:
                    s = ctx.summ.of_node(ci.module, v.node, f"{ci.qual}.{v.name}", ci)
                except Exception:  # noqa: BLE001
                    continue
                raw = {("param", p_) for p_ in s.params[1:]} if s.params and s.params[0] in ("cls", "self") else {("param", p_) for p_ in s.params}
                n += 1

                def rooted(t):
                    while isinstance(t, tuple) and t and t[0] in ("sub", "attr"):
                        t = t[1]
                    if isinstance(t, tuple) and t and t[0] == "call" and t[1][0] == "attr" and t[1][2] == "get":
                        return rooted(t[1][1])
                    return t in raw

                hit = None
                for e in s.events:
                    for t in (e.live, e.term):
                        for x in walk(t):
                            if x[0] == "cmp" and x[1] in ("lt", "le", "gt", "ge") and (rooted(x[2]) or rooted(x[3])):
                                hit = hit or (x, e)
                # the relational validators of this property: the raw input need not be a mapping (JSON null / list / string):
                # `.get` / subscripts on it without an isinstance guard leave as AttributeError / TypeError, not a validation error
                if hit is None and ci.name in ("Match", "ClipEvaluation", "AnnotationProject", "Clip"):
                    guarded = any(x[0] == "call" and x[1] == ("builtin", "isinstance") and x[2] and x[2][0] in raw
                                  for e in s.events for t in (e.live, e.term) for x in walk(t))
                    reads = [(x, e) for e in s.events for t in (e.live, e.term) for x in walk(t)
                             if (x[0] == "call" and x[1][0] == "attr" and x[1][2] == "get" and x[1][1] in raw) or (x[0] == "sub" and x[1] in raw)]
                    if reads and not guarded:
                        x, e = reads[0]
                        ctx.bad("R04.6", ci.module.relpath, f"{ci.name}.{v.name}", f"mode='before': {show(x)[:60]} on the raw input",
                                f"{ci.name}.{v.name} runs in before mode and reads the raw input as a mapping (`{show(x)[:60]}`) without checking "
                                f"that it is one: for {ci.name}.model_validate_json('null') / a list / a string -- e.g. a clip evaluation "
                                f"document with \"matches\": [null] -- AttributeError / TypeError escapes pydantic where every other model "
                                f"answers with a validation error", e.lineno, witness={"input": "null", "observed": "AttributeError"})
                        continue
                if hit:
                    x, e = hit
                    ctx.bad("R04.6", ci.module.relpath, f"{ci.name}.{v.name}", f"mode='before': {show(x)[:60]}",
                            f"{ci.name}.{v.name} runs in before mode and orders raw input items (`{show(x)[:80]}`): numeric strings, which "
                            f"pydantic coerces afterwards, are compared as strings, so the decision is made on other values than the "
                            f"instance holds", e.lineno)
                else:
                    ctx.ok("R04.6", f"{ci.module.relpath}:{v.node.lineno} {ci.name}.{v.name}", "before-mode validator makes no order comparison on raw items")
        ctx.ok("R04.6", "soundevent.data", f"{n} before-mode validators scanned")

    def _canon(self, t):
        if not isinstance(t, tuple):
            return t
        t = tuple(self._canon(c) for c in t)
        return sym_cmp(t)

    def _polar(self, t, atoms):
        """rewrite `x is not None` as not(`x is None`) so that atoms match."""
        if not isinstance(t, tuple):
            return t
        if t and t[0] == "cmp" and t[1] == "isnot" and ("cmp", "is", t[2], t[3]) in atoms.values():
            return ("not", ("cmp", "is", t[2], t[3]))
        return tuple(self._polar(c, atoms) for c in t)

    # ------------------------------------------------------------------ small-scope models of the relational validators
    def _rejects(self, parts, obj, depth=0):
        """does some raise of the validators fire for the model object?  Calls of other methods of the class on the instance
        (`self._check_clips_match()`) are followed.  (sa/meval.py; Unknown propagates)"""
        from sa.meval import fires
        for ci_, s_, p_ in parts:
            for e in s_.events:
                if e.kind == "raise":
                    if e.handlers or e.in_handler:
                        raise Unknown("raise inside a try statement")
                    if fires(s_, e, {p_: obj}):
                        return True
                elif e.kind == "call" and e.term[0] == "call" and e.term[1][0] == "attr" and e.term[1][1] == p_ and not e.term[2] and not e.term[3] \
                        and e.term[1][2] in ci_.methods:
                    if depth > 3 or e.handlers or e.in_handler:
                        raise Unknown("nested method calls")
                    if fires(s_, e, {p_: obj}):
                        ms = self.ctx.summ.of_method(ci_, e.term[1][2])
                        if self._rejects([(ci_, ms, ("param", ms.params[0]))], obj, depth + 1):
                            return True
        return False

    def clip_evaluation_models(self, parts):
        """Every ClipEvaluation of a small scope -- up to two annotated and two predicted sound events (also one listed twice), match lists of up to two
        matches over those, one foreign identifier per side and None (all of them), of three matches over the known identifiers and
        None, same / different clip -- must be rejected by the validators exactly when it violates the statement: clips differ, or
        the targets (sources) of the matches are not the annotated (predicted) sound events, each exactly once.
        -> None (some guard is outside the interpreted fragment), or (n models, first disagreement or None)."""
        from types import SimpleNamespace as NS
        import itertools as it

        def ev(u):
            return None if u is None else NS(uuid=u)

        def model(A, P, ms, same_clip=True):
            return NS(annotations=NS(clip=NS(uuid=100), sound_events=[ev(u) for u in A]),
                      predictions=NS(clip=NS(uuid=100 if same_clip else 200), sound_events=[ev(u) for u in P]),
                      matches=[NS(source=ev(s_), target=ev(t_), affinity=0.5, score=None) for s_, t_ in ms])

        def valid(A, P, ms, same_clip):
            ts = sorted(t_ for _, t_ in ms if t_ is not None)
            ss = sorted(s_ for s_, _ in ms if s_ is not None)
            # (a sound event listed twice among the annotated ones is still ONE sound event to be mentioned once)
            return same_clip and ts == sorted(set(A)) and ss == sorted(set(P))

        wide = [(s_, t_) for s_ in (None, 11, 12, 13) for t_ in (None, 1, 2, 3) if not (s_ is None and t_ is None)]
        narrow = [(s_, t_) for s_ in (None, 11, 12) for t_ in (None, 1, 2) if not (s_ is None and t_ is None)]
        cases = []
        for A in ([], [1], [1, 2], [1, 1]):
            for P in ([], [11], [11, 12], [11, 11]):
                for n in range(3):
                    for ms in it.product(wide, repeat=n):
                        cases.append((A, P, list(ms), True))
        for ms in it.product(narrow, repeat=3):
            cases.append(([1, 2], [11, 12], list(ms), True))
        for A, P, ms in (([], [], []), ([1], [11], [(11, 1)]), ([1, 2], [11], [(11, 1), (None, 2)])):
            cases.append((A, P, ms, False))
        n = 0
        try:
            for A, P, ms, same in cases:
                rej = self._rejects(parts, model(A, P, ms, same))
                n += 1
                if rej == valid(A, P, ms, same):
                    return n, {"annotated": A, "predicted": P, "matches (source, target)": ms, "same clip": same, "rejected": rej}
        except Unknown:
            return None
        return n, None

    def _snap(self):
        ctx = self.ctx
        return (len(ctx.findings), len(ctx.undecided), {k: len(v) for k, v in ctx.instances.items()})

    def _settle(self, snap, part, cases, valid, describe, func, what):
        """After the spelling-based comparison of one validator: decide it on the small-scope models as well.  Models agree with the
        statement everywhere -> the spelling-based reports (if any) are withdrawn; a model disagrees -> reported with the model."""
        ctx = self.ctx
        ci, s, p = part
        spelled_ok = len(ctx.findings) == snap[0] and len(ctx.undecided) == snap[1]
        n, witness = 0, None
        try:
            for c in cases:
                rej = self._rejects([part], c)
                n += 1
                if rej == valid(c):
                    witness = (c, rej)
                    break
        except Unknown:
            return
        site = f"{ci.module.relpath}:{s.node.lineno} {func}"
        if witness is None and not spelled_ok:
            del ctx.findings[snap[0]:]
            del ctx.undecided[snap[1]:]
            for k in list(ctx.instances):
                del ctx.instances[k][snap[2].get(k, 0):]
            ctx.ok("R04.2", site, f"{what} ({n} small-scope models: rejected iff invalid)")
        elif witness is not None:
            c, rej = witness
            ctx.bad("R04.2", ci.module.relpath, func, "validator vs the statement on a small model",
                    f"{describe(c)} is {'rejected although it satisfies' if rej else 'accepted although it violates'} the statement ({what})",
                    s.node.lineno, witness={"model": describe(c), "rejected": rej})

    def _match_fallback(self, ci, s, p, trig):
        self.ctx.bad("R04.2", ci.module.relpath, "Match._validate_match", "raise iff source is None and target is None",
                     f"the rejection condition does not test both `source` and `target` for None: {show(trig)[:100]}",
                     s.node.lineno)

    def check_matches(self, ci, s, p, trigs=None):
        ctx = self.ctx
        file = ci.module.relpath
        site = f"{file}:{s.node.lineno} ClipEvaluation._check_matches"
        trigs = triggers(s) if trigs is None else trigs

        def ids(side):  # [m.<side>.uuid for m in self.matches if m.<side> is not None]
            e = ("elem", "X")
            return ("comp", "list", ("attr", ("attr", e, side), "uuid"),
                    (("X", ("attr", p, "matches"), (("cmp", "isnot", ("attr", e, side), NONE),)),))

        def uu(coll):  # {x.uuid for x in self.<coll>.sound_events}
            e = ("elem", "X")
            return ("comp", "set", ("attr", e, "uuid"), (("X", ("attr", ("attr", p, coll), "sound_events"), ()),))

        def SET(x):
            return ("call", ("builtin", "set"), (x,), ())

        def LEN(x):
            return ("call", ("builtin", "len"), (x,), ())

        T, S, A, P = ids("target"), ids("source"), uu("annotations"), uu("predictions")
        want = {
            "duplicate targets": self._canon(alpha(("cmp", "ne", LEN(T), LEN(SET(T))))),
            "duplicate sources": self._canon(alpha(("cmp", "ne", LEN(S), LEN(SET(S))))),
            "targets == annotated events": self._canon(alpha(("cmp", "ne", SET(T), A))),
            "sources == predicted events": self._canon(alpha(("cmp", "ne", SET(S), P))),
        }
        got = {}
        for g, r in trigs:
            got[self._canon(alpha(g))] = (g, r)
        # alpha() numbers binders per whole term, so normalise each side independently as well
        def norm(t):
            t = norm_multiset(t)  # Counter-based spellings of "has duplicates" / "the set of"
            if t[0] == "cmp":
                return self._canon(("cmp", t[1], alpha(t[2]), alpha(t[3])))
            return alpha(t)
        got = {norm(g): (g, r) for g, r in trigs}
        want = {k: norm(v) for k, v in {
            "duplicate targets": ("cmp", "ne", LEN(T), LEN(SET(T))),
            "duplicate sources": ("cmp", "ne", LEN(S), LEN(SET(S))),
            "targets == annotated events": ("cmp", "ne", SET(T), A),
            "sources == predicted events": ("cmp", "ne", SET(S), P),
        }.items()}
        for name, w in want.items():
            if w in got:
                ctx.ok("R04.2", f"{file}:{got[w][1].lineno} ClipEvaluation._check_matches", f"rejects unless {name}")
            else:
                ctx.bad("R04.2", file, "ClipEvaluation._check_matches", f"check: {name}",
                        f"no rejection for `{name}`: a clip evaluation whose matches violate it is accepted "
                        f"(conditions found: {[show(g)[:60] for g, _ in got.values()]})", s.node.lineno)
        for k, (g, r) in got.items():
            if k not in want.values():
                ctx.undec("R04.2", f"{file}:{r.lineno} ClipEvaluation._check_matches",
                          f"unrecognised rejection condition (cannot tell whether it over-rejects): {show(g)[:100]}")

    # ------------------------------------------------------------------ R04.3
    def bypass_hits(self, tree: ast.AST) -> List[Tuple[int, str]]:
        hits = []
        for n in ast.walk(tree):
            if isinstance(n, ast.Call):
                f = n.func
                if isinstance(f, ast.Attribute):
                    if f.attr in BYPASS_CALLS:
                        hits.append((n.lineno, f".{f.attr}(...)"))
                    if f.attr == "model_copy" and any(k.arg == "update" for k in n.keywords):
                        hits.append((n.lineno, ".model_copy(update=...)"))
                    if f.attr == "copy" and any(k.arg == "update" for k in n.keywords):
                        hits.append((n.lineno, ".copy(update=...)"))
                    if f.attr in ("__setattr__", "__delattr__") and isinstance(f.value, ast.Name) and f.value.id == "object":
                        hits.append((n.lineno, f"object.{f.attr}(...)"))
                    if f.attr in ("update", "setdefault", "pop", "clear") and isinstance(f.value, ast.Attribute) and f.value.attr == "__dict__":
                        hits.append((n.lineno, f".__dict__.{f.attr}(...)"))
            if isinstance(n, (ast.Assign, ast.AugAssign, ast.Delete)):
                tgts = n.targets if isinstance(n, (ast.Assign, ast.Delete)) else [n.target]
                for t in tgts:
                    for x in ast.walk(t):
                        if isinstance(x, ast.Attribute) and x.attr in ("__dict__", "__pydantic_fields_set__") and isinstance(x.ctx, (ast.Load, ast.Store)) and x is not t or \
                                (isinstance(x, ast.Attribute) and x.attr == "__dict__" and x is t):
                            hits.append((n.lineno, "__dict__ write"))
                            break
        return hits

    def check_bypass(self):
        ctx = self.ctx
        total = 0
        for mod in ctx.index.modules.values():
            hits = self.bypass_hits(mod.tree)
            for line, what in hits:
                total += 1
                # find enclosing function name
                func = "<module>"
                for n in ast.walk(mod.tree):
                    if isinstance(n, (ast.FunctionDef, ast.AsyncFunctionDef)) and n.lineno <= line <= (n.end_lineno or n.lineno):
                        func = n.name
                ctx.bad("R04.3", mod.relpath, func, what,
                        f"{what} builds or mutates a model without running its validators: the schema invariants can be bypassed",
                        line)
            ctx.ok("R04.3", f"{mod.relpath}", f"no validation bypass in {mod.name}") if not hits else None
        # positive fixture: the matcher must still recognise every pattern
        fx = os.path.join(VERIF, "fixtures", "c04_bypass.py")
        try:
            n = len(self.bypass_hits(ast.parse(open(fx).read())))
        except OSError:
            n = 0
        ctx.extra["bypass_fixture_hits"] = n
        if n < 6:
            ctx.undec("R04.3", "fixtures/c04_bypass.py", f"positive fixture matched {n} of 6 bypass patterns: the sweep is blind")
        else:
            ctx.ok("R04.3", "fixtures/c04_bypass.py", f"positive fixture: {n} bypass patterns recognised")


def run(ctx: Ctx):
    ctx.rule("R04.1", "every score/affinity field is declared with ge=0, le=1", 7)
    ctx.rule("R04.2", "relational validators: registered, reject exactly the specified condition, otherwise return input", 12)
    ctx.rule("R04.6", "ordering invariants are tested on validated (coerced) values, not on the raw input", 1)
    ctx.rule("R04.3", "no construction/mutation path bypasses validation (package sweep + positive fixture)", 100)
    c = C04(ctx)
    c.check_bounds()
    c.check_validators()
    c.check_raw_comparisons()
    c.check_bypass()
    # "identically through ... AOEF loading": the readers of the validated classes hand the document's values to the
    # validating constructor as they are (no repair, de-duplication, reordering or filtering in between): C01's field
    # rules on exactly those fields
    from .c01 import C01
    with ctx.delegated("C01/"):
        ctx.rule("R01.1", "AOEF readers supply the validated fields of the validated classes", 30)
        ctx.rule("R01.2", "validated list fields are read element for element, in order, without collapsing duplicates", 10)
        c1 = C01(ctx)
        wanted = {"ClipEvaluationAdapter": {"matches", "annotations", "predictions", "score"},
                  "MatchAdapter": {"source", "target", "affinity", "score"},
                  "ClipAdapter": {"start_time", "end_time"}}
        for leaf in c1.ao.leaves.values():
            if leaf.name in wanted:
                c1.check_pair(leaf.name, leaf.ci, leaf.D, leaf.O, leaf.writer_name, leaf.reader_name, [], only=wanted[leaf.name])
        for col in c1.ao.collections:
            if col.ci.name == "AnnotationProjectAdapter":
                c1.check_pair(col.ci.name, col.ci, col.D, col.O, "to_aoef", "to_soundevent", [], collection=True, only={"tasks", "clip_annotations"})
            if col.ci.name == "EvaluationAdapter":
                # the collection that loads clip evaluations and matches from a file: its reader must hand every one of them
                # to the validating constructors (and not drop the ones that fail: rule G.7 on this module)
                c1.check_pair(col.ci.name, col.ci, col.D, col.O, "to_aoef", "to_soundevent", [], collection=True, only={"clip_evaluations", "score"})
    return EXPLANATION, ASSUMPTIONS
