"""C14 -- clip segmentation tiles the clip on the hop lattice (R14.1 - R14.5)."""

from __future__ import annotations

import itertools
import math
from fractions import Fraction

from sa.canon import canon
from sa.peval import Unknown, compile_term, peval
from sa.report import Ctx
from sa.sym import AND, callkw, FALSE, NONE, NOT, Summary, conjuncts, show, subst, walk

MOD = "soundevent.operations"

EXPLANATION = (
    "Static decision of the structural clauses of segment_clip: R14.1 non-positive duration / hop are rejected before "
    "the loop and hop defaults to duration; R14.2 each yielded clip starts at clip.start_time + i*hop for the loop index "
    "i = 0, 1, 2, ..., ends at start + duration clamped to the clip end, and keeps the recording (canonical terms); "
    "R14.3 the stop / skip conditions are exactly: stop when start >= clip.end; stop when end > clip.end and incomplete "
    "windows are not wanted (decided on all orderings of the compared quantities); R14.4 the iteration bound never cuts "
    "the lattice short: unbounded loops and the canonical bounds ceil(D/hop)(+k), floor(D/hop)+1(+k) are accepted, any "
    "other arithmetic bound is evaluated against the needed count on the quarter-integer grid {1/4..10}^3 x {F, T} "
    "(a deficient point is the witness; absence of one is reported as a finite-grid argument); R14.5 identifiers are "
    "uuid5(package namespace, text containing the parent id and the final start / end). Float drift of i*hop is not decided."
)
ASSUMPTIONS = ["uuid.uuid5 is a deterministic function of (namespace, name) (trusted)", "Clip.duration == end_time - start_time"]

GRID = [Fraction(k, 4) for k in range(1, 41)]


class C14:
    def __init__(self, ctx: Ctx):
        self.ctx = ctx
        self.s = ctx.summ.of_func(MOD, "segment_clip")
        self.file = self.s.module.relpath

    def run(self):
        ctx, s = self.ctx, self.s
        site = f"{self.file}:{s.node.lineno} segment_clip"
        clip, dur, hopp, inc = ("param", "clip"), ("param", "duration"), ("param", "hop"), ("param", "include_incomplete")
        hop = ("ite", ("cmp", "is", hopp, NONE), dur, hopp)
        ys = s.yields
        if len(ys) != 1 or not ys[0].loops:
            ctx.undec("R14.2", site, f"{len(ys)} yields / not inside a loop")
            return
        y = ys[0]
        L = s.loops[y.loops[-1]]
        # R14.1 guards
        bad = None
        for dv, hv in itertools.product((-1.0, 0.0, 1.0), (None, -1.0, 0.0, 1.0)):
            env = {dur: dv, hopp: hv}
            rej = False
            for r in s.raises:
                lv = peval(r.live, env)
                if lv[0] == "const":
                    rej = rej or bool(lv[1])
                else:
                    ctx.undec("R14.1", site, f"guard outside the recognised fragment: {show(lv)[:60]}")
                    return
            h_eff = dv if hv is None else hv
            want = dv <= 0 or h_eff <= 0
            if rej != want:
                bad = (dv, hv, rej)
        first_raise = min((r.idx for r in s.raises), default=10 ** 9)
        before_loop = all(r.idx < y.idx and not r.loops for r in s.raises) and len(s.raises) >= 1
        if bad is None and before_loop:
            ctx.ok("R14.1", site, "non-positive duration / hop rejected before the loop; hop defaults to duration")
        elif bad is not None:
            ctx.bad("R14.1", self.file, "segment_clip", "duration / hop guards",
                    f"duration={bad[0]}, hop={bad[1]} is {'rejected' if bad[2] else 'accepted'} (non-positive duration or hop, and "
                    f"only those, must be rejected; hop=None means hop=duration)", s.node.lineno, witness={"duration": bad[0], "hop": bad[1]})
        else:
            ctx.bad("R14.1", self.file, "segment_clip", "guards after the loop", "the guards do not precede the generation of segments", s.node.lineno)
        # loop index
        i = ("elem", L.id)
        idx_ok, bound, unbounded = False, None, False
        it = L.iter
        if L.kind == "for" and it[0] == "call" and it[1] == ("builtin", "range") and len(it[2]) == 1:
            idx_ok, bound = True, it[2][0]
        elif L.kind == "for" and it[0] == "call" and it[1] == ("ext", "itertools.count") and (not it[2] or it[2] == (("const", 0),)):
            idx_ok, unbounded = True, True
        elif L.kind == "while":
            unbounded = True
        # R14.2 terms of the yielded clip
        t = y.term
        Clip = ("global", "soundevent.data.clips:Clip", "class")
        if not (t[0] == "call" and t[1] == Clip):
            ctx.undec("R14.2", site, f"yield is not data.Clip(...): {show(t)[:60]}")
            return
        kw = callkw(t)
        cs, ce = ("attr", clip, "start_time"), ("attr", clip, "end_time")
        if L.kind == "while":
            # start advanced by hop each iteration from clip.start: phi(start) pattern
            st = kw.get("start_time")
            idx_ok = False
            be = getattr(L, "body_env", {})
            if st is not None and st[0] == "phi":
                nm = st[1]
                nxt = be.get(nm)
                if nxt is not None and canon(nxt) == canon(("bin", "+", st, hop)):
                    ctx.ok("R14.2", site, "while-loop: start advances by hop each iteration")
                    idx_ok = True
                    start_t = st
            if not idx_ok:
                ctx.undec("R14.2", site, "while-loop whose start update is not `start += hop`")
                return
        else:
            start_t = ("bin", "+", cs, ("bin", "*", i, hop))
        if not idx_ok:
            ctx.undec("R14.4", site, f"loop form not recognised: {show(it)[:60]}")
            return
        got_s, got_e = kw.get("start_time", NONE), kw.get("end_time", NONE)
        end_raw = ("bin", "+", start_t, dur)
        end_t = ("call", ("builtin", "min"), (end_raw, ce), ())
        if canon(got_s) == canon(start_t):
            ctx.ok("R14.2", f"{self.file}:{y.lineno} segment_clip", "start_time = clip.start_time + i * hop")
        else:
            ctx.bad("R14.2", self.file, "segment_clip", f"start_time={show(got_s)[:70]}",
                    f"segment starts are `{show(got_s)[:90]}`, not clip.start_time + i*hop: the segments leave the hop lattice", y.lineno)
        from sa.idioms import same_minmax
        if canon(got_e) == canon(end_t) or same_minmax(got_e, end_t):
            ctx.ok("R14.2", f"{self.file}:{y.lineno} segment_clip", "end_time = min(start + duration, clip.end_time)")
        elif L.kind == "for" and self._end_by_grid(y, L, got_e, clip, dur, hopp, inc) is True:
            ctx.ok("R14.2", f"{self.file}:{y.lineno} segment_clip", "end_time = min(start + duration, clip.end_time) wherever a segment is produced "
                                                                     "(the yield's condition and its end evaluated on a grid of clips, windows and hops)")
        elif canon(got_e) == canon(end_raw):
            ctx.bad("R14.2", self.file, "segment_clip", f"end_time={show(got_e)[:70]} (unclamped)",
                    "the end of an incomplete window is not truncated at the clip end: the segment reaches outside its parent clip", y.lineno)
        else:
            ctx.bad("R14.2", self.file, "segment_clip", f"end_time={show(got_e)[:70]}",
                    f"segment ends are `{show(got_e)[:90]}`, not min(start + duration, clip.end_time)", y.lineno)
        if kw.get("recording") == ("attr", clip, "recording"):
            ctx.ok("R14.2", f"{self.file}:{y.lineno} segment_clip", "recording = clip.recording")
        else:
            ctx.bad("R14.2", self.file, "segment_clip", f"recording={show(kw.get('recording', NONE))[:40]}", "segments must belong to the parent's recording", y.lineno)
        # R14.3 stop conditions on orderings: start vs clip.end ; raw end vs clip.end ; include flag
        S, E, CE = canon(start_t), canon(end_raw), ce
        bad = None
        n = 0
        breaks = [e for e in s.events if e.kind in ("break", "return") and L.id in e.loops]
        by_float_grid = False
        for s_rel, e_rel, incv in itertools.product((-1, 0, 1), (-1, 0, 1), (False, True)):
            if by_float_grid:
                break
            # numeric model: clip.end = 10, hop fixed so that start/end relations hold
            cev = 10.0
            sv = cev + s_rel
            ev_ = cev + e_rel
            if ev_ <= sv:
                continue
            env = {inc: incv, ce: cev}
            # bind start and raw end by substitution of their defining terms
            envs = dict(env)
            stopped = None
            yielded = None
            for e in breaks + [y]:
                lv = self._eval_live(e.live, start_t, end_raw, sv, ev_, envs)
                if lv is None:
                    verdict = self._float_grid(s, L, i, breaks, y, clip, dur, hop, inc, site) if L.kind == "for" else None
                    if verdict is None:
                        ctx.undec("R14.3", site, f"condition outside the recognised fragment: {show(e.live)[:80]}")
                        return
                    by_float_grid = True  # the stop / yield conditions were decided (and reported) on the float grid
                    break
                if lv and e is not y:
                    stopped = True
                if lv and e is y:
                    yielded = True
            if by_float_grid:
                break
            n += 1
            want_stop = sv >= cev or (ev_ > cev and not incv)
            if bool(stopped) != want_stop or bool(yielded) == want_stop:
                bad = (s_rel, e_rel, incv, stopped, yielded)
        if by_float_grid:
            pass
        elif bad is None and L.kind == "for" and self._float_grid(s, L, i, breaks, y, clip, dur, hop, inc, site) is False:
            pass  # reported by the float grid
        elif bad is None:
            ctx.ok("R14.3", site, f"stop iff start >= clip.end or (end > clip.end and not include_incomplete), else yield ({n} cases)")
        else:
            rel = {-1: "<", 0: "==", 1: ">"}
            ctx.bad("R14.3", self.file, "segment_clip", "stop / yield conditions",
                    f"with start {rel[bad[0]]} clip.end, start + duration {rel[bad[1]]} clip.end, include_incomplete={bad[2]} the loop "
                    f"{'stops' if bad[3] else 'does not stop'} and {'yields' if bad[4] else 'does not yield'} (specification: stop iff the "
                    f"window starts at/after the clip end, or sticks out and incomplete windows are not wanted; a window ending exactly "
                    f"at the clip end is complete)", y.lineno, witness={"start_vs_end": rel[bad[0]], "end_vs_clip_end": rel[bad[1]], "include_incomplete": bad[2]})
        # R14.4 loop bound
        D_terms = [canon(("attr", clip, "duration")), canon(("bin", "-", ce, cs))]
        if unbounded:
            ctx.ok("R14.4", site, "unbounded loop governed by the stop conditions")
        else:
            self.check_bound(bound, hop, dur, inc, clip, D_terms, y)
        # R14.5 identifiers
        u = kw.get("uuid")
        ns = ("global", "soundevent.constants:uuid_namespace", "assign")
        good = False
        if u is not None and u[0] == "call" and u[1] == ("ext", "uuid.uuid5") and len(u[2]) == 2 and u[2][0] == ns and u[2][1][0] == "fstr":
            parts = u[2][1][1]
            need = [("attr", clip, "uuid"), got_s, got_e]
            good = all(any(p == n_ for p in parts) for n_ in need)
        rnd = any(x[0] == "call" and x[1][0] == "ext" and x[1][1] in ("uuid.uuid4", "uuid.uuid1", "random.random", "time.time") for x in walk(t))
        if good and not rnd:
            ctx.ok("R14.5", f"{self.file}:{y.lineno} segment_clip", "uuid = uuid5(namespace, f'..{parent uuid}..{start}..{end}..') over the final bounds")
        else:
            ctx.bad("R14.5", self.file, "segment_clip", f"uuid={show(u)[:80] if u else 'default'}",
                    "segment identifiers must be uuid5(uuid_namespace, text containing the parent uuid and the final start and end): "
                    "otherwise ids are not reproducible across calls or collide within one call", y.lineno)

    @staticmethod
    def _end_by_grid(y, L, got_e, clip, dur, hopp, inc):
        """The end of the yielded clip written as a case analysis (None for "does not fit", clip.end for "truncated"): on a grid of
        clips / durations / hops / window numbers, wherever the yield's own condition holds the end must be
        min(start + i * hop + duration, clip.end_time).  True / False, or None when something is not a number there."""
        cs, ce = ("attr", clip, "start_time"), ("attr", clip, "end_time")
        i = ("elem", L.id)
        seen = 0
        for csv, length, hv, dv, iv, incv in itertools.product((0.0, 1.5), (2.0, 2.5), (0.5, 1.0, 3.0), (0.5, 1.0, 2.5, 4.0), range(6), (True, False)):
            cev = csv + length
            env = {cs: csv, ce: cev, ("attr", clip, "duration"): length, dur: dv, hopp: hv, inc: incv, i: iv, ("inloop", L.id): True,
                   ("cmp", "is", hopp, NONE): False, ("cmp", "isnot", hopp, NONE): True,
                   ("cmp", "is", ce, NONE): False, ("cmp", "isnot", ce, NONE): True}
            lv = peval(y.live, env)
            if lv[0] != "const":
                return None
            if not lv[1]:
                continue
            v = peval(got_e, env)
            if v[0] != "const" or isinstance(v[1], bool) or not isinstance(v[1], (int, float)):
                return None
            seen += 1
            if v[1] != min(csv + iv * hv + dv, cev):
                return False
        return True if seen >= 20 else None

    def _float_grid(self, s, L, i, breaks, y, clip, dur, hop, inc, site):
        """The stop / yield conditions evaluated in DOUBLE arithmetic on concrete clips, windows and hops with non-representable
        decimals, against the specification evaluated the same way: start = clip.start + i * hop; stop iff start >= clip.end or
        (start + duration > clip.end and not include_incomplete).  A test that is equal to the specified one in real arithmetic
        but not in doubles ((start + duration) - start < duration) differs on this grid.
        -> True (agrees everywhere) / False (reported) / None (a condition could not be evaluated)."""
        ctx = self.ctx
        cs, ce = ("attr", clip, "start_time"), ("attr", clip, "end_time")
        hop_p = ("param", "hop")
        worst = None
        n = 0
        for csv, cev, dv, hv in ((0.0, 1.0, 0.1, 0.1), (0.0, 1.0, 0.1, 0.05), (0.3, 2.0, 0.2, 0.1), (10.0, 11.0, 0.3, 0.1),
                                 (0.0, 1.0, 0.25, 0.25), (0.0, 10.0, 3.0, 2.0), (1.1, 3.3, 0.7, 0.7), (0.0, 0.5, 1 / 3, 1 / 7)):
            for incv in (False, True):
                stopped_before = False
                for k in range(0, 40):
                    env = {cs: csv, ce: cev, ("attr", clip, "duration"): cev - csv, dur: dv, hop_p: hv, inc: incv, i: k,
                           ("cmp", "is", hop_p, NONE): False, ("cmp", "isnot", hop_p, NONE): True}
                    start = csv + k * hv
                    want_stop = start >= cev or (start + dv > cev and not incv)
                    stop = yld = False
                    for e in breaks + [y]:
                        lv = peval(AND(*[c for c in conjuncts(e.live) if c[0] != "inloop"]), env)
                        if lv[0] != "const":
                            return None
                        if lv[1] and e is not y:
                            stop = True
                        if lv[1] and e is y and not stop:
                            yld = True
                    n += 1
                    if stop != want_stop or yld == want_stop:
                        worst = worst or (csv, cev, dv, hv, incv, k, start, stop, yld, want_stop)
                    if want_stop or stop:
                        break
        if worst is None:
            ctx.ok("R14.3", site, f"stop / yield decisions agree with the specification in double arithmetic on {n} windows with non-representable steps")
            return True
        csv, cev, dv, hv, incv, k, start, stop, yld, want_stop = worst
        ctx.bad("R14.3", self.file, "segment_clip", "stop / yield conditions in double arithmetic",
                f"clip [{csv}, {cev}], duration {dv}, hop {hv}, include_incomplete={incv}: at window {k} (start {start!r}) the loop "
                f"{'stops' if stop else ('yields' if yld else 'skips')} where the specification {'stops' if want_stop else 'yields the window'} "
                f"(start + duration = {start + dv!r} vs clip end {cev}): the test is equal to the specified one in real arithmetic only -- "
                f"in doubles (start + duration) - start is often one ulp below duration, so complete windows are taken for truncated ones",
                y.lineno, witness={"clip": [csv, cev], "duration": dv, "hop": hv, "include_incomplete": incv, "window": k})
        return False

    def _eval_live(self, live, start_t, end_raw, sv, ev_, env):
        """Evaluate a path condition where the (canonical) start and raw end terms take given values."""
        cs_, ce_ = canon(start_t), canon(end_raw)
        inloop = [c for c in conjuncts(live) if c[0] != "inloop"]

        def ev(t):
            if not isinstance(t, tuple) or not t:
                return t
            if isinstance(t[0], str) and t[0] in ("bin", "call", "attr", "sub", "param", "elem", "phi"):
                c = canon(t)
                if c == cs_:
                    return ("const", sv)
                if c == ce_:
                    return ("const", ev_)
                if t[0] == "call" and t[1] == ("builtin", "min") and len(t[2]) == 2:
                    a, b = ev(t[2][0]), ev(t[2][1])
                    return ("call", t[1], (a, b), ())
            if t[0] == "comparison":
                return t
            return tuple(ev(x) if isinstance(x, tuple) else x for x in t)

        res = True
        for c in inloop:
            # guards before the loop (duration/hop positivity) hold on this path
            if not any(x[0] == "elem" or x[0] == "phi" or x == ("param", "include_incomplete") or (x[0] == "attr" and x[2] in ("end_time",)) for x in walk(c)):
                continue
            v = peval(ev(c), env)
            if v[0] != "const":
                return None
            res = res and bool(v[1])
        return res

    def check_bound(self, bound, hop, dur, inc, clip, D_terms, y):
        ctx = self.ctx
        site = f"{self.file}:{y.lineno} segment_clip"
        Dq = None
        cb = canon(bound)

        def strip_int(t):
            while t[0] == "call" and t[1] == ("builtin", "int") and len(t[2]) == 1:
                t = t[2][0]
            return t

        def is_quot(t):
            from sa.canon import lin
            want = [lin(("bin", "/", d, hop)) for d in (("attr", clip, "duration"), ("bin", "-", ("attr", clip, "end_time"), ("attr", clip, "start_time")))]
            return lin(t) in want

        b = strip_int(bound)
        k = 0
        core = b
        if b[0] == "bin" and b[1] == "+" and b[3][0] == "const" and isinstance(b[3][1], int):
            core, k = strip_int(b[2]), b[3][1]
        accepted = None
        if core[0] == "call" and core[1] in (("ext", "math.ceil"), ("ext", "numpy.ceil")) and len(core[2]) == 1 and is_quot(core[2][0]) and k >= 0:
            accepted = f"ceil(D / hop){' + %d' % k if k else ''}"
        if core[0] == "call" and core[1] in (("ext", "math.floor"), ("ext", "numpy.floor")) and len(core[2]) == 1 and is_quot(core[2][0]) and k >= 1:
            accepted = f"floor(D / hop) + {k}"
        if core[0] == "bin" and core[1] == "//" and canon(core[2]) in D_terms and canon(core[3]) == canon(hop) and k >= 1:
            accepted = f"D // hop + {k}"
        if accepted:
            ctx.ok("R14.4", site, f"loop bound {accepted} never cuts the lattice short")
            return
        # grid evaluation of the extracted bound against the needed count
        names = {("attr", clip, "duration"): "D", ("bin", "-", ("attr", clip, "end_time"), ("attr", clip, "start_time")): "D",
                 hop: "hop", dur: "duration", inc: "inc"}
        try:
            fn, src = compile_term(bound, names)
        except Unknown as e:
            ctx.undec("R14.4", site, f"loop bound outside the recognised fragment: {e}")
            return
        worst = None
        n = 0
        for D in GRID:
            for h in GRID:
                for d in GRID[::2]:
                    for iv in (False, True):
                        # needed iterations: i = 0.. while i*h < D and (iv or i*h + d <= D)
                        if iv:
                            need = math.ceil(D / h)
                        else:
                            need = (math.floor((D - d) / h) + 1) if D >= d else 0
                        try:
                            got = fn({"D": float(D), "hop": float(h), "duration": float(d), "inc": iv})
                        except Exception:  # noqa: BLE001
                            ctx.undec("R14.4", site, f"cannot evaluate the extracted bound `{src}`")
                            return
                        n += 1
                        if got < need and (worst is None or (need - got) > worst[0]):
                            worst = (need - got, float(D), float(h), float(d), iv, got, need)
        ctx.extra["bound_grid_points"] = n
        if worst:
            _, D, h, d, iv, got, need = worst
            ctx.bad("R14.4", self.file, "segment_clip", f"for i in range({src})",
                    f"the loop bound `{src}` cuts the lattice short: a clip of length {D} with hop {h}, duration {d}, "
                    f"include_incomplete={iv} needs {need} windows but the loop runs {got} times, so the last window(s) that "
                    f"{'start inside the clip' if iv else 'fit completely'} are never produced", y.lineno,
                    witness={"clip_length": D, "hop": h, "duration": d, "include_incomplete": iv, "iterations": got, "needed": need})
        else:
            ctx.ok("R14.4", site, f"loop bound `{src}` >= needed count on all {n} grid points (finite-grid argument)")


def run(ctx: Ctx):
    ctx.rule("R14.1", "non-positive duration/hop rejected before the loop; hop defaults to duration", 1)
    ctx.rule("R14.2", "start = clip.start + i*hop, end = min(start + duration, clip.end), same recording", 3)
    ctx.rule("R14.3", "stop/skip/yield conditions exactly as specified", 1)
    ctx.rule("R14.4", "iteration bound never cuts the lattice short", 1)
    ctx.rule("R14.5", "identifiers are a pure function of (parent id, start, end)", 1)
    C14(ctx).run()
    return EXPLANATION, ASSUMPTIONS
