"""C13 -- grouping returns the connected components of the similarity graph (R13.1 - R13.3)."""

from __future__ import annotations

from sa.report import Ctx
from sa.sym import callkw, FALSE, NONE, NOT, Summary, conjuncts, show, walk

OPS = "soundevent.geometry.operations"

EXPLANATION = (
    "Static decision of the structural clauses of group_sound_events: R13.1 the adjacency is built from all unordered "
    "pairs of distinct inputs (combinations(enumerate(events), 2)), every positive comparison records both (i, j) and "
    "(j, i) with matching value counts, and the matrix is square of size len(events); R13.2 the comparison function has "
    "exactly one call site, whose arguments are the two elements of the pair; R13.3 the labels come from "
    "connected_components of that matrix with weak/undirected connectivity, and every event is appended exactly once, "
    "in input order, to the sequence of its label; the result is the list of those sequences. scipy's component "
    "labelling (and the empty-input case, which depends on scipy accepting a 0x0 matrix) is trusted / not decided."
)
ASSUMPTIONS = ["scipy.sparse.csgraph.connected_components labels the weakly connected components of the given matrix (trusted)"]


class C13:
    def __init__(self, ctx: Ctx):
        self.ctx = ctx
        self.file = ctx.index.module(OPS).relpath

    def check_matrix(self):
        ctx = self.ctx
        s = ctx.summ.of_func(OPS, "_compute_similarity_matrix")
        site = f"{self.file}:{s.node.lineno} _compute_similarity_matrix"
        ev, fn = ("param", s.params[0]), ("param", s.params[1])
        loops = [l for l in s.loops.values() if l.kind == "for"]
        comb = ("call", ("ext", "itertools.combinations"), (("call", ("builtin", "enumerate"), (ev,), ()), ("const", 2)), ())
        if len(loops) != 1 or loops[0].iter != comb or loops[0].conds:
            ctx.bad("R13.1", self.file, "_compute_similarity_matrix", f"for ... in {show(loops[0].iter)[:60] if loops else '-'}",
                    "the pair loop must run over combinations(enumerate(sound_events), 2): all unordered pairs of distinct events, "
                    "once each (product/permutations would compare an event with itself or each pair twice)", s.node.lineno)
            return
        ctx.ok("R13.1", site, "pairs = combinations(enumerate(sound_events), 2)")
        L = loops[0]
        e = ("elem", L.id)
        i1, x1 = ("sub", ("sub", e, ("const", 0)), ("const", 0)), ("sub", ("sub", e, ("const", 0)), ("const", 1))
        i2, x2 = ("sub", ("sub", e, ("const", 1)), ("const", 0)), ("sub", ("sub", e, ("const", 1)), ("const", 1))
        # R13.2 single call site
        calls = [c for c in s.calls if c.term[1] == fn]
        if len(calls) == 1 and set(calls[0].term[2]) == {x1, x2} and len(calls[0].term[2]) == 2 and not calls[0].term[3] \
                and all(c[0] == "inloop" for c in conjuncts(calls[0].live)):
            ctx.ok("R13.2", f"{self.file}:{calls[0].lineno} _compute_similarity_matrix", "comparison_fn called once per pair, on the two distinct elements")
        else:
            ctx.bad("R13.2", self.file, "_compute_similarity_matrix", f"comparison_fn call sites: {[show(c.term)[:50] for c in calls]}",
                    "the comparison function must be called exactly once per unordered pair, on the two (distinct) events of the pair",
                    calls[0].lineno if calls else s.node.lineno)
            return
        cond = calls[0].term
        exts = [c for c in s.calls if c.term[1][0] == "attr" and c.term[1][2] in ("extend", "append") and L.id in c.loops]
        lists = {}
        for c in exts:
            recv = c.term[1][1]
            arg = c.term[2][0] if c.term[2] else None
            pos = [x for x in conjuncts(c.live) if x[0] != "inloop"]
            if pos != [cond] and pos != [NOT(NOT(cond))]:
                ctx.bad("R13.1", self.file, "_compute_similarity_matrix", f"{show(c.term)[:50]} under {show(c.live)[:40]}",
                        "an adjacency entry is recorded under a condition other than `comparison_fn(a, b)` being true", c.lineno)
                return
            items = list(arg[1]) if arg is not None and arg[0] in ("list", "tuple") and c.term[1][2] == "extend" else [arg]
            lists.setdefault(recv, []).extend(items)
        coo = [c for c in s.calls if c.term[1][0] == "ext" and c.term[1][1].split(".")[-1] in ("coo_array", "coo_matrix", "csr_array", "csr_matrix")]
        if len(coo) != 1 or not coo[0].term[2]:
            ctx.undec("R13.1", site, "sparse matrix construction not found")
            return
        arg0 = coo[0].term[2][0]
        if not (arg0[0] == "tuple" and len(arg0[1]) == 2 and arg0[1][1][0] == "tuple" and len(arg0[1][1][1]) == 2):
            ctx.undec("R13.1", site, f"matrix data is not (values, (rows, cols)): {show(arg0)[:60]}")
            return
        vals, (a, b) = arg0[1][0], arg0[1][1][1]
        la, lb, lv = lists.get(a, []), lists.get(b, []), lists.get(vals, [])
        sym = len(la) == len(lb) == len(lv) and len(la) > 0 and sorted(zip(la, lb), key=repr) == sorted(zip(lb, la), key=repr) \
            and set(la) == {i1, i2} and len(set(map(repr, lv))) == 1
        if sym:
            ctx.ok("R13.1", f"{self.file}:{coo[0].lineno} _compute_similarity_matrix", "both (i, j) and (j, i) recorded for every similar pair")
        else:
            ctx.bad("R13.1", self.file, "_compute_similarity_matrix", f"index lists {[show(x)[:14] for x in la]} / {[show(x)[:14] for x in lb]}",
                    "the adjacency is not filled symmetrically from the pair's own indices ((i, j) and (j, i), one value each): a one-directional "
                    "or misaligned entry makes the grouping depend on the input order / miss links", coo[0].lineno)
        shape = callkw(coo[0].term).get("shape")
        n = ("call", ("builtin", "len"), (ev,), ())
        if shape == ("tuple", (n, n)):
            ctx.ok("R13.1", f"{self.file}:{coo[0].lineno} _compute_similarity_matrix", "shape = (len(events), len(events))")
        else:
            ctx.bad("R13.1", self.file, "_compute_similarity_matrix", f"shape={show(shape)[:50] if shape else '-'}",
                    "the matrix must be square of size len(sound_events) (isolated events at the end would otherwise get no label)", coo[0].lineno)

    def check_grouping(self):
        ctx = self.ctx
        s = ctx.summ.of_func(OPS, "group_sound_events")
        site = f"{self.file}:{s.node.lineno} group_sound_events"
        ev, fn = ("param", s.params[0]), ("param", s.params[1])
        mat = ("call", ("global", f"{OPS}:_compute_similarity_matrix", "func"), (ev, fn), ())
        cc = [c for c in s.calls if c.term[1][0] == "ext" and c.term[1][1].endswith("connected_components")]
        if len(cc) != 1:
            ctx.undec("R13.3", site, "connected_components call not found")
            return
        t = cc[0].term
        kw = callkw(t)
        okc = t[2][:1] == (mat,) and kw.get("connection", ("const", "weak")) == ("const", "weak") and len(t[2]) == 1 \
            and set(kw) <= {"directed", "connection", "return_labels"} and kw.get("return_labels", ("const", True)) == ("const", True)
        if okc:
            ctx.ok("R13.3", f"{self.file}:{cc[0].lineno} group_sound_events", "labels = connected_components(similarity matrix) (weak connectivity)")
        else:
            ctx.bad("R13.3", self.file, "group_sound_events", f"connected_components({show(t)[:70]})",
                    "connected_components must label the matrix built from (sound_events, comparison_fn) with weak connectivity "
                    "(strong connectivity on a directed reading splits chains)", cc[0].lineno)
        labels = ("sub", t, ("const", 1))
        loops = [l for l in s.loops.values() if l.kind == "for"]
        z = ("call", ("builtin", "zip"), (ev, labels), ())
        if len(loops) != 1 or loops[0].iter != z or loops[0].conds:
            ctx.bad("R13.3", self.file, "group_sound_events", f"for ... in {show(loops[0].iter)[:60] if loops else '-'}",
                    "events must be distributed by iterating zip(sound_events, labels) in input order, unfiltered", s.node.lineno)
            return
        L = loops[0]
        e = ("elem", L.id)
        se, lab = ("sub", e, ("const", 0)), ("sub", e, ("const", 1))
        apps = [c for c in s.calls if c.term[1][0] == "attr" and c.term[1][2] == "append" and L.id in c.loops]
        dd = None
        okapp = False
        if len(apps) == 1 and apps[0].term[2] == (se,) and all(c[0] == "inloop" for c in conjuncts(apps[0].live)):
            recv = apps[0].term[1][1]
            if recv[0] == "attr" and recv[2] == "sound_events" and recv[1][0] == "sub" and recv[1][2] == lab:
                dd = recv[1][1]
                okapp = True
            elif recv[0] == "attr" and recv[2] == "sound_events" and recv[1][0] == "call" and recv[1][1][0] == "attr" and recv[1][1][2] == "setdefault" \
                    and recv[1][2][:1] == (lab,):
                dd = recv[1][1][1]
                okapp = True
        if okapp:
            ctx.ok("R13.3", f"{self.file}:{apps[0].lineno} group_sound_events", "one unconditional append per event into the sequence of its label")
        else:
            ctx.bad("R13.3", self.file, "group_sound_events", f"appends: {[show(a.term)[:60] for a in apps]}",
                    "every event must be appended exactly once, unconditionally, to sequences[label].sound_events (a filter or a second "
                    "append breaks the partition)", apps[0].lineno if apps else s.node.lineno)
            return
        seq_ok = dd == ("call", ("ext", "collections.defaultdict"), (("global", "soundevent.data.sequences:Sequence", "class"),), ()) or \
            (dd is not None and dd[0] == "alloc" and dd[1] == "dict")
        rets = s.returns
        want = ("call", ("builtin", "list"), (("call", ("attr", dd, "values"), (), ()),), ())
        if seq_ok and len(rets) == 1 and rets[0].term == want:
            ctx.ok("R13.3", site, "returns list(sequences.values()) of a fresh per-label table")
        else:
            ctx.bad("R13.3", self.file, "group_sound_events", f"return {show(rets[0].term)[:60] if rets else '-'}",
                    "the result must be list(sequences.values()) of a fresh defaultdict(data.Sequence) filled by the loop", s.node.lineno)


def run(ctx: Ctx):
    ctx.rule("R13.1", "adjacency from all unordered pairs, symmetric fill, square shape", 3)
    ctx.rule("R13.2", "comparison function called once per pair on the two elements", 1)
    ctx.rule("R13.3", "weak components of that matrix; one append per event in input order", 3)
    c = C13(ctx)
    c.check_matrix()
    c.check_grouping()
    return EXPLANATION, ASSUMPTIONS
