"""C13 -- grouping returns the connected components of the similarity graph (R13.1 - R13.3)."""

from __future__ import annotations

from sa.report import Ctx
from sa.sym import callkw, FALSE, NONE, NOT, Summary, conjuncts, show, walk, subst

OPS = "soundevent.geometry.operations"

EXPLANATION = (
    "Static decision of the structural clauses of group_sound_events: R13.1 the adjacency is built from all unordered "
    "pairs of distinct inputs (combinations(enumerate(events), 2)), every positive comparison records both (i, j) and "
    "(j, i) with matching value counts, and the matrix is square of size len(events); R13.2 the comparison function has "
    "exactly one call site, whose arguments are the two elements of the pair; R13.3 the labels come from "
    "connected_components of that matrix with weak/undirected connectivity, and every event is appended exactly once, "
    "in input order, to the sequence of its label; the result is the list of those sequences. scipy's component "
    "labelling (and the empty-input case, which depends on scipy accepting a 0x0 matrix) is trusted / not decided."
    'R13.3 also reads the two-stage form (one plain list per label created on first sight, wrapped into sequences afterwards). '
)
ASSUMPTIONS = ["scipy.sparse.csgraph.connected_components labels the weakly connected components of the given matrix (trusted)"]


class C13:
    def __init__(self, ctx: Ctx):
        self.ctx = ctx
        self.file = ctx.index.module(OPS).relpath

    def check_matrix(self):
        ctx = self.ctx
        from .common import helper_or_caller
        s, written_out = helper_or_caller(ctx, OPS, "_compute_similarity_matrix")
        site = f"{self.file}:{s.node.lineno} {'group_sound_events (helper written out)' if written_out else '_compute_similarity_matrix'}"
        ev, fn = ("param", s.params[0]), ("param", s.params[1])
        comb = ("call", ("ext", "itertools.combinations"), (("call", ("builtin", "enumerate"), (ev,), ()), ("const", 2)), ())
        I1, X1, I2, X2 = ("var", "i1"), ("var", "x1"), ("var", "i2"), ("var", "x2")

        def canon_pair(t, lid):
            """the pair loop's element in canonical variables: ((i1, x1), (i2, x2))"""
            e = ("elem", lid)
            return subst(t, {("sub", ("sub", e, ("const", 0)), ("const", 0)): I1, ("sub", ("sub", e, ("const", 0)), ("const", 1)): X1,
                             ("sub", ("sub", e, ("const", 1)), ("const", 0)): I2, ("sub", ("sub", e, ("const", 1)), ("const", 1)): X2})

        # every loop / generator that enumerates pairs must be the unfiltered-by-anything-else combinations(enumerate(events), 2)
        pair_loops = [l for l in s.loops.values() if (l.iter[0] == "call" and l.iter[1][0] == "ext" and l.iter[1][1].startswith("itertools."))
                      or l.iter == ev or (l.iter[0] == "call" and l.iter[1] in (("builtin", "enumerate"), ("builtin", "range"))
                                          and any(x == ev for x in walk(l.iter)))]
        wrong = [l for l in pair_loops if l.iter != comb]
        if not pair_loops:
            ctx.undec("R13.1", site, "no loop over the pairs of sound events found in the matrix construction")
            return
        if wrong:
            l = (wrong or [None])[0]
            ctx.bad("R13.1", self.file, "_compute_similarity_matrix", f"for ... in {show(l.iter)[:60] if l else '-'}",
                    "the pair loop must run over combinations(enumerate(sound_events), 2): all unordered pairs of distinct events, "
                    "once each (product/permutations would compare an event with itself or each pair twice)", s.node.lineno)
            return
        ctx.ok("R13.1", site, "pairs = combinations(enumerate(sound_events), 2)")
        # R13.2 single call site of the comparison function, on the pair's two elements, for every pair
        calls = [c for c in s.calls if c.term[1] == fn]
        good_call = False
        if len(calls) == 1 and calls[0].loops and s.loops[calls[0].loops[-1]].iter == comb:
            lid = calls[0].loops[-1]
            args = canon_pair(calls[0].term, lid)[2]
            good_call = set(args) == {X1, X2} and len(args) == 2 and not calls[0].term[3] \
                and all(c[0] == "inloop" for c in conjuncts(calls[0].live)) and len(calls[0].loops) == 1
        if good_call:
            ctx.ok("R13.2", f"{self.file}:{calls[0].lineno} _compute_similarity_matrix", "comparison_fn called once per pair, on the two distinct elements")
        else:
            ctx.bad("R13.2", self.file, "_compute_similarity_matrix", f"comparison_fn call sites: {[show(c.term)[:50] for c in calls]}",
                    "the comparison function must be called exactly once per unordered pair, on the two (distinct) events of the pair",
                    calls[0].lineno if calls else s.node.lineno)
            return
        COND = canon_pair(calls[0].term, calls[0].loops[-1])

        def perpair(t, depth=0):
            """What one similar pair contributes to the list `t`: a list of canonical item terms, or
            ('uniform', c, list whose length it copies); None when the list is not built per similar pair."""
            if depth > 4:
                return None
            if t[0] == "alloc":
                muts = [c for c in s.calls if c.term[1][0] == "attr" and c.term[1][1] == t and c.term[1][2] in ("append", "extend", "insert", "pop", "remove", "clear", "sort", "reverse")]
                stores = [e_ for e_ in s.events if e_.kind in ("store", "delete") and any(x == t for x in walk(e_.term))]
                if not muts or stores:
                    return None
                items = []
                for c in muts:
                    if c.term[1][2] not in ("append", "extend") or len(c.term[2]) != 1 or len(c.loops) != 1 or s.loops[c.loops[0]].iter != comb:
                        return None
                    lid = c.loops[0]
                    pos = [canon_pair(x, lid) for x in conjuncts(c.live) if x[0] != "inloop"]
                    if pos != [COND]:
                        return ("badcond", c)
                    arg = canon_pair(c.term[2][0], lid)
                    if c.term[1][2] == "extend":
                        if arg[0] not in ("list", "tuple"):
                            return None
                        items += list(arg[1])
                    else:
                        items.append(arg)
                return items
            if t[0] == "comp" and t[1] == "list":
                gens = t[3]
                lid0, it0, conds0 = gens[0]
                if it0 == comb:
                    if [canon_pair(c, lid0) for c in conds0] != [COND]:
                        return ("badcond", None)
                    if len(gens) == 1:
                        return [canon_pair(t[2], lid0)]
                    base_items = [canon_pair(("elem", lid0), lid0)]
                    rest = gens[1:]
                    outer_el = ("elem", lid0)
                else:
                    inner = perpair(it0, depth + 1)
                    if not isinstance(inner, list) or conds0:
                        return inner if isinstance(inner, tuple) else None
                    if len(gens) == 1:
                        return [subst(t[2], {("elem", lid0): it_}) for it_ in inner]
                    base_items = inner
                    rest = gens[1:]
                    outer_el = ("elem", lid0)
                if len(rest) != 1 or rest[0][2]:
                    return None
                lid1, it1, _ = rest[0]
                rev = False
                if it1[0] == "call" and it1[1] == ("builtin", "reversed") and it1[2] == (outer_el,):
                    rev = True
                elif it1 != outer_el:
                    return None
                out = []
                for bi in base_items:
                    if bi[0] not in ("tuple", "list"):
                        return None
                    comps = list(bi[1])[::-1] if rev else list(bi[1])
                    out += [subst(t[2], {("elem", lid1): c_, outer_el: bi}) for c_ in comps]
                return out
            if t[0] == "call" and t[1] in (("ext", "numpy.concatenate"), ("ext", "numpy.hstack")) and len(t[2]) == 1 and not t[3] \
                    and t[2][0][0] in ("list", "tuple") and t[2][0][1]:
                # the mirrored edge list: blocks are columns of ONE (k, 2) integer array of per-pair tuples; position p of every
                # block belongs to pair p, so per pair the list receives one component per block, in block order
                items = []
                base = None
                for blk in t[2][0][1]:
                    if blk[0] == "sub" and blk[2][0] == "const" and blk[2][1] in (0, 1) and blk[1][0] == "attr" and blk[1][2] == "T":
                        blk = ("sub", blk[1][1], ("tuple", (("slice", NONE, NONE, NONE), blk[2])))  # E.T[k] is E[:, k]
                    if not (blk[0] == "sub" and blk[2][0] == "tuple" and len(blk[2][1]) == 2 and blk[2][1][0] == ("slice", NONE, NONE, NONE)
                            and blk[2][1][1][0] == "const" and blk[2][1][1][1] in (0, 1)):
                        return None
                    E = blk[1]
                    if E[0] == "call" and E[1][0] == "attr" and E[1][2] == "reshape" and E[2] == (("const", -1), ("const", 2)) and not E[3]:
                        E = E[1][1]
                    if not (E[0] == "call" and E[1] in (("ext", "numpy.array"), ("ext", "numpy.asarray")) and len(E[2]) == 1):
                        return None
                    dt = callkw(E).get("dtype")
                    if dt is not None and dt not in (("ext", "numpy.intp"), ("ext", "numpy.int64"), ("ext", "numpy.int32"), ("builtin", "int"), ("const", "int64"), ("const", "intp"), ("const", "int")):
                        return None
                    if base is not None and E != base:
                        return None
                    base = E
                    inner = perpair(E[2][0], depth + 1)
                    if not isinstance(inner, list):
                        return inner if isinstance(inner, tuple) else None
                    if len(inner) != 1 or inner[0][0] != "tuple" or len(inner[0][1]) != 2:
                        return None
                    items.append(inner[0][1][blk[2][1][1][1]])
                return ("blocks", items, base)
            if t[0] == "call" and t[1] == ("ext", "numpy.ones") and t[2] and t[2][0][0] == "call" and t[2][0][1] == ("builtin", "len") and len(t[2][0][2]) == 1:
                return ("uniform", ("const", 1), t[2][0][2][0])
            if t[0] == "bin" and t[1] == "*":
                for lst, n in ((t[2], t[3]), (t[3], t[2])):
                    if lst[0] == "list" and len(lst[1]) == 1 and n[0] == "call" and n[1] == ("builtin", "len") and len(n[2]) == 1:
                        return ("uniform", lst[1][0], n[2][0])
            return None

        coo = [c for c in s.calls if c.term[1][0] == "ext" and c.term[1][1].split(".")[-1] in ("coo_array", "coo_matrix", "csr_array", "csr_matrix")]
        n_ = ("call", ("builtin", "len"), (ev,), ())
        empties = [c for c in coo if c.term[2] and c.term[2][0] == ("tuple", (n_, n_))]
        if len(coo) == 2 and len(empties) == 1:
            # `if not pairs: return <empty (n, n) matrix>`: no pair, no entry -- the same matrix the general construction gives
            e0 = empties[0]
            cj = [c for c in conjuncts(e0.live) if c[0] != "inloop"]
            pl = perpair(cj[0][1]) if len(cj) == 1 and cj[0][0] == "not" else None
            if isinstance(pl, list) and any(r.term == e0.term for r in s.returns):
                coo = [c for c in coo if c is not e0]
        dense = None
        if len(coo) == 1 and coo[0].term[2] and coo[0].term[2][0][0] == "call" and coo[0].term[2][0][1] == ("ext", "numpy.zeros"):
            dense = coo[0].term[2][0]
        if dense is not None:
            # a dense (n, n) matrix of zeros with M[i, j] = M[j, i] = <true> stored per similar pair
            shp = callkw(dense).get("shape", dense[2][0] if dense[2] else None)
            stores = [e_ for e_ in s.of("store") if e_.term[1][0] == "sub" and e_.term[1][1] == dense]
            cells = []
            okd = shp == ("tuple", (n_, n_)) and bool(stores)
            for e_ in stores:
                idx = e_.term[1][2]
                lp = s.loops.get(e_.loops[-1]) if e_.loops else None
                if lp is not None and lp.iter == comb and idx[0] == "tuple" and len(idx[1]) == 2 and len(e_.loops) == 1 \
                        and e_.term[2] in (("const", True), ("const", 1)):
                    # the pair loop itself (a comprehension of the similar pairs consumed on the spot is the same loop)
                    if [canon_pair(c, lp.id) for c in conjuncts(e_.live) if c[0] != "inloop"] != [COND]:
                        ctx.bad("R13.1", self.file, "_compute_similarity_matrix", f"{show(e_.term)[:50]}",
                                "an adjacency entry is recorded under a condition other than `comparison_fn(a, b)` being true", e_.lineno)
                        return
                    cells.append((canon_pair(idx[1][0], lp.id), canon_pair(idx[1][1], lp.id)))
                    items = None
                    continue
                items = perpair(lp.iter) if lp is not None else None
                if idx[0] != "tuple" or len(idx[1]) != 2 or not isinstance(items, list) or len(items) != 1 or items[0][0] != "tuple" or len(e_.loops) != 1 \
                        or e_.term[2] not in (("const", True), ("const", 1)) or any(c[0] != "inloop" for c in conjuncts(e_.live)):
                    okd = False
                    break
                el = ("elem", lp.id)
                mp = {("sub", el, ("const", 0)): items[0][1][0], ("sub", el, ("const", 1)): items[0][1][1]}
                cells.append((subst(idx[1][0], mp), subst(idx[1][1], mp)))
            if stores and isinstance(items, tuple) and items and items[0] == "badcond":
                ctx.bad("R13.1", self.file, "_compute_similarity_matrix", "comprehension filter",
                        "an adjacency entry is recorded under a condition other than `comparison_fn(a, b)` being true", s.node.lineno)
                return
            if okd and set(cells) == {(I1, I2), (I2, I1)} and len(cells) == 2:
                ctx.ok("R13.1", f"{self.file}:{coo[0].lineno} _compute_similarity_matrix", "both (i, j) and (j, i) recorded for every similar pair")
                ctx.ok("R13.1", f"{self.file}:{coo[0].lineno} _compute_similarity_matrix", "shape = (len(events), len(events))")
            elif okd:
                ctx.bad("R13.1", self.file, "_compute_similarity_matrix", f"cells {[(show(a)[:10], show(b)[:10]) for a, b in cells]}",
                        "the adjacency is not filled symmetrically from the pair's own indices ((i, j) and (j, i)): a one-directional "
                        "or misaligned entry makes the grouping depend on the input order / miss links", coo[0].lineno)
            else:
                ctx.undec("R13.1", site, "dense adjacency matrix filled in a form the rule does not read")
            return
        if len(coo) != 1 or not coo[0].term[2]:
            ctx.undec("R13.1", site, "sparse matrix construction not found")
            return
        arg0 = coo[0].term[2][0]
        if not (arg0[0] == "tuple" and len(arg0[1]) == 2 and arg0[1][1][0] == "tuple" and len(arg0[1][1][1]) == 2):
            ctx.undec("R13.1", site, f"matrix data is not (values, (rows, cols)): {show(arg0)[:60]}")
            return
        vals, (a, b) = arg0[1][0], arg0[1][1][1]
        la, lb, lv = perpair(a), perpair(b), perpair(vals)
        for x in (la, lb, lv):
            if isinstance(x, tuple) and x and x[0] == "badcond":
                c = x[1]
                ctx.bad("R13.1", self.file, "_compute_similarity_matrix", f"{show(c.term)[:50] if c else 'comprehension filter'}",
                        "an adjacency entry is recorded under a condition other than `comparison_fn(a, b)` being true", c.lineno if c else s.node.lineno)
                return
        if isinstance(la, tuple) and la and la[0] == "blocks" and isinstance(lb, tuple) and lb and lb[0] == "blocks" and la[2] == lb[2] \
                and len(la[1]) == len(lb[1]):
            la, lb = la[1], lb[1]  # both index vectors are cut from the same edge array, block by block: entries align
        if not isinstance(la, list) or not isinstance(lb, list) or lv is None:
            ctx.undec("R13.1", site, "cannot tell what one similar pair contributes to the index / value lists")
            return
        if isinstance(lv, tuple) and lv[0] == "uniform":
            vals_ok = lv[2] in (a, b)
        else:
            vals_ok = len(lv) == len(la) and len(set(map(repr, lv))) == 1
        # the entries recorded for one similar pair are exactly the two off-diagonal cells (i, j) and (j, i)
        sym = len(la) == len(lb) and len(la) > 0 and set(zip(la, lb)) == {(I1, I2), (I2, I1)} \
            and sorted(zip(la, lb), key=repr) == sorted(zip(lb, la), key=repr) and vals_ok
        if sym:
            ctx.ok("R13.1", f"{self.file}:{coo[0].lineno} _compute_similarity_matrix", "both (i, j) and (j, i) recorded for every similar pair")
        else:
            ctx.bad("R13.1", self.file, "_compute_similarity_matrix", f"index lists {[show(x)[:14] for x in la]} / {[show(x)[:14] for x in lb]}",
                    "the adjacency is not filled symmetrically from the pair's own indices ((i, j) and (j, i), one value each): a one-directional "
                    "or misaligned entry makes the grouping depend on the input order / miss links", coo[0].lineno)
        shape = callkw(coo[0].term).get("shape")
        if shape is None and len(coo[0].term[2]) > 1:
            shape = coo[0].term[2][1]
        n = ("call", ("builtin", "len"), (ev,), ())
        if shape == ("tuple", (n, n)):
            ctx.ok("R13.1", f"{self.file}:{coo[0].lineno} _compute_similarity_matrix", "shape = (len(events), len(events))")
        else:
            ctx.bad("R13.1", self.file, "_compute_similarity_matrix", f"shape={show(shape)[:50] if shape else '-'}",
                    "the matrix must be square of size len(sound_events) (isolated events at the end would otherwise get no label)", coo[0].lineno)

    def check_grouping(self):
        ctx = self.ctx
        s = ctx.summ.of_func(OPS, "group_sound_events")
        site = f"{self.file}:{s.node.lineno} group_sound_events"
        ev, fn = ("param", s.params[0]), ("param", s.params[1])
        mat = ctx.normcalls(("call", ("global", f"{OPS}:_compute_similarity_matrix", "func"), (ev, fn), ()))
        from .common import helper_or_caller
        _, written_out = helper_or_caller(ctx, OPS, "_compute_similarity_matrix")
        if written_out:
            # the matrix helper is written out here: the matrix is the sparse array built from the pair loop (check_matrix decided it)
            built = [c.term for c in s.calls if c.term[1][0] == "ext" and c.term[1][1].split(".")[-1] in ("coo_array", "coo_matrix", "csr_array", "csr_matrix")]
            if len(built) == 1:
                mat = ctx.normcalls(built[0])
        cc = [c for c in s.calls if c.term[1][0] == "ext" and c.term[1][1].endswith("connected_components")]
        if len(cc) != 1:
            ctx.undec("R13.3", site, "connected_components call not found")
            return
        t = cc[0].term
        kw = callkw(t)
        graph = t[2][0] if t[2] else kw.get("csgraph")
        okc = graph is not None and ctx.normcalls(graph) == mat and kw.get("connection", ("const", "weak")) == ("const", "weak") and len(t[2]) <= 1 \
            and set(kw) <= {"csgraph", "directed", "connection", "return_labels"} and kw.get("return_labels", ("const", True)) == ("const", True)
        if okc:
            ctx.ok("R13.3", f"{self.file}:{cc[0].lineno} group_sound_events", "labels = connected_components(similarity matrix) (weak connectivity)")
        else:
            ctx.bad("R13.3", self.file, "group_sound_events", f"connected_components({show(t)[:70]})",
                    "connected_components must label the matrix built from (sound_events, comparison_fn) with weak connectivity "
                    "(strong connectivity on a directed reading splits chains)", cc[0].lineno)
        labels = ("sub", t, ("const", 1))
        loops = [l for l in s.loops.values() if l.kind == "for"]
        if written_out:
            loops = [l for l in loops if not (l.iter[0] == "call" and l.iter[1] == ("ext", "itertools.combinations"))]
        z = ("call", ("builtin", "zip"), (ev, labels), ())
        # the distributing loop is the one that reads the events / the labels; a later loop over the collected per-label lists
        # (second stage) is looked at where the result is decided
        loops = [l for l in loops if any(x in (ev, labels) for x in walk(l.iter))]

        def unwrap_labels(it):
            """zip(events, labels) with the label array possibly converted to a list / tuple first"""
            if it[0] == "call" and it[1] == ("builtin", "zip") and len(it[2]) == 2 and not it[3]:
                b = it[2][1]
                while True:
                    if b[0] == "call" and b[1][0] == "attr" and b[1][2] == "tolist" and not b[2] and not b[3]:
                        b = b[1][1]
                    elif b[0] == "call" and b[1] in (("builtin", "list"), ("builtin", "tuple"), ("ext", "numpy.asarray"), ("ext", "numpy.array")) \
                            and len(b[2]) == 1 and not b[3]:
                        b = b[2][0]
                    else:
                        break
                return ("call", it[1], (it[2][0], b), ())
            return it
        z2 = ("call", ("builtin", "zip"), (labels, ev), ())

        def unwrap2(it):
            if it[0] == "call" and it[1] == ("builtin", "zip") and len(it[2]) == 2 and not it[3]:
                sw = unwrap_labels(("call", it[1], (it[2][1], it[2][0]), ()))
                return ("call", it[1], (sw[2][1], sw[2][0]), ())
            return it
        swapped = len(loops) == 1 and unwrap2(loops[0].iter) == z2 and not loops[0].conds
        if len(loops) == 1 and loops[0].conds and unwrap_labels(loops[0].iter) in (z,) :
            ctx.bad("R13.3", self.file, "group_sound_events", f"for ... in {show(loops[0].iter)[:60]} if {show(loops[0].conds[0])[:40]}",
                    "events must be distributed by iterating zip(sound_events, labels) in input order, unfiltered", s.node.lineno)
            return
        if len(loops) == 1 and loops[0].iter[0] == "call" and loops[0].iter[1] == ("ext", "itertools.groupby") and self.groupby_form(s, loops[0], ev, labels, unwrap_labels, site):
            return
        if not swapped and (len(loops) != 1 or unwrap_labels(loops[0].iter) != z or loops[0].conds):
            other_form = len(loops) == 1 and loops[0].iter[0] == "call" and loops[0].iter[1] not in (("builtin", "zip"), ("ext", "itertools.groupby"), ("builtin", "enumerate"))
            if other_form:
                ctx.undec("R13.3", site, f"the events are not distributed by one loop over zip(sound_events, labels): {show(loops[0].iter)[:70]}")
            else:
                ctx.bad("R13.3", self.file, "group_sound_events", f"for ... in {show(loops[0].iter)[:60] if loops else '-'}",
                        "events must be distributed by iterating zip(sound_events, labels) in input order, unfiltered", s.node.lineno)
            return
        L = loops[0]
        e = ("elem", L.id)
        se, lab = (("sub", e, ("const", 1)), ("sub", e, ("const", 0))) if swapped else (("sub", e, ("const", 0)), ("sub", e, ("const", 1)))
        # the label read as a plain int (int(label) / label.item()) names the same component: equal labels stay equal, distinct stay distinct
        plain = {("call", ("builtin", "int"), (lab,), ()): lab, ("call", ("attr", lab, "item"), (), ()): lab}
        apps = [c for c in s.calls if c.term[1][0] == "attr" and c.term[1][2] == "append" and L.id in c.loops]
        if any(k_ in set(walk(c.term)) for c in apps for k_ in plain):
            import dataclasses
            apps = [dataclasses.replace(c, term=subst(c.term, plain)) for c in apps]
        dd = None
        okapp = False
        nonempty_ = (("cmp", "ne", ("call", ("builtin", "len"), (ev,), ()), ("const", 0)), ("cmp", "lt", ("const", 0), ("call", ("builtin", "len"), (ev,), ())), ev,
                     ("cmp", "ne", ("const", 0), ("call", ("builtin", "len"), (ev,), ())))
        if any(c in nonempty_ for a_ in apps for c in conjuncts(a_.live)):
            # behind `if len(sound_events) == 0: return []`: for a non-empty input the append is unconditional
            import dataclasses as _dc
            from sa.sym import AND as _AND3
            apps = [_dc.replace(a_, live=_AND3(*[c for c in conjuncts(a_.live) if c not in nonempty_])) for a_ in apps]
        if len(apps) == 1 and apps[0].term[2] == (se,) and all(c[0] == "inloop" for c in conjuncts(apps[0].live)):
            recv = apps[0].term[1][1]
            if recv[0] == "attr" and recv[2] == "sound_events" and recv[1][0] == "sub" and recv[1][2] == lab:
                dd = recv[1][1]
                okapp = True
            elif recv[0] == "attr" and recv[2] == "sound_events" and recv[1][0] == "call" and recv[1][1][0] == "attr" and recv[1][1][2] == "setdefault" \
                    and recv[1][2][:1] == (lab,):
                dd = recv[1][1][1]
                okapp = True
            elif recv[0] == "attr" and recv[2] == "sound_events" and recv[1][0] == "ite":
                # get-or-create: seq = table.get(label); if seq is None: seq = table[label] = Sequence()
                obj = recv[1]
                c, new, old = obj[1], obj[2], obj[3]
                if c[0] == "cmp" and c[1] == "is" and c[3] == NONE and c[2] == old and old[0] == "call" and old[1][0] == "attr" \
                        and old[1][2] == "get" and old[2] in ((lab,), (lab, NONE)):
                    table = old[1][1]
                    sts = [e_ for e_ in s.of("store") if e_.term[1] == ("sub", table, lab) and e_.term[2] == new and c in conjuncts(e_.live)
                           and L.id in e_.loops]
                    if len(sts) == 1 and new[0] == "call" and new[1] == ("global", "soundevent.data.sequences:Sequence", "class") \
                            and not new[2] and not new[3]:
                        dd = table
                        okapp = True
        two_stage = False
        if not okapp and len(apps) == 1 and apps[0].term[2] == (se,) and all(c[0] == "inloop" for c in conjuncts(apps[0].live)):
            # two stages: events are first collected into one plain list per label (created on first sight), the lists are
            # wrapped into sequences afterwards
            recv = apps[0].term[1][1]
            table = None
            if recv[0] == "sub" and recv[2] == lab:
                table = recv[1]
                created = table == ("call", ("ext", "collections.defaultdict"), (("builtin", "list"),), ())
                if not created and table[0] == "alloc" and table[1] == "dict":
                    absent = ("cmp", "notin", lab, table)
                    sts = [e_ for e_ in s.of("store") if e_.term[1] == ("sub", table, lab) and L.id in e_.loops and e_.idx < apps[0].idx]
                    created = len(sts) == 1 and sts[0].term[2] in (("list", ()), ("alloc", "list", sts[0].term[2][2] if len(sts[0].term[2]) > 2 else None)) \
                        and [c for c in conjuncts(sts[0].live) if c[0] != "inloop"] == [absent]
                if created:
                    dd = table
                    okapp = two_stage = True
            elif recv[0] == "call" and recv[1][0] == "attr" and recv[1][2] == "setdefault" and recv[2][:1] == (lab,) and len(recv[2]) == 2 \
                    and recv[2][1][0] in ("list", "alloc") and recv[1][1][0] == "alloc":
                dd = recv[1][1]
                okapp = two_stage = True
        if okapp:
            ctx.ok("R13.3", f"{self.file}:{apps[0].lineno} group_sound_events", "one unconditional append per event into the sequence of its label")
        else:
            ctx.bad("R13.3", self.file, "group_sound_events", f"appends: {[show(a.term)[:60] for a in apps]}",
                    "every event must be appended exactly once, unconditionally, to sequences[label].sound_events (a filter or a second "
                    "append breaks the partition)", apps[0].lineno if apps else s.node.lineno)
            return
        rets = s.returns
        # `if len(sound_events) == 0: return []` in front: no events, no groups -- what the general path returns for them too
        from sa.idioms import guarded_empty as _ge
        empt = [r for r in rets if r.term in (("list", ()),) and len(rets) == 2]
        if empt:
            cj_ = [c for c in conjuncts(empt[0].live) if c[0] != "inloop"]
            if len(cj_) == 1 and cj_[0] in (("cmp", "eq", ("call", ("builtin", "len"), (ev,), ()), ("const", 0)), ("not", ev),
                                            ("cmp", "eq", ("const", 0), ("call", ("builtin", "len"), (ev,), ()))):
                rets = [r for r in rets if r is not empt[0]]
        if two_stage:
            SEQ = ("global", "soundevent.data.sequences:Sequence", "class")
            vals = ("call", ("attr", dd, "values"), (), ())
            good = False
            why = "the per-label lists are not each wrapped into one Sequence holding exactly their events"
            if len(rets) == 1 and rets[0].term[0] == "comp" and rets[0].term[1] == "list" and len(rets[0].term[3]) == 1:
                lid2, it2, conds2 = rets[0].term[3][0]
                el2 = ("elem", lid2)
                elt = rets[0].term[2]
                if it2 in (vals, ("call", ("builtin", "list"), (vals,), ())) and not conds2 and elt[0] == "call" and elt[1] == SEQ:
                    kw2 = callkw(elt)
                    direct = kw2.get("sound_events") in (el2, ("call", ("builtin", "list"), (el2,), ()))
                    fills = [c for c in s.calls if lid2 in c.loops and c.term[1][0] == "attr" and c.term[1][2] in ("extend", "append")
                             and c.term[1][1] == ("attr", elt, "sound_events")]
                    filled = (not elt[2] and not elt[3] and len(fills) == 1 and fills[0].term[1][2] == "extend" and fills[0].term[2] == (el2,)
                              and all(c[0] == "inloop" or c in nonempty_ for c in conjuncts(fills[0].live)))
                    good = (direct and not fills) or filled
            if good:
                ctx.ok("R13.3", site, "returns one Sequence per label list (all its events, in order), in order of first appearance")
            else:
                ctx.bad("R13.3", self.file, "group_sound_events", f"return {show(rets[0].term)[:60] if rets else '-'}", why, s.node.lineno)
            return
        seq_ok = dd == ("call", ("ext", "collections.defaultdict"), (("global", "soundevent.data.sequences:Sequence", "class"),), ()) or \
            (dd is not None and dd[0] == "alloc" and dd[1] == "dict")
        want = ("call", ("builtin", "list"), (("call", ("attr", dd, "values"), (), ()),), ())
        if seq_ok and len(rets) == 1 and rets[0].term == want:
            ctx.ok("R13.3", site, "returns list(sequences.values()) of a fresh per-label table")
        else:
            ctx.bad("R13.3", self.file, "group_sound_events", f"return {show(rets[0].term)[:60] if rets else '-'}",
                    "the result must be list(sequences.values()) of a fresh defaultdict(data.Sequence) filled by the loop", s.node.lineno)


def _groupby_form(self, s, L, ev, labels, unwrap_labels, site) -> bool:
    """`for _, members in groupby(sorted(zip(labels, events), key=<label>), key=<label>)`: one Sequence per run of equal labels holding
    the run's events.  A stable sort by label keeps the input order inside a group and puts the groups in label order (scipy numbers
    the components by their first member); WITHOUT the sort a component whose members are not adjacent in the input is split."""
    ctx = self.ctx
    it = L.iter
    kw = callkw(it)
    X = it[2][0] if it[2] else None
    K = kw.get("key", it[2][1] if len(it[2]) > 1 else None)

    def sel(k):
        if k is not None and k[0] == "call" and k[1] == ("ext", "operator.itemgetter") and len(k[2]) == 1 and k[2][0][0] == "const" and k[2][0][1] in (0, 1):
            return k[2][0][1]
        return None
    i = sel(K)
    if X is None or i is None or L.conds:
        return False
    srt = X[0] == "call" and X[1] == ("builtin", "sorted") and len(X[2]) == 1
    Z = X[2][0] if srt else X
    if Z[0] == "call" and Z[1] in (("builtin", "list"), ("builtin", "tuple")) and len(Z[2]) == 1:
        Z = Z[2][0]
    if not (Z[0] == "call" and Z[1] == ("builtin", "zip") and len(Z[2]) == 2 and not Z[3]):
        if not srt and any(x[0] == "call" and x[1] in (("ext", "numpy.argsort"), ("ext", "numpy.unique")) for x in walk(X)):
            return False  # (an order that is not the stable order of the input: reported by the caller)
        return False
    a, b = Z[2]
    zl = unwrap_labels(("call", Z[1], (b, a), ()))[2][1] if i == 0 else unwrap_labels(Z)[2][1]
    other = b if i == 0 else a
    if zl != labels or other != ev:
        return False
    if not srt:
        ctx.bad("R13.3", self.file, "group_sound_events", f"for ... in groupby({show(Z)[:50]})",
                "groupby makes one group per RUN of equal labels: over the pairs in input order (not sorted by label) a component whose members "
                "are not adjacent in the input is split into several sequences -- events that are linked end up in different sequences",
                getattr(L.node, "lineno", s.node.lineno), witness={"similar": "0~2 only, three events", "observed": "[[0], [1], [2]]", "required": "[[0, 2], [1]]"})
        return True
    sk = callkw(X)
    if sel(sk.get("key")) != i or sk.get("reverse", ("const", False)) != ("const", False):
        ctx.undec("R13.3", site, f"the pairs are sorted by something other than their label: {show(X)[:70]}")
        return True
    SEQ = ("global", "soundevent.data.sequences:Sequence", "class")
    grp = ("sub", ("elem", L.id), ("const", 1))
    ext = [c for c in s.calls if c.term[1][0] == "attr" and c.term[1][2] == "extend" and L.id in c.loops and c.term[1][1][0] == "attr"
           and c.term[1][1][2] == "sound_events" and c.term[1][1][1][0] == "call" and c.term[1][1][1][1] == SEQ]
    good = False
    if len(ext) == 1 and len(ext[0].term[2]) == 1 and all(c[0] == "inloop" for c in conjuncts(ext[0].live)):
        g = ext[0].term[2][0]
        if g[0] == "comp" and len(g[3]) == 1 and g[3][0][1] == grp and not g[3][0][2] and g[2] == ("sub", ("elem", g[3][0][0]), ("const", 1 - i)):
            good = True
    rets = s.returns
    ret_ok = len(rets) == 1 and rets[0].term[0] == "comp" and rets[0].term[1] == "list" and len(rets[0].term[3]) == 1 and rets[0].term[3][0][0] == L.id \
        and rets[0].term[2][0] == "call" and rets[0].term[2][1] == SEQ and not rets[0].term[3][0][2]
    if good and ret_ok:
        ctx.ok("R13.3", site, "pairs sorted by label (stable), one Sequence per run of equal labels holding the run's events")
        ctx.ok("R13.3", site, "returns the sequences in label order (= order of first appearance)")
    else:
        ctx.undec("R13.3", site, "the groups of the label-sorted pairs are not turned into sequences in a form the rule reads")
    return True


C13.groupby_form = _groupby_form


def run(ctx: Ctx):
    ctx.rule("R13.1", "adjacency from all unordered pairs, symmetric fill, square shape", 3)
    ctx.rule("R13.2", "comparison function called once per pair on the two elements", 1)
    ctx.rule("R13.3", "weak components of that matrix; one append per event in input order", 3)
    c = C13(ctx)
    c.check_matrix()
    c.check_grouping()
    return EXPLANATION, ASSUMPTIONS
