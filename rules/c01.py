"""C01 -- AOEF save/load round trip is lossless (structural clauses R01.1 - R01.6)."""

from __future__ import annotations

import ast
from typing import Dict, List, Optional, Tuple

from sa.index import AnalysisError, ClassInfo, dotted_name
from sa.models import shape_str, strip_opt
from sa.report import Ctx
from sa.sym import callkw, expand_pure_calls, fold_sub, FALSE, NONE, NOT, TRUE, Summary, show, subst, walk

from .aoef import AOEF_PKG, Aoef, Collection, Leaf, attr_reads, relfile

EXPLANATION = (
    "Static decision of the structural necessary conditions of the AOEF round trip: R01.1 every declared field "
    "of every data class is read by its writer, supplied by its reader, and every document field is consumed; "
    "R01.2 the field mapping of writer and reader are mutually inverse (no crossed fields); R01.3 every value "
    "the writer elides to None is restored by the reader (container truthiness, value elision), scalar "
    "truthiness elision is a defined bad pattern; R01.4 every store-bearing sub-adapter of a collection adapter "
    "is emitted as a top-level list and every list the reader consumes is produced by the writer; R01.5 the "
    "reader registers top-level lists in dependency (wiring) order; R01.6 the (type name, data class, adapter) "
    "table is most-specific-first and agrees with the discriminated union and DataType; R01.7 the reader rebuilds "
    "each object once per document id and resolves ids from that store, terms are written through key_from_term and "
    "rebuilt through term_from_key (label codec), and the file is dumped with exclude_none only / parsed through "
    "AOEFObject. Value-level fidelity "
    "of pydantic's JSON codec and the n-cycle fixpoint are not decided here."
    'The audio-directory flow rules of C18 (R18.1 / R18.2) are run as necessary conditions of the round trip with an audio directory. '
)
ASSUMPTIONS = [
    "pydantic's JSON codec round-trips float/datetime/Path/UUID values (trusted, not analysed)",
    "model objects (User, Sequence, ...) are truthy; only None is falsy for Optional[model] fields",
    "adapters keep exactly one instance per adapter class in a collection (checked by C02/R02.3)",
]

SCALARS = {"float", "int", "str", "bool"}
ID_KEYS = {"uuid", "id"}


# ------------------------------------------------------------------------------------ partial evaluation

# declared type pairs (data field, document field) that store the same values (one reason each)
SAME_VALUE_TYPES = {
    ("EmailStr", "str"),  # EmailStr is a validated str: the string itself is stored
}


def is_empty_container(t) -> bool:
    from sa.sym import fold_sub as _fs
    t = _fs(t)  # list(map(f, [])) / list(starmap(f, [])) after the None reading was put in: nothing to map
    if t[0] in ("list", "dict", "tuple", "set") and len(t[1]) == 0:
        return True
    if t[0] == "alloc":
        return True
    if t[0] == "call" and t[1] in (("builtin", "list"), ("builtin", "dict"), ("builtin", "tuple"), ("builtin", "set")) \
            and not t[2] and not t[3]:
        return True
    return False


def assume_none(t, x):
    """Simplify term t under the assumption that sub-term x is None."""
    if t == x:
        return NONE
    k = t[0]
    if k == "or":
        vals = [assume_none(v, x) for v in t[1]]
        rest = [v for v in vals if not (v == NONE or v == FALSE or is_empty_container(v))]
        if not rest:
            return vals[-1]
        if rest[0] is vals[0] or len(rest) > 1:
            # first operand truthiness unknown
            return rest[0] if len(rest) == 1 else ("or", tuple(rest))
        return rest[0]
    if k == "and":
        vals = [assume_none(v, x) for v in t[1]]
        for v in vals:
            if v == NONE or v == FALSE:
                return v
        return ("and", tuple(vals))
    if k == "not":
        v = assume_none(t[1], x)
        if v == NONE or v == FALSE or is_empty_container(v):
            return TRUE
        if v == TRUE:
            return FALSE
        return ("not", v)
    if k == "cmp":
        l, r = assume_none(t[2], x), assume_none(t[3], x)
        if t[1] in ("is", "isnot", "eq", "ne") and l == NONE and r == NONE:
            return TRUE if t[1] in ("is", "eq") else FALSE
        if t[1] in ("is", "isnot") and (l == NONE) != (r == NONE):
            other = r if l == NONE else l
            if other[0] == "const":
                return FALSE if t[1] == "is" else TRUE
        if t[1] in ("eq", "ne") and l[0] == "const" and r[0] == "const":
            return ("const", (l[1] == r[1]) if t[1] == "eq" else (l[1] != r[1]))
        return ("cmp", t[1], l, r)
    if k == "ite":
        c = assume_none(t[1], x)
        if c == NONE or c == FALSE or is_empty_container(c):
            return assume_none(t[3], x)
        if c == TRUE or (c[0] == "const" and c[1]):
            return assume_none(t[2], x)
        return ("ite", c, assume_none(t[2], x), assume_none(t[3], x))
    if k == "attr":
        b = assume_none(t[1], x)
        if b == NONE:
            return ("error", f"attribute {t[2]!r} of None")
        if b[0] == "error":
            return b
        return ("attr", b, t[2])
    if k == "sub":
        b = assume_none(t[1], x)
        if b == NONE:
            return ("error", "subscript of None")
        return ("sub", b, assume_none(t[2], x))
    if k == "call":
        f = assume_none(t[1], x)
        if f[0] == "error":
            return f
        args = tuple(assume_none(a, x) for a in t[2])
        kws = tuple((n, assume_none(v, x)) for n, v in t[3])
        if f[0] == "attr" and f[2] in ("items", "values", "keys") and is_empty_container(f[1]) and not args:
            return ("list", ())
        if f in (("builtin", "list"), ("builtin", "tuple"), ("builtin", "sorted")) and len(args) == 1 and is_empty_container(args[0]):
            return ("list", ())
        return ("call", f, args, kws)
    if k == "comp":
        gens = t[3]
        it0 = assume_none(gens[0][1], x)
        if it0 == NONE:
            return ("error", "iteration over None")
        if it0[0] == "error":
            return it0
        if is_empty_container(it0):
            return ("dict", ()) if t[1] == "dict" else ("list", ())
        return t
    if k in ("tuple", "list", "set"):
        return (k, tuple(assume_none(v, x) for v in t[1]))
    return t


def split_ite_none(v):
    """V = ite(c, A, None) | ite(c, None, A) -> (c_keep, A) where c_keep is the condition for keeping A."""
    if v[0] == "or" and len(v[1]) == 2 and v[1][1] == NONE and v[1][0] != NONE:
        return v[1][0], v[1][0]  # `A or None` is `A if A else None`
    if v[0] != "ite":
        return None
    c, a, b = v[1], v[2], v[3]
    if b == NONE and a != NONE:
        return c, a
    if a == NONE and b != NONE:
        return NOT(c), b
    return None


# ------------------------------------------------------------------------------------ the "present" scenario of a reader
def present_truth(c, robj):
    """truth of a reader-side condition when the document is well formed: every document field that is consulted is present and
    truthy, every identifier resolves (from_id(...) is not None).  None: not decided by that."""
    def is_doc(x):
        # a field of the object being converted, or of an element of one of its lists
        while x[0] == "attr":
            x = x[1]
            if x == robj or x[0] == "elem":
                return True
        return False
    def is_lookup(x):
        return x[0] == "call" and x[1][0] == "attr" and x[1][2] in ("from_id", "to_aoef", "to_soundevent")
    if c == TRUE:
        return True
    if c == FALSE:
        return False
    if is_doc(c) or is_lookup(c):
        return True
    if c[0] == "not":
        v = present_truth(c[1], robj)
        return None if v is None else not v
    if c[0] == "and":
        vs = [present_truth(x, robj) for x in c[1]]
        return False if False in vs else (True if all(v is True for v in vs) else None)
    if c[0] == "or":
        vs = [present_truth(x, robj) for x in c[1]]
        return True if True in vs else (False if all(v is False for v in vs) else None)
    if c[0] == "cmp" and c[1] in ("is", "isnot") and c[3] == NONE and (is_doc(c[2]) or is_lookup(c[2])):
        return c[1] == "isnot"
    return None


def present_value(t, robj, depth=0):
    """the value of a reader term in the present scenario: `x or default` is x, `x and y` is y, decided conditionals take their
    branch, a comprehension whose filter is decided false is EMPTY; anything else stays as written"""
    if not isinstance(t, tuple) or not t or depth > 30:
        return t
    if t[0] == "or" and t[1]:
        for x in t[1]:
            v = present_truth(x, robj)
            if v is True:
                return present_value(x, robj, depth + 1)
            if v is None:
                return t
        return present_value(t[1][-1], robj, depth + 1)
    if t[0] == "and" and t[1]:
        for x in t[1][:-1]:
            v = present_truth(x, robj)
            if v is False:
                return present_value(x, robj, depth + 1)
            if v is None:
                return t
        return present_value(t[1][-1], robj, depth + 1)
    if t[0] == "ite":
        v = present_truth(t[1], robj)
        if v is True:
            return present_value(t[2], robj, depth + 1)
        if v is False:
            return present_value(t[3], robj, depth + 1)
        return t
    if t[0] == "comp":
        gens = []
        for lid, it, conds in t[3]:
            it2 = present_value(it, robj, depth + 1)
            if it2 in (("list", ()), NONE):
                return ("list", ())
            keep = [present_truth(c, robj) for c in conds]
            if False in keep:
                return ("list", ())
            gens.append((lid, it2, conds))
        return (t[0], t[1], present_value(t[2], robj, depth + 1), tuple(gens))
    if t[0] == "call" and len(t) == 4:
        return ("call", present_value(t[1], robj, depth + 1), tuple(present_value(a, robj, depth + 1) for a in t[2]),
                tuple((k, present_value(v, robj, depth + 1)) for k, v in t[3]))
    if t[0] == "dict":
        return ("dict", tuple((present_value(k, robj, depth + 1) if isinstance(k, tuple) and k and isinstance(k[0], str) else k,
                               present_value(v, robj, depth + 1)) for k, v in t[1]))
    if t[0] in ("tuple", "list", "kv", "attr", "sub", "star"):
        return tuple(_pv_children(x, robj, depth + 1) for x in t)
    return t


def _pv_children(x, robj, depth):
    if not isinstance(x, tuple) or not x:
        return x
    if isinstance(x[0], str):
        return present_value(x, robj, depth)
    return tuple(_pv_children(y, robj, depth) for y in x)


def elem_reads(t):
    """the fields of loop elements that a term reads: {(loop id, field)}"""
    return {(x[1][1], x[2]) for x in walk(t) if x[0] == "attr" and x[1][0] == "elem"}


# ------------------------------------------------------------------------------------ type inference on terms

class Types:
    def __init__(self, ctx: Ctx, summ: Summary, obj, cls: ClassInfo):
        self.ctx, self.summ, self.obj, self.cls = ctx, summ, obj, cls

    def shape_of(self, t) -> Optional[tuple]:
        m = self.ctx.models
        if t == self.obj:
            return ("cls", self.cls.qual)
        if t[0] == "attr":
            b = self.shape_of(t[1])
            if b is None:
                return None
            b = strip_opt(b)
            if b[0] == "cls":
                ci = self.ctx.index.class_by_qual(b[1])
                if ci is not None:
                    fm = m.field_map(ci)
                    if t[2] in fm:
                        return fm[t[2]].shape
            return None
        if t[0] == "elem":
            li = self.summ.loops.get(t[1])
            if li is None:
                return None
            s = self.shape_of(li.iter)
            if s is None:
                return None
            s = strip_opt(s)
            if s[0] == "list":
                return s[1]
            if s[0] == "dict":
                return ("tuple", (s[1], s[2])) if False else s[1]
            return None
        if t[0] == "or":
            for v in t[1]:
                s = self.shape_of(v)
                if s is not None:
                    return strip_opt(s)
            return None
        if t[0] == "sub":
            b = self.shape_of(t[1])
            if b is not None and strip_opt(b)[0] == "tuple" and t[2][0] == "const" and isinstance(t[2][1], int):
                items = strip_opt(b)[1]
                if 0 <= t[2][1] < len(items):
                    return items[t[2][1]]
            return None
        if t[0] in ("comp", "list"):
            return ("list", ("other", "?"))
        if t[0] == "dict":
            return ("dict", ("other", "?"), ("other", "?"))
        return None


# ------------------------------------------------------------------------------------ the checker

class C01:
    def __init__(self, ctx: Ctx):
        self.ctx = ctx
        self.ao = Aoef(ctx)
        for n in self.ao.finish_leaf_deps():
            ctx.note(n)

    # -------------------------------------------------------------- result kwargs through super()/spreads
    def result_kwargs(self, cls: ClassInfo, meth: str, ctor_of: str, depth=0):
        """kwargs of the object constructed by cls.<meth> (resolved through super() results and spreads).

        Returns (target class, {kw: term}, summary, owner class, call event) or raises AnalysisError.
        ``ctor_of``: 'O' or 'D' (only used in messages).
        """
        found = cls.find_method(meth)
        if not found:
            raise AnalysisError(f"{cls.qual}.{meth} not found")
        owner, fn = found
        summ = self.ctx.summ.of_node(owner.module, fn, f"{owner.qual}.{meth}", owner)
        rets = summ.returns
        site = f"{owner.module.relpath}:{fn.lineno} {owner.name}.{meth}"
        if len(rets) != 1:
            raise AnalysisError(f"{len(rets)} return statements (expected a single constructor return)", site=site)
        t = rets[0].term
        if not (t[0] == "call" and t[1][0] == "global" and t[1][2] == "class"):
            raise AnalysisError(f"return value is not a constructor call: {show(t)[:80]}", site=site)
        # see through pure accessors of the adapter (e.g. key, value = self._get_soundevent_key(obj))
        t = (t[0], t[1], t[2], tuple((k, fold_sub(expand_pure_calls(v, self.ctx.summ, cls, owner.module))) for k, v in t[3]))
        target = self.ctx.index.class_by_qual(t[1][1])
        if t[2]:
            raise AnalysisError("positional arguments in model constructor", site=site)
        super_cache = {}

        def super_result(call_term):
            key = call_term
            if key not in super_cache:
                # the base is the next class in the MRO after `owner`
                mro = cls.mro()
                idx = [c.qual for c in mro].index(owner.qual)
                base = None
                for c in mro[idx + 1:]:
                    if meth in c.methods:
                        base = c
                        break
                if base is None:
                    raise AnalysisError("super() call without base implementation", site=site)
                bt, bk, bs, bo, _ = self.result_kwargs(base, meth, ctor_of, depth + 1)
                arg = call_term[2][0] if call_term[2] else None
                bobj = ("param", bs.params[1])
                if arg is not None:
                    bk = {k: subst(v, {bobj: arg}) for k, v in bk.items()}
                super_cache[key] = (bt, bk)
            return super_cache[key]

        def resolve(v):
            # replace attr-of-super-result by the base keyword value
            if not isinstance(v, tuple):
                return v
            if v and v[0] == "attr" and self.ao.is_super_call(v[1], meth):
                bt, bk = super_result(v[1])
                if v[2] in bk:
                    return ("from_super", v[2], bk[v[2]])
                fm = self.ctx.models.field_map(bt)
                if v[2] in fm:
                    return ("from_super_default", v[2])
                raise AnalysisError(f"super() result has no field {v[2]!r}", site=site)
            return tuple(resolve(c) for c in v)

        out: Dict[str, tuple] = {}
        for name, val in t[3]:
            if name != "**":
                out[name] = resolve(val)
                continue
            spread = self._spread_source(val, meth)
            if spread is None:
                raise AnalysisError(f"unrecognised ** spread: {show(val)[:100]}", site=site)
            src, excluded = spread
            # `d = dict(super().to_aoef(obj)); del d["k"]` removes k from what is spread
            for ev_ in summ.of("delete"):
                dt = ev_.term
                if dt[0] == "sub" and dt[1] == val and dt[2][0] == "const":
                    excluded = set(excluded) | {dt[2][1]}
            bt, bk = super_result(src)
            for k, v in bk.items():
                if k in excluded or k in out:
                    continue
                out[k] = ("from_super", k, v)
        # a keyword that one path does not give (a keyword dictionary filled conditionally) takes the field's default there
        if target is not None and any(x == ("absent",) for v in out.values() for x in walk(v)):
            fm_ = self.ctx.models.field_map(target) if self.ctx.models.is_model(target) else {}
            for k in list(out):
                if not any(x == ("absent",) for x in walk(out[k])):
                    continue
                fi_ = fm_.get(k)
                dflt = None
                if fi_ is not None and fi_.default is not None and isinstance(fi_.default, ast.Constant):
                    dflt = ("const", fi_.default.value)
                elif fi_ is not None and fi_.default_factory is not None and isinstance(fi_.default_factory, ast.Name) and fi_.default_factory.id in ("list", "dict"):
                    dflt = (fi_.default_factory.id, ())
                if dflt is not None:
                    out[k] = subst(out[k], {("absent",): dflt})
        return target, out, summ, owner, rets[0]

    def _spread_source(self, val, meth):
        """**{k: v for k, v in SUPER if v is not None and k != 'c'} / **dict(SUPER) -> (SUPER, excluded keys)."""
        if val[0] == "call" and val[1] == ("builtin", "dict") and len(val[2]) == 1 and self.ao.is_super_call(val[2][0], meth):
            return val[2][0], set()
        if val[0] == "comp" and val[1] == "dict" and len(val[3]) == 1:
            lid, it, conds = val[3][0]
            if not self.ao.is_super_call(it, meth):
                return None
            kv = val[2]
            e = ("elem", lid)
            if kv != ("kv", ("sub", e, ("const", 0)), ("sub", e, ("const", 1))):
                return None
            excluded = set()
            for c in conds:
                if c == ("cmp", "isnot", ("sub", e, ("const", 1)), NONE):
                    continue
                if c[0] == "cmp" and c[1] == "ne" and c[2] == ("sub", e, ("const", 0)) and c[3][0] == "const":
                    excluded.add(c[3][1])
                    continue
                if c[0] == "and":
                    ok = True
                    for cc in c[1]:
                        if cc == ("cmp", "isnot", ("sub", e, ("const", 1)), NONE):
                            continue
                        if cc[0] == "cmp" and cc[1] == "ne" and cc[2] == ("sub", e, ("const", 0)) and cc[3][0] == "const":
                            excluded.add(cc[3][1])
                            continue
                        ok = False
                    if ok:
                        continue
                return None
            return it, excluded
        return None

    # -------------------------------------------------------------- R01.1 - R01.3 on one writer/reader pair
    def check_pair(self, name: str, adapter: ClassInfo, D: ClassInfo, O: ClassInfo, wmeth: str, rmeth: str,
                   key_reads: List[str], collection=False, only=None):
        """only: restrict the obligations to these field names (used when another property delegates here)."""
        ctx, m = self.ctx, self.ctx.models
        file = relfile(adapter)
        try:
            wt, wk, ws, wowner, wret = self.result_kwargs(adapter, wmeth, "O")
            rt, rk, rs, rowner, rret = self.result_kwargs(adapter, rmeth, "D")
        except AnalysisError as e:
            ctx.undec("R01.1", e.site if e.site != "-" else f"{file} {name}", str(e))
            return
        wobj, robj = ("param", ws.params[1]), ("param", rs.params[1])
        wsite = f"{wowner.module.relpath}:{wret.lineno} {wowner.name}.{wmeth}"
        rsite = f"{rowner.module.relpath}:{rret.lineno} {rowner.name}.{rmeth}"
        if wt is None or wt.qual != O.qual:
            ctx.bad("R01.1", wowner.module.relpath, f"{wowner.name}.{wmeth}", f"return {wt.name if wt else '?'}(...)",
                    f"writer constructs {wt.name if wt else '?'} but the adapter's document class is {O.name}", wret.lineno)
            return
        if rt is None or rt.qual != D.qual:
            ctx.bad("R01.1", rowner.module.relpath, f"{rowner.name}.{rmeth}", f"return {rt.name if rt else '?'}(...)",
                    f"reader constructs {rt.name if rt else '?'} but the adapter's data class is {D.name}", rret.lineno)
            return
        # R01.11 direction: a writer converts its parts with the sub-adapters' to_aoef, a reader with to_soundevent / from_id
        if only is None:
            for summ_, owner_, meth_, wrong_, right_ in ((ws, wowner, wmeth, ("to_soundevent", "from_id"), "to_aoef"), (rs, rowner, rmeth, ("to_aoef",), "to_soundevent / from_id")):
                hits_ = [e for e in summ_.calls if e.term[1][0] == "attr" and e.term[1][2] in wrong_ and e.term[1][1][0] == "attr"
                         and e.term[1][1][1] == ("param", "self")]
                for e in hits_:
                    ctx.bad("R01.11", owner_.module.relpath, f"{owner_.name}.{meth_}", f"self.{e.term[1][1][2]}.{e.term[1][2]}(...)",
                            f"{owner_.name}.{meth_} converts a part with self.{e.term[1][1][2]}.{e.term[1][2]} -- the conversion of the opposite "
                            f"direction ({right_} is the one of this method): the part is handed over as the wrong kind of object", e.lineno)
                if not hits_:
                    ctx.ok("R01.11", f"{owner_.module.relpath} {owner_.name}.{meth_}", f"parts converted with {right_} only")
        Df, Of = m.field_map(D), m.field_map(O)
        if only is not None:
            Df = {k: v for k, v in Df.items() if k in only}
            Of = {k: v for k, v in Of.items() if k in only}
            wk = {k: v for k, v in wk.items() if k in only}
            rk = {k: v for k, v in rk.items() if k in only}
        # writer map: O keyword g -> D fields it depends on ; reader map: D keyword f -> O fields it depends on
        W = {g: [f for f in attr_reads(v, wobj) if f in Df] for g, v in wk.items()}
        # store-mediated flow: `g=self.A.values()` depends on every field converted through self.A before
        for g, v in wk.items():
            vv = v[2] if v[0] == "from_super" else v
            mc = self.ao.method_call(vv)
            if not (mc and mc[1] == "values" and mc[0]):
                continue
            for e in ws.calls:
                cm = self.ao.method_call(e.term)
                if cm and cm[0] == mc[0] and cm[1] == "to_aoef" and e.term[2]:
                    arg = e.term[2][0]
                    srcs = [arg] + [ws.loops[x[1]].iter for x in walk(arg) if x[0] == "elem" and x[1] in ws.loops]
                    for t in srcs:
                        for f in attr_reads(t, wobj):
                            if f in Df and f not in W[g]:
                                W[g].append(f)
        R = {f: [g for g in attr_reads(v, robj) if g in Of] for f, v in rk.items()}
        for g in wk:
            if g not in Of:
                ctx.bad("R01.1", wowner.module.relpath, f"{wowner.name}.{wmeth}", f"{O.name}({g}=...)",
                        f"keyword {g!r} is not a declared field of {O.name}", wret.lineno)
        for f in rk:
            if f not in Df:
                ctx.bad("R01.1", rowner.module.relpath, f"{rowner.name}.{rmeth}", f"{D.name}({f}=...)",
                        f"keyword {f!r} is not a declared field of {D.name}", rret.lineno)
        # (a) every declared D field reaches the document
        for f in Df:
            G = [g for g in W if f in W[g]]
            if G:
                ctx.ok("R01.1", wsite, f"{D.name}.{f} -> {O.name}.{'/'.join(G)}")
            else:
                ctx.bad("R01.1", wowner.module.relpath, f"{wowner.name}.{wmeth}", f"{D.name}.{f} -> {O.name}",
                        f"declared field {D.name}.{f} never flows into the {O.name} document "
                        f"(it is lost on save; the reader then takes the default)", wret.lineno,
                        witness={"data_class": D.name, "field": f, "document_class": O.name})
        # (b) required document fields supplied
        for g, fi in Of.items():
            if fi.required and g not in wk:
                ctx.bad("R01.1", wowner.module.relpath, f"{wowner.name}.{wmeth}", f"{O.name}({g}=...) missing",
                        f"required document field {O.name}.{g} is not supplied by the writer", wret.lineno)
        # (c) every document field (but the discriminator / identity key) is consumed by the reader
        for g in Of:
            if g == "collection_type":
                continue
            users = [f for f in R if g in R[f]]
            if users or g in key_reads:
                ctx.ok("R01.1", rsite, f"{O.name}.{g} -> {D.name}.{'/'.join(users) or '(identity key)'}")
            elif collection and self._is_toplevel_list(Of[g]):
                continue  # top-level lists are checked by R01.4/R01.5
            elif g not in wk:
                # a document field nobody writes and nobody reads: dead schema, reported with the writer
                ctx.bad("R01.1", wowner.module.relpath, f"{wowner.name}.{wmeth}", f"{O.name}.{g} unused",
                        f"document field {O.name}.{g} is neither written nor read", wret.lineno)
            else:
                ctx.bad("R01.1", rowner.module.relpath, f"{rowner.name}.{rmeth}", f"{O.name}.{g} -> {D.name}",
                        f"document field {O.name}.{g} is written but never read back into {D.name}", rret.lineno)
        # (d) every declared D field supplied on read
        for f in Df:
            if f in rk:
                ctx.ok("R01.1", rsite, f"{D.name}({f}=...) supplied")
            else:
                ctx.bad("R01.1", rowner.module.relpath, f"{rowner.name}.{rmeth}", f"{D.name}({f}=...) missing",
                        f"declared field {D.name}.{f} is not supplied by the reader and silently takes its default",
                        rret.lineno, witness={"data_class": D.name, "field": f})
        # R01.2 the two maps are mutually inverse
        for f in Df:
            G = [g for g in W if f in W[g]]
            if not G or f not in rk:
                continue
            back = R.get(f, [])
            if not back:
                if self._reader_rebuilds(rk[f]):
                    ctx.ok("R01.2", rsite, f"{D.name}.{f} rebuilt from registered objects")
                    continue
                ctx.bad("R01.2", rowner.module.relpath, f"{rowner.name}.{rmeth}", f"{D.name}({f}=...)",
                        f"reader keyword {f!r} does not depend on any document field (written to {'/'.join(G)})",
                        rret.lineno)
                continue
            wrong = [g for g in back if g not in G]
            if wrong:
                ctx.bad("R01.2", rowner.module.relpath, f"{rowner.name}.{rmeth}", f"{D.name}({f}=...)",
                        f"crossed fields: {D.name}.{f} is written to {O.name}.{'/'.join(G)} but read back from "
                        f"{O.name}.{'/'.join(wrong)}", rret.lineno,
                        witness={"written_to": G, "read_from": back})
            else:
                # a document value that is PRESENT must not be read back as None: the reader's own presence tests are decided with
                # the field present (truthy, not None)
                rt_ = rk[f][2] if rk[f][0] == "from_super" else rk[f]
                lost = None
                for g_ in back:
                    da_ = ("attr", robj, g_)
                    if not any(x[0] == "ite" for x in walk(rt_)):
                        continue
                    from sa.peval import peval as _pe
                    env_ = {da_: True, ("cmp", "is", da_, NONE): False, ("cmp", "isnot", da_, NONE): True, ("not", da_): False}
                    res_ = _pe(subst(rt_, {("cmp", "is", da_, NONE): FALSE, ("cmp", "isnot", da_, NONE): TRUE}), {("not", da_): False})
                    # only the conditions are decided; the value positions keep the attribute
                    def decide(t_):
                        if t_[0] == "ite":
                            c_ = t_[1]
                            v_ = True if c_ == da_ else (False if c_ == ("not", da_) else (True if c_ == TRUE else (False if c_ == FALSE else None)))
                            if v_ is True:
                                return decide(t_[2])
                            if v_ is False:
                                return decide(t_[3])
                        return t_
                    if decide(res_) == NONE:
                        lost = g_
                if lost is not None:
                    ctx.bad("R01.2", rowner.module.relpath, f"{rowner.name}.{rmeth}", f"{D.name}({f}=... None when {O.name}.{lost} is present)",
                            f"the reader gives {D.name}.{f} = None exactly when the document field {O.name}.{lost} IS present "
                            f"(`{show(rt_)[:90]}`): the stored value is never read back", rret.lineno, witness={"document_field": lost})
                else:
                    ctx.ok("R01.2", rsite, f"{D.name}.{f} <-> {O.name}.{'/'.join(G)}")
        # R01.10 an identifier is looked up in the store of the adapter that issued it: the reader's `self.X.from_id(obj.g)` names
        # the same sub-adapter X as the writer's `self.X.to_aoef(...)` that produced g (another adapter's store does not know the id:
        # the lookup gives None and the reference is dropped without an error)
        def adapters_in(t_, meth_):
            out_ = set()
            for x in walk(t_):
                hit_ = x[0] == "call" and x[1][0] == "attr" and (x[1][2] == meth_ or (meth_ == "to_aoef" and x[1][2] not in ("from_id", "to_soundevent", "values", "get_id")
                                                                                      and not x[1][2].startswith("_") and x[1][2] in NEW_ADAPTER_METHODS(self.ctx)))
                if hit_ and x[1][1][0] == "attr" and x[1][1][1] == ("param", "self"):
                    out_.add(x[1][1][2])
                elif hit_ and x[1][1] == ("param", "self"):
                    out_.add("(self)")  # the adapter's own store (a sequence's parent is a sequence)
            return out_
        for f in Df:
            if f not in rk:
                continue
            rt_ = rk[f][2] if rk[f][0] == "from_super" else rk[f]
            rd = adapters_in(rt_, "from_id")
            if not rd:
                continue
            wr = set()
            for g in R.get(f, []):
                if g in wk:
                    wv_ = wk[g][2] if wk[g][0] == "from_super" else wk[g]
                    wr |= adapters_in(wv_, "to_aoef")
            if not wr:
                continue
            if rd <= wr:
                ctx.ok("R01.10", rsite, f"{D.name}.{f}: identifiers issued and looked up by self.{'/'.join(sorted(rd))}")
            else:
                ctx.bad("R01.10", rowner.module.relpath, f"{rowner.name}.{rmeth}", f"{D.name}({f}=self.{'/'.join(sorted(rd - wr))}.from_id(...))",
                        f"{D.name}.{f} is written through self.{'/'.join(sorted(wr))}.to_aoef but read back through "
                        f"self.{'/'.join(sorted(rd - wr))}.from_id: that adapter's store does not hold these identifiers, the lookup gives None "
                        f"and the reference is silently dropped", rret.lineno, witness={"written_by": sorted(wr), "looked_up_in": sorted(rd)})
        # R01.12 the reader in the present scenario: with every consulted document field present and every identifier resolvable, each
        # field's value is still computed from its document field (not a fresh default, not None, not an emptied list) and none of
        # the reader's own rejections is live
        if only is None:
            for f in Df:
                if f not in rk or not R.get(f):
                    continue
                rt_ = rk[f][2] if rk[f][0] == "from_super" else rk[f]
                pv = present_value(rt_, robj)
                uses = [g_ for g_ in R[f] if any(x == ("attr", robj, g_) for x in walk(pv))]
                lost_ = sorted(f_ for _, f_ in elem_reads(rt_) - elem_reads(pv))
                if lost_ and pv != NONE and pv != ("list", ()) and uses:
                    ctx.bad("R01.12", rowner.module.relpath, f"{rowner.name}.{rmeth}", f"{D.name}({f}=[... {lost_[0]} ...])",
                            f"reading {D.name}.{f}: with every part of an element present, its `{', '.join(lost_)}` is not used any more "
                            f"(`{show(rt_)[:100]}` becomes `{show(pv)[:80]}`): the stored part is dropped or replaced by a default", rret.lineno)
                    continue
                if pv == NONE or pv == ("list", ()) or not uses:
                    ctx.bad("R01.12", rowner.module.relpath, f"{rowner.name}.{rmeth}", f"{D.name}({f}={show(rt_)[:60]})",
                            f"with {O.name}.{'/'.join(R[f])} present in the document (and every identifier resolvable) the reader gives "
                            f"{D.name}.{f} = {show(pv)[:60]}: the stored value is replaced by a default, dropped or filtered away "
                            f"(`{show(rt_)[:100]}`)", rret.lineno, witness={"field": f, "document_fields": R[f], "value_when_present": show(pv)[:80]})
                else:
                    ctx.ok("R01.12", rsite, f"{D.name}.{f} comes from {O.name}.{'/'.join(uses)} when it is present")
            # ... and the writer likewise: with every field of the object present, each document field is still computed from it
            for g in wk:
                if not W.get(g) or g not in Of:
                    continue
                wv_ = wk[g][2] if wk[g][0] == "from_super" else wk[g]
                if wv_[0] == "from_super_default":
                    continue
                mc_ = self.ao.method_call(wv_)
                if mc_ and mc_[1] == "values":
                    continue  # store-mediated: the list is what the conversions before it registered (R01.4)
                pvw = present_value(wv_, wobj)
                usesw = [f_ for f_ in W[g] if any(x == ("attr", wobj, f_) for x in walk(pvw))]
                lostw = sorted(f_ for _, f_ in elem_reads(wv_) - elem_reads(pvw))
                if lostw and pvw != NONE and pvw != ("list", ()) and usesw:
                    ctx.bad("R01.12", wowner.module.relpath, f"{wowner.name}.{wmeth}", f"{O.name}({g}=[... {lostw[0]} ...])",
                            f"writing {O.name}.{g}: with every part of an element set, its `{', '.join(lostw)}` is not written any more "
                            f"(`{show(wv_)[:100]}` becomes `{show(pvw)[:80]}`)", wret.lineno)
                    continue
                if pvw == NONE or pvw == ("list", ()) or not usesw:
                    ctx.bad("R01.12", wowner.module.relpath, f"{wowner.name}.{wmeth}", f"{O.name}({g}={show(wv_)[:60]})",
                            f"with {D.name}.{'/'.join(W[g])} set, the writer gives {O.name}.{g} = {show(pvw)[:60]}: the value is not "
                            f"written (`{show(wv_)[:100]}`)", wret.lineno, witness={"document_field": g, "fields": W[g], "value_when_present": show(pvw)[:80]})
                else:
                    ctx.ok("R01.12", wsite, f"{O.name}.{g} comes from {D.name}.{'/'.join(usesw)} when it is set")
            for r_ in rs.raises:
                if r_.in_handler:
                    continue
                if present_truth(r_.live, robj) is True:
                    ctx.bad("R01.12", rowner.module.relpath, f"{rowner.name}.{rmeth}", f"raise under `{show(r_.live)[:70]}`",
                            f"the reader rejects a well-formed document entry: `{show(r_.live)[:100]}` holds when the referenced object IS "
                            f"found", r_.lineno)
        # R01.8 a field copied as it is must have a document field of the same declared type (no narrowing codec)
        if only is None or True:
            for g, v in wk.items():
                if only is not None and g not in only:
                    continue
                vv = v[2] if v[0] == "from_super" else v
                sp = split_ite_none(vv)
                if sp:
                    vv = sp[1]
                if vv[0] == "attr" and vv[1] == wobj and vv[2] in Df and g in Of:
                    a, b = strip_opt(Df[vv[2]].shape), strip_opt(Of[g].shape)
                    if a == b or (shape_str(a), shape_str(b)) in SAME_VALUE_TYPES:
                        ctx.ok("R01.8", wsite, f"{D.name}.{vv[2]}: {shape_str(a)} stored as {O.name}.{g}: {shape_str(b)}")
                    else:
                        ctx.bad("R01.8", wowner.module.relpath, f"{wowner.name}.{wmeth}", f"{D.name}.{vv[2]}: {shape_str(a)} -> {O.name}.{g}: {shape_str(b)}",
                                f"{D.name}.{vv[2]} is declared {shape_str(a)} but the document field {O.name}.{g} that stores it is "
                                f"{shape_str(b)}: values are coerced on save (narrowed, truncated or re-parsed) and do not come back equal",
                                Of[g].node.lineno, witness={"data_type": shape_str(a), "document_type": shape_str(b)})
        for g in wk:
            extra = [f for f in W[g]]
            if len(extra) > 1:
                # a keyword fed by several data fields: each must come back from it (checked above); note only
                ctx.note(f"{wowner.name}.{wmeth}: document field {g} depends on {extra}")
        # R01.3 elision agreement
        ty = Types(ctx, ws, wobj, D)
        for g, v in wk.items():
            vv = v[2] if v[0] == "from_super" else v
            if vv[0] == "from_super_default":
                continue
            self._check_elision(g, vv, W.get(g, []), ty, D, O, Df, Of, rk, robj, wowner, wmeth, wret, rowner, rmeth, rret)
        # R01.3 (filters): a comprehension over a field of the object may only drop elements by `is not None` tests
        for g, v in wk.items():
            vv = v[2] if v[0] == "from_super" else v
            for x in walk(vv):
                if x[0] != "comp":
                    continue
                for lid, it, conds in x[3]:
                    if not any(y == wobj for y in walk(it)):
                        continue
                    for c in conds:
                        wsite = f"{wowner.module.relpath}:{wret.lineno} {wowner.name}.{wmeth}"
                        if c[0] == "cmp" and c[1] == "isnot" and c[3] == NONE:
                            ctx.ok("R01.3", wsite, f"{O.name}.{g}: element filter `{show(c)[:50]}` drops only None")
                            continue
                        shp = Types(ctx, ws, wobj, D).shape_of(c) if c[0] in ("attr", "elem", "sub") else None
                        core = strip_opt(shp) if shp else None
                        if core is not None and core[0] == "prim" and core[1] in SCALARS:
                            ctx.bad("R01.3", wowner.module.relpath, f"{wowner.name}.{wmeth}", f"{O.name}({g}=[... if {show(c)[:40]}])",
                                    f"the elements of {D.name}.{'/'.join(W.get(g, [])) or g} are filtered by the truthiness of "
                                    f"`{show(c)[:50]}` ({shape_str(shp)}): an element whose value is "
                                    f"{ {'float': 0.0, 'int': 0, 'str': repr(''), 'bool': False}[core[1]]} is silently dropped from the document",
                                    wret.lineno, witness={"dropped_value": {'float': 0.0, 'int': 0, 'str': '', 'bool': False}[core[1]]})
                        else:
                            ctx.bad("R01.3", wowner.module.relpath, f"{wowner.name}.{wmeth}", f"{O.name}({g}=[... if {show(c)[:60]}])",
                                    f"the elements written to {O.name}.{g} are filtered by `{show(c)[:70]}`: every element of the field must be "
                                    f"written (only `is not None` filters are lossless)", wret.lineno)
        # list order: no keyword of a list-typed field may pass through sorted / reversed / set (either direction)
        for side, kws, fmap, owner_, meth_, ret_ in (("writer", wk, Of, wowner, wmeth, wret), ("reader", rk, Df, rowner, rmeth, rret)):
            for g, v in kws.items():
                fi = fmap.get(g)
                if fi is None or strip_opt(fi.shape)[0] != "list":
                    continue
                vv = v[2] if v[0] == "from_super" else v
                bad_ = None
                for x in walk(vv):
                    if x[0] == "call" and x[1] in (("builtin", "sorted"), ("builtin", "reversed"), ("builtin", "set"), ("builtin", "frozenset")):
                        bad_ = show(x[1])
                    if x[0] == "comp" and x[1] == "set":
                        bad_ = "set comprehension"
                    if x[0] == "call" and x[1][0] == "attr" and x[1][2] in ("values", "keys", "items") and x[1][1][0] == "comp" \
                            and x[1][1][1] == "dict":
                        bad_ = "a dict keyed by the element (repeated elements collapse)"
                    if x[0] == "call" and x[1] == ("attr", ("builtin", "dict"), "fromkeys"):
                        bad_ = "dict.fromkeys (repeated elements collapse)"
                    if x[0] == "sub" and x[2][0] == "slice" and x[2][3] != NONE:
                        bad_ = "stepped slice"
                site_ = f"{owner_.module.relpath}:{ret_.lineno} {owner_.name}.{meth_}"
                if bad_:
                    ctx.bad("R01.2", owner_.module.relpath, f"{owner_.name}.{meth_}", f"{g}=... {bad_} ...",
                            f"the {side} passes the list field {g!r} through {bad_}: list order (and duplicates) are part of the value and "
                            f"must survive the round trip", ret_.lineno)
        # inline element classes
        self._check_inline(D, O, Df, wk, rk, ws, rs, wobj, robj, wowner, wmeth, wret, rowner, rmeth, rret)

    def _is_toplevel_list(self, fi) -> bool:
        s = strip_opt(fi.shape)
        if s[0] == "list" and s[1][0] == "cls":
            ci = self.ctx.index.class_by_qual(s[1][1])
            return ci is not None and self.ao.leaf_by_O(ci) is not None
        return False

    def _reader_rebuilds(self, t) -> bool:
        return False

    def _check_elision(self, g, v, wdeps, ty, D, O, Df, Of, rk, robj, wowner, wmeth, wret, rowner, rmeth, rret):
        ctx = self.ctx
        sp = split_ite_none(v)
        wfile, wfunc = wowner.module.relpath, f"{wowner.name}.{wmeth}"
        if sp is None:
            return
        keep, val = sp
        site = f"{wfile}:{wret.lineno} {wfunc}"
        fs = [f for f in wdeps]
        f = fs[0] if len(fs) == 1 else None
        reader_term = rk.get(f) if f else None
        if reader_term is not None and reader_term[0] == "from_super":
            reader_term = reader_term[2]

        def reader_under_none():
            if reader_term is None:
                return None
            return assume_none(reader_term, ("attr", robj, g))

        # classify the keep-condition
        if keep[0] == "cmp" and keep[1] == "isnot" and keep[3] == NONE:
            # the value that is tested is the value that is written (or the field it is computed from): a test on another field
            # drops this one whenever that other field is absent
            in_val = {x[2] for x in walk(val) if x[0] == "attr" and x[1] == ty.obj}
            own = any(x == keep[2] for x in walk(val)) or not in_val or (keep[2][0] == "attr" and keep[2][1] == ty.obj and keep[2][2] in in_val)
            if not own and keep[2][0] == "attr" and keep[2][1] == ty.obj and keep[2][2] in Df:
                ctx.bad("R01.3", wfile, wfunc, f"{O.name}({g}=... if {show(keep)[:50]} else None)",
                        f"{O.name}.{g} is written only when `{show(keep)[:60]}` -- a test on another field than the one it stores "
                        f"({', '.join(sorted(in_val)) or '?'}): an object with {', '.join(sorted(in_val)) or g} set and {keep[2][2]} absent loses it on save", wret.lineno,
                        witness={"document_field": g, "stored_from": sorted(in_val), "tested": show(keep[2])})
                return
            ctx.ok("R01.3", site, f"{O.name}.{g}: None passes through (is not None test)")
            r = reader_under_none()
            if r is not None and r[0] == "error":
                ctx.bad("R01.3", rowner.module.relpath, f"{rowner.name}.{rmeth}", f"{D.name}({f}=...) with {O.name}.{g}=None",
                        f"reader fails when {O.name}.{g} is None ({r[1]}) although the writer emits None", rret.lineno)
            return
        if keep[0] == "cmp" and keep[1] in ("ne", "eq") and keep[3][0] == "const" and keep[2][0] == "attr":
            if keep[1] == "eq":
                ctx.undec("R01.3", site, f"value kept only when equal to a constant: {show(keep)}")
                return
            C = keep[3][1]
            fld = keep[2][2]
            if fld in Df and Df[fld].optional:
                ctx.bad("R01.3", wfile, wfunc, f"{O.name}({g}=... if ... != {C!r} else None)",
                        f"value elision on Optional field {D.name}.{fld}: both None and {C!r} are stored as None",
                        wret.lineno, witness={"values": [None, C]})
                return
            r = reader_under_none()
            if r is not None and r[0] == "const" and r[1] == C and type(r[1]) in (type(C), int, float):
                ctx.ok("R01.3", site, f"{O.name}.{g}: value {C!r} elided and restored by the reader")
            else:
                ctx.bad("R01.3", wfile, wfunc, f"{O.name}({g}=... if ... != {C!r} else None)",
                        f"writer stores {D.name}.{fld} == {C!r} as None but the reader restores "
                        f"{show(r) if r is not None else 'nothing'}", wret.lineno,
                        witness={"elided_value": C, "reader_restores": show(r) if r is not None else None})
            return
        if keep[0] in ("cmp", "and", "or", "not", "call", "const"):
            ctx.undec("R01.3", site, f"unrecognised elision condition for {O.name}.{g}: {show(keep)[:100]}")
            return
        # truthiness of a term
        shape = ty.shape_of(keep)
        if shape is None and keep[0] in ("comp", "list", "dict"):
            shape = ("list", ("other", "?"))
        if shape is None:
            ctx.undec("R01.3", site, f"cannot type the truthiness test on {show(keep)[:80]} for {O.name}.{g}")
            return
        core = strip_opt(shape)
        if core[0] == "prim" and core[1] in SCALARS:
            ctx.bad("R01.3", wfile, wfunc, f"{O.name}({g}=X if X else None) on {shape_str(shape)}",
                    f"truthiness elision on scalar field ({shape_str(shape)}): the falsy value "
                    f"{ {'float': 0.0, 'int': 0, 'str': '', 'bool': False}[core[1]]!r} is stored as None and lost",
                    wret.lineno, witness={"field": f or show(keep), "lost_value": {'float': 0.0, 'int': 0, 'str': '', 'bool': False}[core[1]]})
            return
        if core[0] in ("list", "dict", "tuple"):
            if shape[0] == "opt":
                ctx.bad("R01.3", wfile, wfunc, f"{O.name}({g}=X if X else None) on {shape_str(shape)}",
                        "truthiness elision on an Optional container: None and the empty container are both stored as None",
                        wret.lineno)
                return
            r = reader_under_none()
            if r is not None and is_empty_container(r):
                ctx.ok("R01.3", site, f"{O.name}.{g}: empty container elided and restored as empty by the reader")
            elif r is not None and r[0] == "error":
                ctx.bad("R01.3", rowner.module.relpath, f"{rowner.name}.{rmeth}", f"{D.name}({f}=...) with {O.name}.{g}=None",
                        f"writer elides an empty {g} to None but the reader fails on None ({r[1]})", rret.lineno)
            else:
                ctx.bad("R01.3", wfile, wfunc, f"{O.name}({g}=X if X else None)",
                        f"writer elides an empty container to None but the reader restores "
                        f"{show(r)[:80] if r is not None else 'nothing'} instead of an empty container", wret.lineno)
            return
        # models / UUID / datetime: only None is falsy
        r = reader_under_none()
        if r is not None and r[0] == "error":
            ctx.bad("R01.3", rowner.module.relpath, f"{rowner.name}.{rmeth}", f"{D.name}({f}=...) with {O.name}.{g}=None",
                    f"reader fails when {O.name}.{g} is None ({r[1]})", rret.lineno)
        else:
            ctx.ok("R01.3", site, f"{O.name}.{g}: only None is falsy for {shape_str(shape)}")

    def _check_inline(self, D, O, Df, wk, rk, ws, rs, wobj, robj, wowner, wmeth, wret, rowner, rmeth, rret):
        """Element classes that have no adapter of their own (PredictedTag, StatusBadge, Feature)."""
        ctx, m = self.ctx, self.ctx.models
        for f, fi in Df.items():
            s = strip_opt(fi.shape)
            if s[0] != "list" or s[1][0] != "cls":
                continue
            E = ctx.index.class_by_qual(s[1][1])
            if E is None or not m.is_model(E) or self.ao.leaf_by_D(E) is not None:
                continue
            Ef = [x.name for x in m.fields(E)]
            # writer: a comprehension iterating obj.f must read every element field
            reads = set()
            for g, v in wk.items():
                for x in walk(v):
                    if x[0] == "comp":
                        for lid, it, conds in x[3]:
                            if ("attr", wobj, f) in set(walk(it)) or it == ("attr", wobj, f):
                                reads |= set(attr_reads(x, ("elem", lid)))
            wsite = f"{wowner.module.relpath}:{wret.lineno} {wowner.name}.{wmeth}"
            for ef in Ef:
                if ef in reads:
                    ctx.ok("R01.1", wsite, f"element {E.name}.{ef} of {D.name}.{f} written")
                else:
                    ctx.bad("R01.1", wowner.module.relpath, f"{wowner.name}.{wmeth}", f"{E.name}.{ef} of {D.name}.{f}",
                            f"element field {E.name}.{ef} (inside {D.name}.{f}) is never written to the document",
                            wret.lineno)
            # reader: the keyword for f must construct E with every field
            rsite = f"{rowner.module.relpath}:{rret.lineno} {rowner.name}.{rmeth}"
            if f not in rk:
                continue
            ctor = [x for x in walk(rk[f]) if x[0] == "call" and x[1][0] == "global" and x[1][1] == E.qual]
            if not ctor:
                ctx.undec("R01.1", rsite, f"reader keyword {f!r} does not construct {E.name} elements")
                continue
            given = {n for c in ctor for n, _ in c[3]}
            for ef in Ef:
                if ef in given:
                    ctx.ok("R01.1", rsite, f"element {E.name}({ef}=...) supplied")
                else:
                    ctx.bad("R01.1", rowner.module.relpath, f"{rowner.name}.{rmeth}", f"{E.name}({ef}=...) missing in {D.name}.{f}",
                            f"element field {E.name}.{ef} (inside {D.name}.{f}) is not supplied on read", rret.lineno)

    # -------------------------------------------------------------- leaves
    def check_leaves(self):
        for leaf in self.ao.leaves.values():
            key_reads = []
            ks = self.ctx.summ.of_method(leaf.ci, "_get_aoef_key")
            if ks is not None:
                if len(ks.params) > 1:
                    for e in ks.returns:
                        key_reads += attr_reads(e.term, ("param", ks.params[1]))
            self.check_pair(leaf.name, leaf.ci, leaf.D, leaf.O, leaf.writer_name, leaf.reader_name, key_reads)

    # -------------------------------------------------------------- collections
    def check_collections(self):
        for col in self.ao.collections:
            self.check_pair(col.ci.name, col.ci, col.D, col.O, "to_aoef", "to_soundevent", [], collection=True)
            self.check_lists(col)
            self.check_registration(col)

    def _store_attr_of(self, v) -> Optional[Tuple[str, str]]:
        """value of a list keyword -> ('values'|'converted'|..., attr) ."""
        if v[0] == "from_super":
            return self._store_attr_of(v[2])
        mc = self.ao.method_call(v)
        if mc and mc[1] == "values" and mc[0]:
            return "values", mc[0]
        # list / comprehension of self.<attr>.to_aoef(x)
        for x in walk(v):
            mc = self.ao.method_call(x)
            if mc and mc[1] == "to_aoef" and mc[0]:
                return "converted", mc[0]
        if v[0] == "ite":
            for b in (v[2], v[3]):
                if b != NONE:
                    r = self._store_attr_of(b)
                    if r:
                        return r
        return None

    def check_lists(self, col: Collection):
        """R01.4: top-level list completeness + writer/reader sibling agreement."""
        ctx, m = self.ctx, self.ctx.models
        try:
            wt, wk, ws, wowner, wret = self.result_kwargs(col.ci, "to_aoef", "O")
        except AnalysisError as e:
            ctx.undec("R01.4", e.site, str(e))
            return
        Of = m.field_map(col.O)
        wfile, wfunc = wowner.module.relpath, f"{wowner.name}.to_aoef"
        site = f"{wfile}:{wret.lineno} {wfunc}"
        produced_attrs = set()
        consumed = self.registrations(col)
        consumed_fields = {r["field"] for r in consumed if r["field"]}
        for g, fi in Of.items():
            if not self._is_toplevel_list(fi):
                continue
            elemO = ctx.index.class_by_qual(strip_opt(fi.shape)[1][1])
            leaf = self.ao.leaf_by_O(elemO)
            if g not in wk:
                ctx.bad("R01.4", wfile, wfunc, f"{col.O.name}({g}=...) missing",
                        f"top-level list {col.O.name}.{g} ({elemO.name}) is never emitted by {col.ci.name}.to_aoef"
                        + (" although to_soundevent consumes it" if g in consumed_fields else "")
                        + f"; objects registered in the {leaf.name} store are dropped from the document",
                        wret.lineno, witness={"document_field": g, "adapter": leaf.name})
                continue
            src = self._store_attr_of(wk[g])
            if src is None:
                ctx.undec("R01.4", site, f"cannot tell which store feeds {col.O.name}.{g}: {show(wk[g])[:80]}")
                continue
            kind, attr = src
            w = col.wires.get(attr)
            if w is None:
                ctx.undec("R01.4", site, f"{col.O.name}.{g} is fed by self.{attr}, which is not a wired sub-adapter")
                continue
            if w.cls.qual != leaf.ci.qual:
                ctx.bad("R01.4", wfile, wfunc, f"{col.O.name}({g}=self.{attr}...)",
                        f"top-level list {g} must hold {elemO.name} objects but is fed by the {w.cls.name} store",
                        wret.lineno)
                continue
            produced_attrs.add(attr)
            ctx.ok("R01.4", site, f"{col.O.name}.{g} <- self.{attr}.{'values()' if kind == 'values' else 'to_aoef(..)'}")
        for attr, w in col.wires.items():
            leaf = self.ao.leaves[w.cls.qual]
            if not leaf.has_store:
                continue
            if attr not in produced_attrs:
                has_field = any(self._is_toplevel_list(fi) and strip_opt(fi.shape)[1][1] == leaf.O.qual for fi in Of.values())
                if has_field:
                    continue  # already reported through the missing field above
                ctx.bad("R01.4", wfile, wfunc, f"self.{attr} has no top-level list",
                        f"sub-adapter self.{attr} ({w.cls.name}) has a store but {col.O.name} has no list field for "
                        f"{leaf.O.name}", wret.lineno)
        # sibling rule: lists consumed by the reader must be produced by the writer
        for r in consumed:
            g = r["field"]
            if g and g in Of and self._is_toplevel_list(Of[g]) and g in wk:
                ctx.ok("R01.4", r["site"], f"list {g} consumed by to_soundevent is produced by to_aoef")

    # -------------------------------------------------------------- R01.5
    def registrations(self, col: Collection) -> List[dict]:
        """Ordered list of `self.<attr>.to_soundevent(x)` registrations along the to_soundevent chain."""
        found = col.ci.find_method("to_soundevent")
        out: List[dict] = []
        if not found:
            return out
        return self._registrations_of(col, found[0])

    def _registrations_of(self, col: Collection, owner: ClassInfo) -> List[dict]:
        fn = owner.methods["to_soundevent"][-1]
        s = self.ctx.summ.of_node(owner.module, fn, f"{owner.qual}.to_soundevent", owner)
        robj = ("param", s.params[1])
        out = []
        for e in s.calls:
            t = e.term
            if self.ao.is_super_call(t, "to_soundevent"):
                mro = col.ci.mro()
                idx = [c.qual for c in mro].index(owner.qual)
                for c in mro[idx + 1:]:
                    if "to_soundevent" in c.methods:
                        out += self._registrations_of(col, c)
                        break
                continue
            # table-driven registration: helper([(obj.users, self.user_adapter), ...]) where the helper registers every element of
            # each list with the adapter it is paired with, in the order of the table
            if t[1][0] == "global" and t[1][2] == "func" and len(t[2]) == 1 and t[2][0][0] in ("list", "tuple") and t[2][0][1] \
                    and all(p_[0] == "tuple" and len(p_[1]) == 2 for p_ in t[2][0][1]):
                try:
                    hs = self.ctx.summ.of_func(*t[1][1].split(":"))
                except Exception:  # noqa: BLE001
                    hs = None
                pairs_ok = False
                if hs is not None and len(hs.params) == 1:
                    for he in hs.calls:
                        ht = he.term
                        if ht[1][0] == "attr" and ht[1][2] == "to_soundevent" and len(ht[2]) == 1 and ht[2][0][0] == "elem" and len(he.loops) == 2:
                            Lo, Li = hs.loops[he.loops[0]], hs.loops[he.loops[1]]
                            eo = ("elem", Lo.id)
                            it_i = Li.iter[1][0] if Li.iter[0] == "or" and Li.iter[1][1:] == (("list", ()),) else Li.iter
                            if Lo.iter == ("param", hs.params[0]) and it_i == ("sub", eo, ("const", 0)) and ht[1][1] == ("sub", eo, ("const", 1)) \
                                    and ht[2][0] == ("elem", Li.id):
                                pairs_ok = True
                if pairs_ok:
                    for p_ in t[2][0][1]:
                        lst, ad = p_[1]
                        a_ = self.ao.self_attr(ad)
                        reads = attr_reads(lst, robj)
                        out.append({"attr": a_ or "?", "field": reads[0] if len(reads) == 1 else None,
                                    "site": f"{owner.module.relpath}:{e.lineno} {owner.name}.to_soundevent", "owner": owner, "line": e.lineno,
                                    "iter": lst, "robj": robj, "live": e.live})
                    continue
            # the same, with the helper's loops spliced into this function: `pair[1].to_soundevent(x) for x in pair[0]` for each pair of a
            # literal table of (list, adapter) pairs
            if t[1][0] == "attr" and t[1][2] == "to_soundevent" and len(t[2]) == 1 and t[2][0][0] == "elem" and len(e.loops) >= 2 \
                    and t[1][1][0] == "sub" and t[1][1][2] == ("const", 1) and t[1][1][1] == ("elem", e.loops[-2]):
                Lo, Li = s.loops[e.loops[-2]], s.loops[e.loops[-1]]
                eo = ("elem", Lo.id)
                it_i = Li.iter[1][0] if Li.iter[0] == "or" and Li.iter[1][1:] == (("list", ()),) else Li.iter
                tab = Lo.iter
                if tab[0] in ("list", "tuple") and tab[1] and all(p_[0] == "tuple" and len(p_[1]) == 2 for p_ in tab[1]) \
                        and it_i == ("sub", eo, ("const", 0)) and t[2][0] == ("elem", Li.id):
                    for p_ in tab[1]:
                        lst, ad = p_[1]
                        a_ = self.ao.self_attr(ad)
                        reads = attr_reads(lst, robj)
                        out.append({"attr": a_ or "?", "field": reads[0] if len(reads) == 1 else None,
                                    "site": f"{owner.module.relpath}:{e.lineno} {owner.name}.to_soundevent", "owner": owner, "line": e.lineno,
                                    "iter": lst, "robj": robj, "live": e.live})
                    continue
            mc = self.ao.method_call(t)
            if not mc or mc[1] != "to_soundevent" or not mc[0]:
                continue
            attr = mc[0]
            arg = t[2][0] if t[2] else None
            fieldname = None
            it = None
            if arg is not None and arg[0] == "elem":
                it = s.loops[arg[1]].iter
                reads = attr_reads(it, robj)
                if len(reads) == 1:
                    fieldname = reads[0]
            out.append({"attr": attr, "field": fieldname, "site": f"{owner.module.relpath}:{e.lineno} {owner.name}.to_soundevent",
                        "owner": owner, "line": e.lineno, "iter": it, "robj": robj, "live": e.live})
        return out

    def check_registration(self, col: Collection):
        ctx, m = self.ctx, self.ctx.models
        regs = self.registrations(col)
        Of = m.field_map(col.O)
        first: Dict[str, int] = {}
        for i, r in enumerate(regs):
            first.setdefault(r["attr"], i)
            w = col.wires.get(r["attr"])
            if r["field"] is None or w is None:
                ctx.undec("R01.5", r["site"], f"registration through self.{r['attr']} with an argument that is not an element of a document list")
                continue
            fi = Of.get(r["field"])
            if fi is None:
                ctx.undec("R01.5", r["site"], f"document field {r['field']!r} not declared on {col.O.name}")
                continue
            s = strip_opt(fi.shape)
            elem = s[1] if s[0] == "list" else None
            leaf = self.ao.leaves[w.cls.qual]
            if elem is None or elem[0] != "cls" or elem[1] != leaf.O.qual:
                ctx.bad("R01.5", r["owner"].module.relpath, f"{r['owner'].name}.to_soundevent",
                        f"self.{r['attr']}.to_soundevent(<{r['field']}>)",
                        f"list {col.O.name}.{r['field']} ({shape_str(fi.shape)}) is registered with {w.cls.name} "
                        f"whose document class is {leaf.O.name}", r["line"])
            elif r.get("iter") is not None and (present_value(r["iter"], r["robj"]) in (("list", ()), NONE)
                                                or not any(x == ("attr", r["robj"], r["field"]) for x in walk(present_value(r["iter"], r["robj"])))):
                ctx.bad("R01.5", r["owner"].module.relpath, f"{r['owner'].name}.to_soundevent", f"for ... in {show(r['iter'])[:60]}",
                        f"the registration loop over {col.O.name}.{r['field']} iterates `{show(r['iter'])[:80]}`, which is empty exactly when the "
                        f"list is present: nothing is registered and every reference to these objects resolves to nothing", r["line"])
            else:
                ctx.ok("R01.5", r["site"], f"{col.O.name}.{r['field']} registered with self.{r['attr']}")
        # every top-level list the writer produces must be registered (else objects are unresolvable on load)
        for g, fi in Of.items():
            if self._is_toplevel_list(fi) and not any(r["field"] == g for r in regs):
                found = col.ci.find_method("to_soundevent")
                owner = found[0]
                ctx.bad("R01.5", owner.module.relpath, f"{owner.name}.to_soundevent", f"{col.O.name}.{g} not registered",
                        f"top-level list {col.O.name}.{g} is never registered by to_soundevent: every reference to "
                        f"its objects resolves to nothing and is silently dropped", found[1].lineno)
        # dependency order along the wiring edges
        for attr, w in col.wires.items():
            deps = [self.ao.self_attr(a) for a in list(w.args) + list(w.kwargs.values())]
            for d in deps:
                if d is None or d not in col.wires:
                    continue
                dleaf = self.ao.leaves[col.wires[d].cls.qual]
                if not dleaf.has_store:
                    continue
                if attr not in first:
                    continue  # not registered here (reported above if it has a list)
                if d not in first:
                    continue
                if first[d] < first[attr]:
                    ctx.ok("R01.5", regs[first[attr]]["site"], f"self.{d} registered before self.{attr}")
                else:
                    r = regs[first[attr]]
                    ctx.bad("R01.5", r["owner"].module.relpath, f"{r['owner'].name}.to_soundevent",
                            f"self.{attr} registered before self.{d}",
                            f"{w.cls.name} objects are rebuilt (self.{attr}) before the {col.wires[d].cls.name} objects "
                            f"they reference (self.{d}) are registered: from_id() returns None and the reference is lost "
                            f"or the load fails", r["line"],
                            witness={"order": [x["attr"] for x in regs]})

    # -------------------------------------------------------------- R01.6
    def check_table(self):
        ctx, m, ix = self.ctx, self.ctx.models, self.ctx.index
        mod = ix.module(AOEF_PKG)
        rows = self.ao.table_rows
        file = mod.relpath
        names = [r[0] for r in rows]
        for i, (name, D, A, node) in enumerate(rows):
            for j in range(i):
                Dj = rows[j][1]
                if D is not None and Dj is not None and D.qual != Dj.qual and D.is_subclass_of(Dj.qual):
                    ctx.bad("R01.6", file, "ADAPTERS", f"row {name!r} after row {rows[j][0]!r}",
                            f"{D.name} is a subclass of {Dj.name}, which is listed earlier: a {D.name} is saved as "
                            f"{rows[j][0]!r} and loses its own fields", node.lineno,
                            witness={"order": names})
                    break
            else:
                ctx.ok("R01.6", f"{file}:{node.lineno} ADAPTERS", f"row {name!r}: no earlier base class")
        if len(set(names)) != len(names):
            ctx.bad("R01.6", file, "ADAPTERS", "duplicate type name", f"type names not pairwise distinct: {names}")
        # row name == collection_type literal default of the adapter's document class
        lits = {}
        for col in self.ao.collections:
            fm = m.field_map(col.O)
            fi = fm.get("collection_type")
            node = [r[3] for r in rows if r[0] == col.row][0]
            if fi is None or strip_opt(fi.shape)[0] != "lit" or not isinstance(fi.default, ast.Constant):
                ctx.undec("R01.6", f"{relfile(col.O)} {col.O.name}", "collection_type is not a Literal with a constant default")
                continue
            lit = strip_opt(fi.shape)[1]
            lits[col.O.qual] = lit
            if lit == (col.row,) and fi.default.value == col.row:
                ctx.ok("R01.6", f"{file}:{node.lineno} ADAPTERS", f"row {col.row!r} == {col.O.name}.collection_type")
            else:
                ctx.bad("R01.6", relfile(col.O), col.O.name, f"collection_type: Literal{list(lit)} = {fi.default.value!r}",
                        f"row {col.row!r} of ADAPTERS uses {col.ci.name} whose document is tagged {list(lit)}/"
                        f"{fi.default.value!r}: the document would be loaded by another adapter or rejected",
                        fi.node.lineno)
            # row data class == data class annotated on the adapter
            found = col.ci.find_method("to_aoef")
            c, w = found
            ann = w.args.args[1].annotation if len(w.args.args) > 1 else None
            Dann = self.ao._resolve_cls(c.module, ann) if ann is not None else None
            if Dann is not None and Dann.qual == col.D.qual:
                ctx.ok("R01.6", f"{file}:{node.lineno} ADAPTERS", f"row {col.row!r}: {col.D.name} == parameter type of {col.ci.name}.to_aoef")
            else:
                ctx.bad("R01.6", file, "ADAPTERS", f"row {col.row!r} pairs {col.D.name} with {col.ci.name}",
                        f"{col.ci.name}.to_aoef takes {Dann.name if Dann else '?'} but the table row gives it {col.D.name}",
                        node.lineno)
        # AOEFObject.data union == the document classes, discriminated
        AO = ix.need_class(AOEF_PKG, "AOEFObject")
        fm = m.field_map(AO)
        if "data" not in fm:
            ctx.undec("R01.6", f"{file} AOEFObject", "field 'data' not found")
        else:
            fi = fm["data"]
            s = fi.shape
            members = {x[1] for x in (s[1] if s[0] == "union" else (s,)) if x[0] == "cls"}
            want = {c.O.qual for c in self.ao.collections}
            if members == want:
                ctx.ok("R01.6", f"{file}:{fi.node.lineno} AOEFObject", f"data union == {len(want)} document classes")
            else:
                ctx.bad("R01.6", file, "AOEFObject", "data: Union[...]",
                        f"union members differ from the ADAPTERS document classes: missing "
                        f"{sorted(q.split(':')[1] for q in want - members)}, extra {sorted(q.split(':')[1] for q in members - want)}",
                        fi.node.lineno)
            disc = fi.field_kwargs.get("discriminator")
            if isinstance(disc, ast.Constant) and disc.value == "collection_type":
                ctx.ok("R01.6", f"{file}:{fi.node.lineno} AOEFObject", "discriminator == 'collection_type'")
            else:
                ctx.bad("R01.6", file, "AOEFObject", "data: Field(discriminator=...)",
                        "the union is not discriminated on collection_type: a document of a derived type validates "
                        "as the first structurally matching class", fi.node.lineno)
        # DataType literal == table names
        tmod, tval = ix.need_assign("soundevent.io.types", "DataType")
        shape = m.shape(tmod, tval)
        if shape[0] == "lit" and set(shape[1]) == set(names):
            ctx.ok("R01.6", f"{tmod.relpath}:{tval.lineno} DataType", f"DataType == {len(names)} table names")
        else:
            ctx.bad("R01.6", tmod.relpath, "DataType", "DataType = Literal[...]",
                    f"DataType literals {sorted(shape[1]) if shape[0] == 'lit' else shape} differ from ADAPTERS names {sorted(names)}",
                    tval.lineno)
        # dispatch functions: fresh adapter per call, first match in table order
        for fname, test in (("to_aeof", "isinstance"), ("to_soundevent", "collection_type")):
            s = ctx.summ.of_func(AOEF_PKG, fname)
            site = f"{file}:{s.node.lineno} {fname}"
            from .aoef import adapter_selections
            sels = adapter_selections(s)
            if len(sels) != 1:
                ctx.undec("R01.6", site, f"expected exactly one adapter construction selected from ADAPTERS, found {len(sels)}")
                continue
            sel = sels[0]
            e = sel["elem"]
            cond_ok = False
            if sel["form"] == "next":
                # first row whose test holds, via next(<generator over the table>, None); no row -> guarded, not called
                rets = s.returns
                for x in sel["conds"]:
                    if test == "isinstance":
                        cond_ok |= x == ("call", ("builtin", "isinstance"), (("param", s.params[0]), ("sub", e, ("const", 1))), ())
                    else:
                        cond_ok |= x[0] == "cmp" and x[1] == "eq" and ("sub", e, ("const", 0)) in (x[2], x[3]) \
                            and any(y[0] == "attr" and y[2] == "collection_type" for y in walk(x))
                cond_ok = cond_ok and len(sel["conds"]) == 1 and sel["default_guard"]
            elif sel["form"] == "table":
                # a lookup table keyed by the type name (names are pairwise distinct, so first match == the match)
                cond_ok = test == "collection_type" and sel["keycol"] == 0 and \
                    any(y[0] == "attr" and y[2] == "collection_type" for y in walk(sel["key"]))
                rets = s.returns
            else:
                rets = [r for r in s.returns if sel["loop"] in r.loops]
                if not rets:
                    ctx.bad("R01.6", file, fname, "adapter_cls(...) inside the ADAPTERS loop",
                            "the adapter is not constructed inside the dispatch loop: lookup tables would be shared "
                            "between calls", s.node.lineno)
                    continue
                for r in rets:
                    if test == "isinstance":
                        cond_ok |= any(x == ("call", ("builtin", "isinstance"), (("param", s.params[0]), ("sub", e, ("const", 1))), ())
                                       for x in conjuncts_(r.live))
                    else:
                        cond_ok |= any(x[0] == "cmp" and x[1] == "eq" and ("sub", e, ("const", 0)) in (x[2], x[3])
                                       and any(y[0] == "attr" and y[2] == "collection_type" for y in walk(x))
                                       for x in conjuncts_(r.live))
            if cond_ok:
                ctx.ok("R01.6", site, f"fresh adapter per call, first `{test}` match in table order")
            else:
                ctx.bad("R01.6", file, fname, "dispatch condition",
                        f"dispatch does not select the row by `{test}` against the table entry", s.node.lineno)


    # -------------------------------------------------------------- R01.7 reader registration, codecs
    def check_codecs(self):
        ctx = self.ctx
        from .aoef import ADAPTERS_MOD
        SELF = ("param", "self")
        store = ("attr", SELF, "_soundevent_store")
        DA = ctx.index.need_class(ADAPTERS_MOD, "DataAdapter")
        file = DA.module.relpath
        s = ctx.summ.of_func(ADAPTERS_MOD, "DataAdapter.to_soundevent")
        obj = ("param", s.params[1])
        key = ("call", ("attr", SELF, "_get_aoef_key"), (obj,), ())
        site = f"{file}:{s.node.lineno} DataAdapter.to_soundevent"
        asm = ("call", ("attr", SELF, "assemble_soundevent"), (obj,), ())
        from sa.memo import memo_verdict, scenarios
        sc = scenarios(s, store, key)
        good, why = memo_verdict(sc, store, key, lambda v: v == asm)
        if good:
            ctx.ok("R01.7", site, "_soundevent_store[key(obj)] = assemble_soundevent(obj) once per key; returns the stored object")
        else:
            ctx.bad("R01.7", file, "DataAdapter.to_soundevent", "self._soundevent_store[obj_id] = soundevent_obj",
                    "on load an object must be rebuilt once per document id (keyed by _get_aoef_key(obj)) and that very object "
                    f"returned ({why}): otherwise shared sub-objects are duplicated or references resolve to the wrong object",
                    s.node.lineno)
        f = ctx.summ.of_func(ADAPTERS_MOD, "DataAdapter.from_id")
        oid = ("param", f.params[1])
        # other spellings of the optional lookup, decided on the two scenarios of the store: present -> the stored object, absent -> None
        scf = scenarios(f, store, oid)
        def outcome(sc_):
            return [t_ for _, l_, t_ in sc_.returns if l_ == TRUE]
        by_scenario = (len(f.returns) >= 1 and not scf["present"].writes and not scf["absent"].writes
                       and outcome(scf["present"]) == [("sub", store, oid)] and outcome(scf["absent"]) == [NONE]
                       and not scf["present"].undetermined and not scf["absent"].undetermined)
        if len(f.returns) == 1 and f.returns[0].term in (("call", ("attr", store, "get"), (oid,), ()), ("call", ("attr", store, "get"), (oid, NONE), ())):
            ctx.ok("R01.7", f"{file}:{f.node.lineno} DataAdapter.from_id", "from_id(id) = _soundevent_store.get(id)")
        elif by_scenario:
            ctx.ok("R01.7", f"{file}:{f.node.lineno} DataAdapter.from_id", "from_id(id): the stored object when the id is registered, None otherwise")
        else:
            ctx.bad("R01.7", file, "DataAdapter.from_id", f"return {show(f.returns[0].term)[:60] if f.returns else '-'}",
                    "from_id must look the id up in the store filled by to_soundevent", f.node.lineno)
        for meth in ("_get_aoef_key", "_get_soundevent_key", "get_new_id"):
            k = ctx.summ.of_func(ADAPTERS_MOD, f"DataAdapter.{meth}")
            o = ("param", k.params[1])
            if len(k.returns) == 1 and k.returns[0].term == ("attr", o, "uuid"):
                ctx.ok("R01.7", f"{file}:{k.node.lineno} DataAdapter.{meth}", "default identity is the object's uuid")
            else:
                ctx.bad("R01.7", file, f"DataAdapter.{meth}", f"return {show(k.returns[0].term)[:40] if k.returns else '-'}",
                        f"the default {meth} must be the object's uuid (the id written to and read from the document)", k.node.lineno)
        # term codec: stored as its label, rebuilt from it
        cm = "soundevent.data.compat"
        check_term_codec(ctx)
        kft, tfk = ("global", f"{cm}:key_from_term", "func"), ("global", f"{cm}:term_from_key", "func")
        # every Term written goes through key_from_term; every Term read comes from term_from_key
        units = [(l.ci, l.writer_name, l.reader_name) for l in self.ao.leaves.values()] + \
                [(c.ci, "to_aoef", "to_soundevent") for c in self.ao.collections if "to_aoef" in c.ci.methods]
        for ci, wn, rn in units:
            ws = self.ctx.summ.of_node(ci.module, ci.methods[wn][-1], f"{ci.qual}.{wn}", ci) if wn in ci.methods else None
            rs = self.ctx.summ.of_node(ci.module, ci.methods[rn][-1], f"{ci.qual}.{rn}", ci) if rn in ci.methods else None
            if ws is not None:
                for r_ in ws.returns:
                    rt = fold_sub(expand_pure_calls(r_.term, self.ctx.summ, ci, ci.module))
                    uses = [x for x in walk(rt) if x[0] == "attr" and x[2] == "term"]
                    wrapped = [x[2][0] for x in walk(rt) if x[0] == "call" and x[1] == kft and len(x[2]) == 1]
                    for u in uses:
                        if u in wrapped:
                            ctx.ok("R01.7", f"{ci.module.relpath}:{r_.lineno} {ci.name}.{wn}", f"term {show(u)[:30]} written through key_from_term")
                        else:
                            ctx.bad("R01.7", ci.module.relpath, f"{ci.name}.{wn}", f"term written as {show(u)[:40]} without key_from_term",
                                    f"{ci.name}.{wn} writes a term without data.key_from_term (the reader rebuilds terms with term_from_key, "
                                    f"so the label would not round-trip)", r_.lineno)
            if rs is not None:
                for r_ in rs.returns:
                    for x in walk(fold_sub(expand_pure_calls(r_.term, self.ctx.summ, ci, ci.module))):
                        if x[0] == "call" and x[1][0] == "global" and x[1][2] == "class":
                            tv = callkw(x).get("term")
                            if tv is None:
                                continue
                            if tv[0] == "call" and tv[1] == tfk and len(tv[2]) == 1:
                                ctx.ok("R01.7", f"{ci.module.relpath}:{r_.lineno} {ci.name}.{rn}", "term rebuilt with term_from_key(stored key)")
                            else:
                                ctx.bad("R01.7", ci.module.relpath, f"{ci.name}.{rn}", f"term={show(tv)[:50]}",
                                        f"{ci.name}.{rn} rebuilds a term as {show(tv)[:60]} instead of data.term_from_key(<stored key>)", r_.lineno)
        # save / load codec options
        sv = ctx.summ.of_func(AOEF_PKG, "save")
        dumps = [e for e in sv.calls if e.term[1][0] == "attr" and e.term[1][2] == "model_dump_json"]
        afile = sv.module.relpath
        if len(dumps) == 1:
            kw = callkw(dumps[0].term)
            bad_opts = [k_ for k_ in ("exclude_defaults", "exclude_unset", "include", "by_alias", "round_trip") if k_ in kw and kw[k_] != ("const", False)]
            if kw.get("exclude_none") in (("const", True), None) and not bad_opts and kw.get("exclude", ("param", "exclude")) == ("param", "exclude"):
                ctx.ok("R01.7", f"{afile}:{dumps[0].lineno} save", "document dumped with exclude_none only (defaults such as collection_type are kept)")
            else:
                ctx.bad("R01.7", afile, "save", f"model_dump_json({', '.join(k_ for k_, _ in dumps[0].term[3])})",
                        f"the document must be dumped with exclude_none (and the caller's exclude) only: options {bad_opts or sorted(kw)} drop "
                        f"fields that carry information (e.g. the collection_type discriminator default, explicit defaults)", dumps[0].lineno)
        else:
            ctx.undec("R01.7", f"{afile} save", "model_dump_json call not found")
        ld = ctx.summ.of_func(AOEF_PKG, "load")
        val = [e for e in ld.calls if e.term[1] == ("attr", ("global", f"{AOEF_PKG}:AOEFObject", "class"), "model_validate_json")]
        if len(val) == 1:
            ctx.ok("R01.7", f"{afile}:{val[0].lineno} load", "document parsed by AOEFObject.model_validate_json")
        else:
            ctx.bad("R01.7", afile, "load", "AOEFObject.model_validate_json(path.read_text())", "the file is not parsed through the AOEFObject schema", ld.node.lineno)


def conjuncts_(t):
    from sa.sym import conjuncts
    return conjuncts(t)


def check_term_codec(ctx: Ctx):
    """key_from_term(term) is the term's label and term_from_key(key) rebuilds a term with that label (R01.7; also what the
    crowsetta labels `key:value` are made of and parsed with)."""
    cm = "soundevent.data.compat"
    k = ctx.summ.of_func(cm, "key_from_term")
    t = ("param", k.params[0])
    cfile = k.module.relpath
    if len(k.returns) == 1 and k.returns[0].term == ("attr", t, "label"):
        ctx.ok("R01.7", f"{cfile}:{k.node.lineno} key_from_term", "a term is stored as its label")
    else:
        ctx.bad("R01.7", cfile, "key_from_term", f"return {show(k.returns[0].term)[:40] if k.returns else '-'}",
                "a term must be stored as its label (the only permitted reduction); storing anything else changes the label on reload",
                k.node.lineno)
    k2 = ctx.summ.of_func(cm, "term_from_key")
    kk = ("param", k2.params[0])
    r = k2.returns[0].term if len(k2.returns) == 1 else None
    if r is not None and r[0] == "call" and callkw(r).get("label") == kk:
        ctx.ok("R01.7", f"{cfile}:{k2.node.lineno} term_from_key", "the stored key becomes the label of the rebuilt term")
    else:
        ctx.bad("R01.7", cfile, "term_from_key", f"return {show(r)[:60] if r else '-'}",
                "term_from_key must rebuild a Term whose label is the stored key", k2.node.lineno)


def NEW_ADAPTER_METHODS(ctx):
    """names of the methods of DataAdapter that the reference tree does not have (`reference`: convert and hand back the identifier)"""
    from sa.sym import PINNED
    from .aoef import ADAPTERS_MOD
    try:
        da = ctx.index.need_class(ADAPTERS_MOD, "DataAdapter")
    except Exception:  # noqa: BLE001
        return set()
    return {n for n in da.methods if f"DataAdapter.{n}" not in PINNED.get(ADAPTERS_MOD, ())}


def check_file_guards(ctx: Ctx):
    """R01.13: a file that was just written by save is accepted by load -- none of load's own rejections is live for an existing
    *.json file of the current version whose collection type is the requested one (or none requested) -- and save creates a
    missing parent directory, and only a missing one."""
    from sa.peval import peval, truth
    s = ctx.summ.of_func(AOEF_PKG, "load")
    file = s.module.relpath
    site = f"{file}:{s.node.lineno} load"
    T = ("param", "type")

    def decide(t_, type_given):
        return truth(peval(t_, file_guard_assignments(t_, type_given)))
    okl = True
    for tg in (False, True):
        for r in s.raises:
            if r.in_handler:
                continue
            v = decide(r.live, tg)
            if v is True:
                ctx.bad("R01.13", file, "load", f"raise under `{show(r.live)[-70:]}`",
                        f"io.aoef.load rejects an existing *.json file of the current version{' whose collection type is the requested one' if tg else ''}: "
                        f"`{show(r.live)[-100:]}` holds for it -- a file that save has just written cannot be loaded", r.lineno)
                okl = False
            elif v is None:
                ctx.undec("R01.13", site, f"cannot decide the rejection `{show(r.live)[-80:]}` for a file that was just saved")
                okl = False
    conv = [e for e in s.calls if e.term[1] == ("global", f"{AOEF_PKG}:to_soundevent", "func")]
    if conv and okl:
        if all(decide(e.live, tg) is True for e in conv for tg in (False, True)):
            ctx.ok("R01.13", site, "an existing *.json file of the current version reaches to_soundevent; no own rejection is live for it")
        else:
            ctx.bad("R01.13", file, "load", "to_soundevent(...) not reached", "io.aoef.load does not reach the conversion for a file that was just saved", conv[0].lineno)
    _check_save_guards(ctx)


def file_guard_assignments(t_, type_given=None):
    """what holds for a file that io.aoef.save has just written, as assignments of the atoms of a condition: it exists, it is a *.json
    file, its version is the current one, its collection type is the requested one (type_given None: leave the `type is None` atoms)"""
    T = ("param", "type")
    if True:
        asg = {}
        for x in walk(t_):
            if x[0] == "call" and x[1][0] == "attr" and x[1][2] in ("exists", "is_file") and not x[2]:
                asg[x] = True
            elif x[0] == "call" and x[1][0] == "global" and x[1][1].endswith(":is_json"):
                asg[x] = True
            elif x[0] == "call" and x[1] in (("ext", "os.path.exists"), ("ext", "os.path.isfile")):
                asg[x] = True
            elif x[0] == "cmp" and x[1] in ("is", "isnot") and x[2] == T and x[3] == NONE:
                if type_given is not None:
                    asg[x] = (not type_given) == (x[1] == "is")
            elif x[0] == "cmp" and x[1] in ("eq", "ne") and T in (x[2], x[3]):
                asg[x] = x[1] == "eq"  # the requested type is the stored one
            elif x[0] == "cmp" and x[1] in ("in", "notin") and x[2] == T and x[3][0] in ("tuple", "list", "set") and NONE in x[3][1] and len(x[3][1]) == 2:
                asg[x] = x[1] == "in"  # `type in (None, stored type)`: no type requested, or the stored one
            elif x[0] == "cmp" and x[1] in ("eq", "ne") and any(y[0] == "global" and y[1].endswith(":AOEF_VERSION") for y in (x[2], x[3])):
                asg[x] = x[1] == "eq"
            elif x[0] == "caught":
                asg[x] = False
        return asg


def _check_save_guards(ctx: Ctx):
    from sa.peval import peval, truth
    s = ctx.summ.of_func(AOEF_PKG, "save")
    file = s.module.relpath
    site = f"{file}:{s.node.lineno} save"
    mk = [e for e in s.calls if e.term[1][0] == "attr" and e.term[1][2] == "mkdir" or e.term[1] == ("ext", "os.makedirs")]
    for e in mk:
        kw = callkw(e.term)
        if kw.get("exist_ok") == ("const", True):
            ctx.ok("R01.13", site, "parent directory created with exist_ok=True")
            continue
        def dec2(exists):
            asg = {x: exists for x in walk(e.live) if (x[0] == "call" and x[1][0] == "attr" and x[1][2] in ("exists", "is_dir") and not x[2])
                   or (x[0] == "call" and x[1] in (("ext", "os.path.exists"), ("ext", "os.path.isdir")))}
            return truth(peval(e.live, asg))
        if dec2(True) is False and dec2(False) is True:
            ctx.ok("R01.13", site, "the parent directory is created exactly when it is missing")
        elif dec2(True) is None or dec2(False) is None:
            ctx.undec("R01.13", site, f"cannot decide when the parent directory is created: {show(e.live)[:80]}")
        else:
            ctx.bad("R01.13", file, "save", f"mkdir under `{show(e.live)[:60]}`",
                    f"io.aoef.save creates the parent directory under `{show(e.live)[:80]}`: "
                    + ("mkdir without exist_ok fails (FileExistsError) for every existing directory" if dec2(True) is True else "a missing directory is not created and the write fails"),
                    e.lineno)
    if not mk:
        ctx.note("io.aoef.save does not create a missing parent directory")


def run(ctx: Ctx):
    ctx.rule("R01.7", "reader registration discipline; term codec (label); save/load codec options", 27)
    ctx.rule("R01.8", "a field stored as it is has a document field of the same declared type", 60)
    ctx.rule("R01.1", "field carry: every declared field written, supplied on read; every document field consumed", 200)
    ctx.rule("R01.2", "writer and reader field maps are mutually inverse", 80)
    ctx.rule("R01.12", "readers in the present scenario: stored values are used, resolvable references are kept, nothing well-formed is rejected", 100)
    ctx.rule("R01.11", "writers convert parts with to_aoef, readers with to_soundevent / from_id", 40)
    ctx.rule("R01.10", "identifiers are looked up in the store of the adapter that issued them", 15)
    ctx.rule("R01.3", "every elision by the writer is restored by the reader; no scalar truthiness elision", 30)
    ctx.rule("R01.4", "top-level list completeness and writer/reader list agreement", 50)
    ctx.rule("R01.5", "reader registers lists with the right adapter, in wiring order", 90)
    ctx.rule("R01.6", "type table: most-specific-first, literals, union, DataType, fresh adapters", 25)
    c = C01(ctx)
    ctx.extra["adapters"] = {"leaf": sorted(l.name for l in c.ao.leaves.values()),
                             "collections": [col.ci.name for col in c.ao.collections]}
    if len(c.ao.leaves) < 16 or len(c.ao.collections) < 8:
        ctx.undec("R01.1", "io/aoef", f"adapter discovery found {len(c.ao.leaves)} leaf / {len(c.ao.collections)} "
                                      f"collection adapters (confirmed by hand: 16 / 8)")
    c.check_leaves()
    c.check_collections()
    c.check_table()
    c.check_codecs()
    # reference closure (the rules of C02) is a necessary condition of the round trip: an object that is referenced
    # but not defined in the document is silently dropped on load
    from . import c02
    # a declared list field of a collection is written element by element (a repeated entry survives the round trip)
    ctx.rule("R01.9", "the collection's own declared lists are written element by element, not through values()", 3)
    from .c02 import C02 as _C02, check_own_list_kept
    check_own_list_kept(ctx, _C02(ctx))
    with ctx.delegated("C02/"):
        c02.run(ctx, who_may_write=False)
    # "with and without an audio directory": the recording paths come back only if the directory given to save / load
    # reaches every recording adapter unchanged and the stored path is relative to exactly that directory (rules of C18)
    from . import c18
    with ctx.delegated("C18/"):
        c18.run_for_roundtrip(ctx)
    ctx.rule("R01.13", "a file that save has just written is accepted by load; the parent directory is created exactly when missing", 2)
    check_file_guards(ctx)
    return EXPLANATION, ASSUMPTIONS
