"""C10 -- crowsetta conversions preserve times, frequencies, labels and order (R10.1 - R10.6)."""

from __future__ import annotations

import ast
import itertools
from fractions import Fraction
from typing import Dict, List, Optional, Tuple

from sa.index import AnalysisError
from sa.canon import canon
from sa.peval import peval
from sa.report import Ctx
from sa.sym import callkw, FALSE, NONE, NOT, Summary, bind_args, conjuncts, show, subst, walk

CW = "soundevent.io.crowsetta"
SEG, BBOX, SEQ, ANN, LAB = (f"{CW}.{m}" for m in ("segment", "bbox", "sequence", "annotation", "labels"))
OPS = "soundevent.geometry.operations"

EXPLANATION = (
    "Static decision of the structural clauses of the crowsetta converters: R10.1 dimension analysis -- every "
    "coordinate of the imported interval / box carries the unit it must have (real seconds s^1 te^0 and real Hz on the "
    "adjusting path, file units on the non-adjusting path) when onsets/offsets are file-seconds or sample indices, the "
    "recording's samplerate is real (s^-1), and time_expansion is te^1: the factor is applied exactly once, times divided, "
    "frequencies multiplied, never when not requested; R10.2 export fields come from the bounds positions, sample indices "
    "are floor(time x samplerate) (int on non-negative times), the upper frequency is capped at Nyquist; R10.3 the cast / "
    "raise switches reject exactly the documented combinations (truth tables over geometry type and flags); R10.4 the "
    "error policy is skip iff ignore_errors else re-raise, with the append outside the handler; R10.5 one output per "
    "input in input order (single unfiltered loop / comprehension, no sorted/reversed/set); R10.6 the label cascades "
    "return what the documented option order prescribes in each option scenario, including 'an explicit option is not "
    "lost on a lookup miss'. Exact float reproduction export-after-import follows from pass-through when the factor is 1 (trusted)."
)
ASSUMPTIONS = ["crowsetta Segment/BBox/Sequence store the values they are given (trusted)",
               "Recording.samplerate and durations are real (time-expansion adjusted) quantities, as documented in data/recordings.py"]

DIMLESS = (Fraction(0), Fraction(0))


class DimError(Exception):
    pass


def opaque(outs_):
    """an outcome that is a call into a class / function the reference tree does not have (and the engine could not see through): the
    cascade lives there -- not decided"""
    from sa.sym import PINNED
    for o in outs_ or []:
        for x in walk(o):
            if x[0] == "global" and x[2] in ("class", "func") and ":" in x[1]:
                mod_, nm_ = x[1].split(":")
                if nm_.split(".")[0] not in PINNED.get(mod_, ()) and not any(n_.startswith(nm_.split(".")[0] + ".") for n_ in PINNED.get(mod_, ())):
                    return x[1]
    return None


class C10:
    def __init__(self, ctx: Ctx):
        self.ctx = ctx

    # ------------------------------------------------------------------ R10.1
    def dim(self, t, sources: Dict[tuple, Tuple[Fraction, Fraction]]):
        if t in sources:
            return sources[t]
        k = t[0]
        if k == "const":
            if isinstance(t[1], (int, float)) and not isinstance(t[1], bool):
                return DIMLESS
            raise DimError(f"non-numeric constant {t[1]!r}")
        if k == "neg":
            return self.dim(t[1], sources)
        if k == "bin":
            a, b = self.dim(t[2], sources), self.dim(t[3], sources)
            if t[1] == "*":
                return (a[0] + b[0], a[1] + b[1])
            if t[1] == "/":
                return (a[0] - b[0], a[1] - b[1])
            if t[1] in ("+", "-"):
                if a != b:
                    raise DimError(f"adding quantities of different units: {show(t[2])[:30]} [{self.dshow(a)}] and {show(t[3])[:30]} [{self.dshow(b)}]")
                return a
            raise DimError(f"operator {t[1]}")
        if k == "call" and t[1] in (("builtin", "float"), ("builtin", "int"), ("builtin", "abs"), ("builtin", "round")) and len(t[2]) == 1:
            return self.dim(t[2][0], sources)
        if k == "call" and t[1] in (("builtin", "max"), ("builtin", "min")):
            ds = {self.dim(a, sources) for a in t[2]}
            if len(ds) != 1:
                raise DimError("max/min over different units")
            return ds.pop()
        raise DimError(f"no unit known for {show(t)[:50]}")

    def dshow(self, d):
        names = ("s", "te")
        parts = [f"{n}^{e}" for n, e in zip(names, d) if e != 0]
        return " ".join(parts) or "1"

    def check_import_units(self):
        ctx = self.ctx
        REAL_T, REAL_F = (Fraction(1), Fraction(0)), (Fraction(-1), Fraction(0))
        FILE_T, FILE_F = (Fraction(1), Fraction(1)), (Fraction(-1), Fraction(-1))
        for modname, fname, objp, geom_cls, tfields, ffields, sample_fields in (
                (SEG, "segment_to_annotation", "segment", "TimeInterval", ("onset_s", "offset_s"), (), ("onset_sample", "offset_sample")),
                (BBOX, "bbox_to_annotation", "bbox", "BoundingBox", ("onset", "offset"), ("low_freq", "high_freq"), ())):
            s = ctx.summ.of_func(modname, fname)
            file = s.module.relpath
            site = f"{file}:{s.node.lineno} {fname}"
            obj, rec, adj = ("param", objp), ("param", "recording"), ("param", "adjust_time_expansion")
            te = ("attr", rec, "time_expansion")
            sources = {te: (Fraction(0), Fraction(1)), ("attr", rec, "samplerate"): (Fraction(-1), Fraction(0))}
            for f in tfields:
                sources[("attr", obj, f)] = FILE_T
            for f in ffields:
                sources[("attr", obj, f)] = FILE_F
            for f in sample_fields:
                sources[("attr", obj, f)] = DIMLESS
            ctor = [x for e in s.calls for x in [e.term] if x[0] == "call" and x[1] == ("global", f"soundevent.data.geometries:{geom_cls}", "class")]
            if len(ctor) != 1:
                ctx.undec("R10.1", site, f"data.{geom_cls}(...) construction not found")
                continue
            coords = callkw(ctor[0]).get("coordinates")
            if coords is None or coords[0] != "list":
                ctx.undec("R10.1", site, "coordinates are not a literal list")
                continue
            kinds = ["t", "t"] if geom_cls == "TimeInterval" else ["t", "f", "t", "f"]
            names = ["start", "end"] if geom_cls == "TimeInterval" else ["start", "low", "end", "high"]
            # onset and offset are given in seconds or in samples independently of each other
            secs_cases = list(itertools.product((True, False), repeat=2)) if sample_fields else [(True, True)]
            all_fields = tuple(tfields) + tuple(ffields) + tuple(sample_fields)
            for adjv, ne1, secs in itertools.product((True, False), (True, False), secs_cases):
                penv = {adj: adjv, ("cmp", "ne", te, ("const", 1)): ne1, ("cmp", "eq", te, ("const", 1)): not ne1,
                        ("cmp", "ne", te, ("const", 1.0)): ne1, ("cmp", "eq", te, ("const", 1.0)): not ne1,
                        # Recording.time_expansion is a declared float (never None)
                        ("cmp", "is", te, NONE): False, ("cmp", "isnot", te, NONE): True}
                for i_, f in enumerate(tfields):
                    penv[("cmp", "is", ("attr", obj, f), NONE)] = not secs[i_]
                    penv[("cmp", "isnot", ("attr", obj, f), NONE)] = secs[i_]
                for i_, f in enumerate(sample_fields):
                    penv[("cmp", "is", ("attr", obj, f), NONE)] = secs[i_]
                    penv[("cmp", "isnot", ("attr", obj, f), NONE)] = not secs[i_]
                adjusting = adjv and ne1
                given = "seconds" if all(secs) else ("samples" if not any(secs) else f"onset in {'seconds' if secs[0] else 'samples'}, offset in {'seconds' if secs[1] else 'samples'}")
                label = (f"adjust_time_expansion={adjv}, time_expansion {'!=' if ne1 else '=='} 1, {given} given")
                # which field of the element each coordinate is read from on this path
                own = {"start": tfields[0] if secs[0] else sample_fields[0], "end": tfields[1] if secs[1] else sample_fields[1]}
                if ffields:
                    own.update(low=ffields[0], high=ffields[1])
                # an element that carries each time in one of the two forms is convertible: no rejection may be live on this path
                from sa.peval import truth as _truth
                for r_ in s.raises:
                    if _truth(peval(r_.live, penv)) is True:
                        ctx.bad("R10.8", file, fname, f"raise under `{show(r_.live)[:70]}`",
                                f"{fname}, path [{label}]: the element is rejected (`{show(r_.live)[:90]}`) although its onset and offset are "
                                f"both given: the test for a missing time looks at the wrong field", r_.lineno, witness={"path": label})
                for nm, kind, c in zip(names, kinds, coords[1]):
                    v = peval(c, penv)
                    if not any(x[0] == "ite" for x in walk(v)):
                        read = sorted({x[2] for x in walk(v) if x[0] == "attr" and x[1] == obj and x[2] in all_fields})
                        if read == [own[nm]]:
                            ctx.ok("R10.8", site, f"{nm} [{label}]: read from {objp}.{own[nm]}")
                        else:
                            ctx.bad("R10.8", file, fname, f"{nm} = {show(v)[:70]} read from {read or 'no field'}",
                                    f"{fname}, path [{label}]: the {nm} coordinate `{show(v)[:90]}` is computed from {objp}.{', '.join(read) or '(no field)'} "
                                    f"instead of {objp}.{own[nm]}: the imported {'interval' if not ffields else 'box'} does not have the element's "
                                    f"{ {'start': 'onset', 'end': 'offset', 'low': 'lower frequency', 'high': 'upper frequency'}[nm] }", s.node.lineno,
                                    witness={"path": label, "coordinate": nm, "read_from": read, "required": own[nm]})
                    if any(x[0] == "ite" for x in walk(v)):
                        ctx.undec("R10.1", site, f"path [{label}] not resolved for {nm}: {show(v)[:60]}")
                        continue
                    try:
                        d = self.dim(v, sources)
                    except DimError as ex:
                        ctx.bad("R10.1", file, fname, f"{nm} = {show(v)[:70]} (dimension error)",
                                f"{fname}, path [{label}]: the {nm} coordinate `{show(v)[:90]}` is dimensionally inconsistent: {ex}",
                                s.node.lineno)
                        continue
                    if adjusting:
                        want = REAL_T if kind == "t" else REAL_F
                    elif ne1:
                        want = FILE_T if kind == "t" else FILE_F  # not requested: file units, no factor may be applied
                    else:
                        want = None  # factor == 1: te^k is 1 whatever k; only the s-exponent matters
                    okd = (d == want) if want is not None else (d[0] == (1 if kind == "t" else -1))
                    if okd:
                        ctx.ok("R10.1", site, f"{nm} [{label}]: unit {self.dshow(d)}")
                    else:
                        wtxt = self.dshow(want) if want else "s^%d" % (1 if kind == "t" else -1)
                        how = ""
                        if want is not None and d[0] == want[0]:
                            k_ = d[1] - want[1]
                            if not adjusting:
                                how = ": the time-expansion factor is applied although no adjustment was requested"
                            elif abs(k_) == 1:
                                how = ": the time-expansion factor is applied one time too many, too few, or in the wrong direction"
                            else:
                                how = f": the time-expansion factor is off by te^{k_}"
                        ctx.bad("R10.1", file, fname, f"{nm} = {show(v)[:70]} has unit {self.dshow(d)}, needs {wtxt}",
                                f"{fname}, path [{label}]: the {nm} coordinate `{show(v)[:90]}` has unit {self.dshow(d)} but must be "
                                f"{wtxt}{how}", s.node.lineno, witness={"path": label, "coordinate": nm, "unit": self.dshow(d), "required": wtxt})

    # ------------------------------------------------------------------ R10.2 / R10.3
    def check_export(self):
        ctx = self.ctx
        cb = ("global", f"{OPS}:compute_bounds", "func")
        # convert_geometry_to_interval
        s = ctx.summ.of_func(SEG, "convert_geometry_to_interval")
        file = s.module.relpath
        g, cast = ("param", s.params[0]), ("param", s.params[1])
        gt = ("attr", g, "type")
        site = f"{file}:{s.node.lineno} convert_geometry_to_interval"
        bad = None
        for ty, castv in itertools.product(("TimeInterval", "TimeStamp", "BoundingBox", "Polygon"), (True, False)):
            env = {gt: ty, cast: castv}
            rej = any(peval(r.live, env) == ("const", True) for r in s.raises)
            if rej != (ty != "TimeInterval" and not castv):
                bad = (ty, castv, rej)
            if not rej:
                outs = [peval(r.term, env) for r in s.returns if peval(r.live, env) == ("const", True)]
                B = ("call", cb, (g,), ())
                # compute_bounds(g) is geometry_to_shapely(g).bounds (C05 / R05.3): either spelling is the geometry's bounds
                shp_b_ = ("attr", ("call", ("global", "soundevent.geometry.conversion:geometry_to_shapely", "func"), (g,), ()), "bounds")
                outs = [subst(o_, {shp_b_: B}) for o_ in outs]
                c = ("attr", g, "coordinates")
                if ty == "TimeInterval":
                    want = [("tuple", (("sub", c, ("const", 0)), ("sub", c, ("const", 1))))]
                else:
                    ti = ("attr", ("call", ("global", "soundevent.data.geometries:TimeInterval", "class"), (), (("coordinates", ("list", (("sub", B, ("const", 0)), ("sub", B, ("const", 2))))),)), "coordinates")
                    want = [("tuple", (("sub", B, ("const", 0)), ("sub", B, ("const", 2)))), ("tuple", (("sub", ti, ("const", 0)), ("sub", ti, ("const", 1))))]
                if len(outs) != 1 or outs[0] not in want:
                    ctx.bad("R10.2", file, "convert_geometry_to_interval", f"{ty}: returns {show(outs[0])[:70] if outs else '-'}",
                            f"for a {ty} the exported interval must be ({'its coordinates' if ty == 'TimeInterval' else 'bounds[0], bounds[2]: the time extent'})",
                            s.node.lineno)
                else:
                    ctx.ok("R10.2", site, f"{ty}: interval = {'coordinates' if ty == 'TimeInterval' else 'time bounds'}")
        if bad is None:
            ctx.ok("R10.3", site, "raises iff type != TimeInterval and not cast_to_segment")
        else:
            ctx.bad("R10.3", file, "convert_geometry_to_interval", "cast switch",
                    f"a {bad[0]} with cast_to_segment={bad[1]} is {'rejected' if bad[2] else 'converted'} (reject iff it is not a TimeInterval and casting is off)",
                    s.node.lineno, witness={"type": bad[0], "cast": bad[1]})
        # convert_geometry_to_bbox
        s = ctx.summ.of_func(BBOX, "convert_geometry_to_bbox")
        file = s.module.relpath
        g, cast, rot = ("param", s.params[0]), ("param", s.params[1]), ("param", s.params[2])
        gt = ("attr", g, "type")
        site = f"{file}:{s.node.lineno} convert_geometry_to_bbox"
        bad = None
        for ty, castv, rotv in itertools.product(("TimeInterval", "TimeStamp", "BoundingBox", "Polygon"), (True, False), (True, False)):
            env = {gt: ty, cast: castv, rot: rotv}
            rej = any(peval(r.live, env) == ("const", True) for r in s.raises)
            want = (ty != "BoundingBox" and not castv) or (ty in ("TimeInterval", "TimeStamp") and rotv)
            if rej != want:
                bad = (ty, castv, rotv, rej)
        if bad is None:
            ctx.ok("R10.3", site, "raises iff (not a BoundingBox and not cast) or (time-only geometry and raise_on_time_geometries)")
        else:
            ctx.bad("R10.3", file, "convert_geometry_to_bbox", "cast / raise switches",
                    f"a {bad[0]} with cast_to_bbox={bad[1]}, raise_on_time_geometries={bad[2]} is {'rejected' if bad[3] else 'converted'} "
                    f"(documented: reject non-boxes unless casting; reject time-only geometries when asked)", s.node.lineno,
                    witness={"type": bad[0], "cast": bad[1], "raise_on_time": bad[2]})
        shp_b_ = ("attr", ("call", ("global", "soundevent.geometry.conversion:geometry_to_shapely", "func"), (g,), ()), "bounds")
        B_ = ("call", cb, (g,), ())

        def as_bounds(t):
            """compute_bounds(g), geometry_to_shapely(g).bounds, tuple(...) of either, or the four bounds spelled out in order"""
            t = subst(t, {shp_b_: B_})
            while t[0] == "call" and t[1] == ("builtin", "tuple") and len(t[2]) == 1 and not t[3]:
                t = t[2][0]
            if t[0] in ("tuple", "list") and len(t[1]) == 4 and all(x == ("sub", B_, ("const", i)) for i, x in enumerate(t[1])):
                return B_
            if t[0] == "call" and t[1][0] == "global" and t[1][2] == "class" and len(t[2]) == 4 and not t[3] and all(x == ("sub", B_, ("const", i)) for i, x in enumerate(t[2])):
                return B_  # a NamedTuple record of the four bounds in order: as a tuple, the bounds
            return t
        if s.returns and all(as_bounds(r.term) == B_ for r in s.returns):
            ctx.ok("R10.2", site, "returns compute_bounds(geometry)")
        else:
            ctx.bad("R10.2", file, "convert_geometry_to_bbox", "return compute_bounds(geometry)", "the box must be the geometry's bounds", s.node.lineno)
        # exporters
        for modname, fname in ((SEG, "segment_from_annotation"), (BBOX, "bbox_from_annotation")):
            s = ctx.summ.of_func(modname, fname)
            file = s.module.relpath
            site = f"{file}:{s.node.lineno} {fname}"
            obj = ("param", s.params[0])
            geom = ("attr", ("attr", obj, "sound_event"), "geometry")
            none_rej = [r for r in s.raises if ("cmp", "is", geom, NONE) in conjuncts(r.live)]
            if none_rej:
                ctx.ok("R10.3", site, "geometry None -> ValueError")
            else:
                ctx.bad("R10.3", file, fname, "if geometry is None: raise ValueError", "a sound event without geometry is not rejected with ValueError", s.node.lineno)
        s = ctx.summ.of_func(SEG, "segment_from_annotation")
        file = s.module.relpath
        obj = ("param", s.params[0])
        se = ("attr", obj, "sound_event")
        conv = [e.term for e in s.calls if e.term[1] == ("global", f"{SEG}:convert_geometry_to_interval", "func")]
        mk = [r.term for r in s.returns if r.term[0] == "call" and r.term[1][0] == "global" and r.term[1][1].endswith(":create_crowsetta_segment")]
        site = f"{file}:{s.node.lineno} segment_from_annotation"
        if len(conv) == 1 and len(mk) == 1:
            cs = ctx.summ.of_func(SEG, "convert_geometry_to_interval")
            b, _, _, _ = bind_args(conv[0], cs.params)
            if b.get(cs.params[0]) == ("attr", se, "geometry") and b.get(cs.params[1]) == ("param", "cast_to_segment"):
                ctx.ok("R10.2", site, "interval from the event's geometry, cast flag forwarded")
            else:
                ctx.bad("R10.2", file, "segment_from_annotation", f"convert_geometry_to_interval({show(conv[0])[:60]})", "geometry / cast flag not forwarded", s.node.lineno)
            kw = callkw(mk[0])
            st, en = ("sub", conv[0], ("const", 0)), ("sub", conv[0], ("const", 1))
            sr = ("attr", ("attr", se, "recording"), "samplerate")
            try:
                ts = ctx.summ.of_func(SEG, "convert_time_to_sample")
            except AnalysisError:
                ts = None  # the one-line converter is gone: whatever replaced it is inlined in the keyword values

            def sample_of(t):
                """resolve convert_time_to_sample(recording, time) -> its body"""
                if ts is not None and t is not None and t[0] == "call" and t[1] == ("global", f"{SEG}:convert_time_to_sample", "func"):
                    b, _, _, _ = bind_args(t, ts.params)
                    body = ts.returns[0].term if len(ts.returns) == 1 else None
                    if body is None:
                        return None
                    return subst(body, {("param", p): v for p, v in b.items()})
                return t

            ok_all = True
            for k, want in (("onset_s", st), ("offset_s", en)):
                if kw.get(k) != want:
                    ok_all = False
                    ctx.bad("R10.2", file, "segment_from_annotation", f"{k}={show(kw.get(k, NONE))[:50]}",
                            f"{k} must be the {'start' if k == 'onset_s' else 'end'} of the geometry's time extent", s.node.lineno)
            for k, tm in (("onset_sample", st), ("offset_sample", en)):
                v = sample_of(kw.get(k))
                good = False
                why = ""
                if v is not None and v[0] == "call" and v[1] in (("builtin", "int"), ("ext", "math.floor")) and len(v[2]) == 1:
                    inner = v[2][0]
                    if inner[0] == "call" and inner[1] in (("ext", "numpy.floor"), ("ext", "math.floor")):
                        inner = inner[2][0]
                    good = canon(inner) == canon(("bin", "*", tm, ("attr", ("attr", se, "recording"), "samplerate")))
                elif v is not None and v[0] == "call" and v[1] in (("builtin", "round"), ("ext", "math.ceil"), ("ext", "numpy.ceil"), ("ext", "numpy.round")):
                    why = f" ({v[1][1]} instead of floor)"
                if good:
                    ctx.ok("R10.2", site, f"{k} = floor(time x samplerate)")
                else:
                    ok_all = False
                    ctx.bad("R10.2", file, "segment_from_annotation", f"{k}={show(v)[:60] if v else '-'}",
                            f"{k} must be floor({'start' if k.startswith('onset') else 'end'} time x recording.samplerate){why}", s.node.lineno)
            if ok_all:
                ctx.ok("R10.2", site, "onset/offset seconds = time bounds")
        else:
            ctx.undec("R10.2", site, "converter / segment construction not found")
        s = ctx.summ.of_func(BBOX, "bbox_from_annotation")
        file = s.module.relpath
        obj = ("param", s.params[0])
        se = ("attr", obj, "sound_event")
        site = f"{file}:{s.node.lineno} bbox_from_annotation"
        conv = [e.term for e in s.calls if e.term[1] == ("global", f"{BBOX}:convert_geometry_to_bbox", "func")]
        mk = [r.term for r in s.returns if r.term[0] == "call" and r.term[1] == ("ext", "crowsetta.BBox")]
        if len(conv) == 1 and len(mk) == 1:
            cs = ctx.summ.of_func(BBOX, "convert_geometry_to_bbox")
            b, _, _, _ = bind_args(conv[0], cs.params)
            if b.get(cs.params[0]) == ("attr", se, "geometry") and b.get("cast_to_bbox") == ("param", "cast_to_bbox") and b.get("raise_on_time_geometries") == ("param", "raise_on_time_geometries"):
                ctx.ok("R10.2", site, "box from the event's geometry, both switches forwarded")
            else:
                ctx.bad("R10.2", file, "bbox_from_annotation", f"convert_geometry_to_bbox({show(conv[0])[:70]})", "geometry / switches not forwarded under their own names", s.node.lineno)
            kw = callkw(mk[0])
            B = [("sub", conv[0], ("const", i)) for i in range(4)]
            nyq = ("bin", "/", ("attr", ("attr", se, "recording"), "samplerate"), ("const", 2))
            wants = {"onset": B[0], "offset": B[2], "low_freq": B[1], "high_freq": ("call", ("builtin", "min"), (B[3], nyq), ())}
            from sa.idioms import norm_minmax
            for k, w in wants.items():
                if canon(norm_minmax(kw.get(k, NONE))) == canon(norm_minmax(w)):
                    ctx.ok("R10.2", site, f"{k} = {show(w)[:50]}")
                else:
                    ctx.bad("R10.2", file, "bbox_from_annotation", f"{k}={show(kw.get(k, NONE))[:60]}",
                            f"{k} must be {show(w)[:70]} (bounds are (start, low, end, high); upper frequency capped at Nyquist)", s.node.lineno)
        else:
            ctx.undec("R10.2", site, "converter / BBox construction not found")

    # ------------------------------------------------------------------ R10.4 / R10.5
    def check_policy(self):
        ctx = self.ctx
        for modname, fname, conv, item_param in ((SEQ, "sequence_from_annotations", f"{SEG}:segment_from_annotation", "annotations"),
                                                 (ANN, "annotation_from_clip_annotation", f"{BBOX}:bbox_from_annotation", None)):
            s = ctx.summ.of_func(modname, fname)
            file = s.module.relpath
            site = f"{file}:{s.node.lineno} {fname}"
            ig = ("param", "ignore_errors")
            calls = [e for e in s.calls if e.term[1] == ("global", conv, "func")]
            want_iter = ("param", item_param) if item_param else ("attr", ("param", "annot"), "sound_events")
            if not calls:
                # the loop may live in a helper of the same module (a generator of the converted elements): read it there, with the
                # helper's parameters standing for what the function hands over
                for he in s.calls:
                    if he.term[1][0] == "global" and he.term[1][2] == "func" and he.term[1][1].startswith(modname + ":"):
                        try:
                            hs = ctx.summ.of_func(modname, he.term[1][1].split(":")[1])
                        except Exception:  # noqa: BLE001
                            continue
                        if any(e2.term[1] == ("global", conv, "func") for e2 in hs.calls):
                            b_, _, _, _ = bind_args(he.term, hs.params)
                            inv = {v_: ("param", p_) for p_, v_ in b_.items()}
                            if want_iter in inv and ig in inv:
                                s, want_iter, ig = hs, inv[want_iter], inv[ig]
                                calls = [e for e in s.calls if e.term[1] == ("global", conv, "func")]
                                fname = f"{fname} (through {hs.node.name})"
                            break
            if len(calls) != 1 or not calls[0].loops or not calls[0].handlers:
                ctx.bad("R10.4", file, fname, "try: convert(...) except ValueError", "the per-element conversion is not inside a try block within the element loop", s.node.lineno)
                continue
            c = calls[0]
            L = s.loops[c.loops[-1]]
            if L.iter != want_iter or L.conds or L.kind != "for":
                ctx.bad("R10.5", file, fname, f"for ... in {show(L.iter)[:50]}",
                        f"elements must be converted by one in-order, unfiltered loop over {show(want_iter)} (found {show(L.iter)[:60]})", c.lineno)
            else:
                ctx.ok("R10.5", f"{file}:{c.lineno} {fname}", f"single in-order loop over {show(want_iter)}")
            if c.term[2][:1] != (("elem", L.id),):
                ctx.bad("R10.5", file, fname, f"{show(c.term)[:60]}", "the converter is not applied to the loop element", c.lineno)
            tid = c.handlers[-1]
            hs = s.tries[tid].handlers
            names = [n for _, ns in hs for n in ns]
            if names != ["ValueError"]:
                ctx.bad("R10.4", file, fname, f"except {names}", "only ValueError (an unconvertible event) may be handled", c.lineno)
                continue
            hid = hs[0][0]
            inh = [e for e in s.events if hid in e.in_handler]
            cont = [e for e in inh if e.kind == "continue"]
            rer = [e for e in inh if e.kind == "raise"]
            # the handler re-raises exactly when ignore_errors is off; when it is on the element is skipped: the handler
            # either continues or falls through to code that runs only after a successful conversion
            falls = s.tries[tid].falls.get(hid, FALSE)
            skip_ok = (len(cont) == 1 and ig in conjuncts(cont[0].live) and falls == FALSE) or \
                      (not cont and falls != FALSE and ig in conjuncts(falls))
            other = [e for e in inh if e.kind in ("store", "return", "break", "yield")]
            good = skip_ok and len(rer) == 1 and NOT(ig) in conjuncts(rer[0].live) and not other
            if good:
                ctx.ok("R10.4", f"{file}:{c.lineno} {fname}", "except ValueError: continue iff ignore_errors, else re-raise")
            else:
                ctx.bad("R10.4", file, fname, f"handler: continue under {[show(e.live)[-40:] for e in cont]}, raise under {[show(e.live)[-40:] for e in rer]}",
                        "on an unconvertible event the loop must skip it iff ignore_errors and re-raise otherwise", c.lineno)
            apps = [e for e in s.calls if e.term[1][0] == "attr" and e.term[1][2] == "append" and L.id in e.loops and not e.in_handler]
            if not apps and s.is_generator:
                # a generator hands each converted element on with `yield`
                ys_ = [e for e in s.yields if L.id in e.loops and not e.in_handler]
                if len(ys_) == 1 and ys_[0].term == c.term and not ys_[0].handlers or (len(ys_) == 1 and ys_[0].term == c.term and ys_[0].handlers == c.handlers):
                    ctx.ok("R10.4", f"{file}:{ys_[0].lineno} {fname}", "one yield per converted element")
                    continue
            success_only = apps and (falls == FALSE or ("completed", tid) in conjuncts(apps[0].live))
            # `try: out.append(convert(x))`: the append runs only when the conversion returned
            in_body = len(apps) == 1 and apps[0].handlers == c.handlers and len(apps[0].term[2]) == 1 and apps[0].term[2][0] == c.term
            if len(apps) == 1 and not apps[0].in_handler and (not apps[0].handlers or in_body) and (success_only or in_body):
                ctx.ok("R10.4", f"{file}:{apps[0].lineno} {fname}", "one append per converted element, outside the handler")
            else:
                ctx.bad("R10.4", file, fname, f"{len(apps)} appends", "exactly one append per successfully converted element, outside the try/except", c.lineno)
        # importers
        s = ctx.summ.of_func(SEQ, "sequence_to_annotations")
        file = s.module.relpath
        site = f"{file}:{s.node.lineno} sequence_to_annotations"
        r = s.returns[0].term if len(s.returns) == 1 else None
        ts = ctx.summ.of_func(SEG, "segment_to_annotation")
        if r is not None and r[0] == "comp" and r[1] == "list" and len(r[3]) == 1 and not r[3][0][2] and r[3][0][1] == ("attr", ("param", "sequence"), "segments") \
                and r[2][0] == "call" and r[2][1] == ("global", f"{SEG}:segment_to_annotation", "func"):
            b, extra, spreads, _ = bind_args(r[2], ts.params)
            e = ("elem", r[3][0][0])
            if b.get("segment") == e and b.get("recording") == ("param", "recording") and b.get("adjust_time_expansion") == ("param", "adjust_time_expansion") \
                    and b.get("created_by") == ("param", "created_by"):
                ctx.ok("R10.5", site, "[segment_to_annotation(segment, recording, adjust_time_expansion=..., created_by=...) for segment in sequence.segments]")
            else:
                ctx.bad("R10.5", file, "sequence_to_annotations", f"{show(r[2])[:80]}", "the per-segment options are not forwarded under their own names", s.node.lineno)
        else:
            ctx.bad("R10.5", file, "sequence_to_annotations", f"return {show(r)[:70] if r else '-'}",
                    "one annotation per segment, in order: [segment_to_annotation(segment, ...) for segment in sequence.segments]", s.node.lineno)
        s = ctx.summ.of_func(ANN, "annotation_to_clip_annotation")
        file = s.module.relpath
        site = f"{file}:{s.node.lineno} annotation_to_clip_annotation"
        for convq, params in ((f"{BBOX}:bbox_to_annotation", "bbox_to_annotation"), (f"{SEQ}:sequence_to_annotations", "sequence_to_annotations")):
            cs = [e for e in s.calls if e.term[1] == ("global", convq, "func")]
            modn, fn = convq.split(":")
            fs = ctx.summ.of_func(modn, fn)
            if len(cs) != 1 or not cs[0].loops:
                ctx.bad("R10.5", file, "annotation_to_clip_annotation", f"{fn} call", f"{fn} is not applied once per element in a loop", s.node.lineno)
                continue
            b, _, _, _ = bind_args(cs[0].term, fs.params)
            L = s.loops[cs[0].loops[-1]]
            cj = list(conjuncts(cs[0].live))
            inner = cj[cj.index(("inloop", L.id)) + 1:] if ("inloop", L.id) in cj else ["?"]
            okb = b.get(fs.params[0]) == ("elem", L.id) and b.get("adjust_time_expansion") == ("param", "adjust_time_expansion") and not L.conds \
                and not inner and b.get("created_by") == ("param", "created_by")
            # ... and what it returns is collected into the clip annotation's sound events
            CA = [x for r_ in s.returns for x in walk(r_.term) if x[0] == "call" and x[1][0] == "global" and x[1][1].endswith(":ClipAnnotation")]
            collected = None
            if len(CA) == 1:
                T = callkw(CA[0]).get("sound_events")
                if T is not None:
                    conv = cs[0].term
                    collected = any(x == conv for x in walk(T))
                    for al in [x for x in walk(T) if x[0] == "alloc"]:
                        for e_ in s.calls:
                            if e_.term[1][0] == "attr" and e_.term[1][1] == al and e_.term[1][2] in ("append", "extend") and e_.term[2] \
                                    and any(x == conv for x in walk(e_.term[2][0])):
                                collected = True
            if okb and collected is False:
                ctx.bad("R10.5", file, "annotation_to_clip_annotation", f"{fn}(...) results not collected",
                        f"the annotations produced by {fn} never reach ClipAnnotation(sound_events=...): the elements they were converted from "
                        f"are missing from the imported clip annotation", cs[0].lineno)
            elif okb:
                ctx.ok("R10.5", f"{file}:{cs[0].lineno} annotation_to_clip_annotation", f"{fn}(element, adjust_time_expansion=adjust_time_expansion, created_by=created_by) for every element")
            else:
                ctx.bad("R10.5", file, "annotation_to_clip_annotation", f"{show(cs[0].term)[:80]}",
                        f"{fn} must be applied unconditionally to every element with adjust_time_expansion / created_by forwarded", cs[0].lineno)

    # ------------------------------------------------------------------ R10.9
    def check_annotation_dispatch(self):
        """the annotation-level converters pick the element converter by the requested format and accept what is convertible:
        'bbox' -> Annotation(bboxes=...), 'seq' -> Annotation(seq=...), anything else is rejected; an annotation with a recording
        handed in (or a notated path to load it from) is imported, one with neither is rejected"""
        ctx = self.ctx
        from sa.peval import truth as _truth
        s = ctx.summ.of_func(ANN, "annotation_from_clip_annotation")
        file = s.module.relpath
        site = f"{file}:{s.node.lineno} annotation_from_clip_annotation"
        fmt = ("param", "annotation_fmt")
        okd = True
        for val, want_kw in (("bbox", "bboxes"), ("seq", "seq"), ("other", None)):
            env = {fmt: val}
            # a lookup in a table of exporters guarded by `except KeyError`: the handler runs for a format the table does not have
            for e_ in s.events:
                for x in walk(e_.live):
                    if x[0] == "caught" and any(n_.split(".")[-1] in ("KeyError", "LookupError") for n_ in x[2]):
                        env[x] = val not in ("bbox", "seq")
            rets = [r for r in s.returns if _truth(peval(r.live, env)) is not False and r.term[0] != "error"]  # (a failed table lookup is no result)
            rais = [r for r in s.raises if _truth(peval(r.live, env)) is not False and (not r.in_handler or (any(x in env for x in walk(r.live) if x[0] == "caught") and not any(x[0] == "caught" and x not in env for x in walk(r.live))))]
            und = [x for x in rets + rais if _truth(peval(x.live, env)) is None]
            if und:
                ctx.undec("R10.9", site, f"annotation_fmt={val!r}: path condition not decided by the format alone: {show(und[0].live)[:70]}")
                okd = False
                continue
            if want_kw is None:
                if rets or not rais:
                    ctx.bad("R10.9", file, "annotation_from_clip_annotation", f"annotation_fmt={val!r}",
                            "an unknown annotation format is not rejected", s.node.lineno)
                    okd = False
                continue
            # keywords given through a dictionary chosen by the format: under this format the other one is absent
            kws = [{k_ for k_, v_ in callkw(peval(r.term, env)).items() if v_ != ("absent",)} if r.term[0] == "call" else set() for r in rets]
            other = "seq" if want_kw == "bboxes" else "bboxes"
            if rais or len(rets) != 1 or want_kw not in kws[0] or other in kws[0]:
                ctx.bad("R10.9", file, "annotation_from_clip_annotation", f"annotation_fmt={val!r}",
                        f"with annotation_fmt={val!r} the function {'raises' if rais else 'returns ' + (show(rets[0].term)[:60] if rets else 'nothing')}: "
                        f"it must return crowsetta.Annotation({want_kw}=...) built by the {'bounding box' if want_kw == 'bboxes' else 'sequence'} exporter",
                        s.node.lineno, witness={"annotation_fmt": val})
                okd = False
        # the options that decide "skips or raises on unconvertible events as requested" reach the sequence exporter
        sq = [x for r in s.returns for x in walk(r.term) if x[0] == "call" and x[1] == ("global", f"{SEQ}:sequence_from_annotations", "func")]
        if sq:
            sqs = ctx.summ.of_func(SEQ, "sequence_from_annotations")
            b_, _, _, _ = bind_args(sq[0], sqs.params)
            for opt, src in (("ignore_errors", ("param", "ignore_errors")), ("cast_to_segment", ("param", "cast_geometry"))):
                if opt in sqs.params and b_.get(opt) != src:
                    ctx.bad("R10.9", file, "annotation_from_clip_annotation", f"sequence_from_annotations(... {opt}={show(b_.get(opt, NONE))})",
                            f"the 'seq' export does not hand its `{src[1]}` to sequence_from_annotations (receives {show(b_.get(opt, NONE)) if opt in b_ else 'the default'}): "
                            f"unconvertible events are skipped or raised regardless of what the caller asked for", s.node.lineno)
                    okd = False
        if okd:
            ctx.ok("R10.9", site, "'bbox' -> Annotation(bboxes=...), 'seq' -> Annotation(seq=...), anything else rejected")
        s = ctx.summ.of_func(ANN, "annotation_to_clip_annotation")
        site = f"{file}:{s.node.lineno} annotation_to_clip_annotation"
        rec, npath = ("param", "recording"), ("attr", ("param", "annot"), "notated_path")

        def decide(t_, rec_given, path_given, same):
            r_ = peval(t_, {("cmp", "is", rec, NONE): not rec_given, ("cmp", "isnot", rec, NONE): rec_given,
                            ("cmp", "is", npath, NONE): not path_given, ("cmp", "isnot", npath, NONE): path_given})
            asg = {}
            for x in walk(r_):
                if x[0] == "cmp" and x[1] in ("is", "isnot") and x[3] == NONE and any(y == npath for y in walk(x[2])):
                    asg[x] = path_given == (x[1] == "isnot")
                elif x[0] == "cmp" and x[1] in ("eq", "ne") and any(y == npath for y in walk(x)) and any(y[0] == "attr" and y[2] == "path" for y in walk(x)):
                    asg[x] = same == (x[1] == "eq")
            return _truth(peval(r_, asg)) if asg else _truth(r_)
        okd = True
        for rg, pg, same, want_rej, what in ((True, False, True, False, "a recording and no notated path"), (True, True, True, False, "a recording and its own path notated"),
                                             (False, True, True, False, "no recording but a notated path"), (False, False, True, True, "neither a recording nor a notated path"),
                                             (True, True, False, True, "a recording and another file's path notated")):
            rej = [decide(r.live, rg, pg, same) for r in s.raises if not r.in_handler]
            if None in rej:
                ctx.undec("R10.9", site, f"cannot decide the rejections for {what}")
                okd = False
            elif any(rej) != want_rej:
                ctx.bad("R10.9", file, "annotation_to_clip_annotation", f"annotation with {what}",
                        f"an annotation with {what} is {'rejected' if any(rej) else 'accepted'}", s.node.lineno)
                okd = False
        # `annot.seq` is one sequence or a list of sequences: a list is iterated as it is, a single sequence as a list of one
        seqcalls = [e for e in s.calls if e.term[1] == ("global", f"{SEQ}:sequence_to_annotations", "func") and e.loops]
        if seqcalls:
            L = s.loops[seqcalls[0].loops[-1]]
            isl = [x for x in walk(L.iter) if x[0] == "call" and x[1] == ("builtin", "isinstance") and len(x[2]) == 2 and x[2][1] in (("builtin", "list"), ("tuple", (("builtin", "list"), ("builtin", "tuple"))))]
            if isl:
                src_ = isl[0][2][0]
                as_list = peval(L.iter, {isl[0]: True, ("not", isl[0]): False})
                as_one = peval(L.iter, {isl[0]: False, ("not", isl[0]): True})
                if as_list == src_ and as_one == ("list", (src_,)):
                    ctx.ok("R10.9", site, "a list of sequences is iterated as it is, a single sequence as a list of one")
                else:
                    ctx.bad("R10.9", file, "annotation_to_clip_annotation", f"for sequence in {show(L.iter)[:60]}",
                            f"the sequences are iterated as {show(as_list)[:50]} when annot.seq is a list and as {show(as_one)[:50]} when it is a "
                            f"single sequence: a list must be iterated as it is and a single sequence wrapped into a list of one", seqcalls[0].lineno)
                    okd = False
        if okd:
            ctx.ok("R10.9", site, "imported with a recording or a notated path; rejected with neither or with a foreign path")

    # ------------------------------------------------------------------ R10.6
    def mapping_scenario(self, t, m, label, hit: Optional[bool], hitval):
        """Rewrite lookups of `label` in mapping parameter m for the scenario hit / miss (None: mapping not given)."""
        if not isinstance(t, tuple) or not t:
            return t
        if not isinstance(t[0], str):
            return tuple(self.mapping_scenario(c, m, label, hit, hitval) for c in t)
        t = tuple(self.mapping_scenario(c, m, label, hit, hitval) if isinstance(c, tuple) else c for c in t)
        if hit is None:
            if t == ("cmp", "is", m, NONE):
                return ("const", True)
            if t == ("cmp", "isnot", m, NONE):
                return ("const", False)
            return t
        if t == ("cmp", "is", m, NONE):
            return ("const", False)
        if t == ("cmp", "isnot", m, NONE):
            return ("const", True)
        if t == ("cmp", "in", label, m):
            return ("const", hit)
        if t == ("cmp", "notin", label, m):
            return ("const", not hit)
        if t[0] == "call" and t[1] == ("attr", m, "get") and t[2][:1] == (label,):
            if hit:
                return hitval
            return t[2][1] if len(t[2]) > 1 else NONE
        if t == ("sub", m, label):
            return hitval if hit else ("error", "KeyError")
        return t

    def check_label_to_tags(self):
        ctx = self.ctx
        s = ctx.summ.of_func(LAB, "label_to_tags")
        file = s.module.relpath
        site = f"{file}:{s.node.lineno} label_to_tags"
        P = {p: ("param", p) for p in s.params}
        label = P["label"]
        Tag = ("global", "soundevent.data.tags:Tag", "class")
        tfk = ("global", "soundevent.data.compat:term_from_key", "func")

        def run(name, tag_fn=False, term=False, key=False, tm=None, tgm=None, km=None, empty=False):
            def prep(t):
                t = self.mapping_scenario(t, P["term_mapping"], label, tm, ("sym", "term_mapping[label]"))
                t = self.mapping_scenario(t, P["tag_mapping"], label, tgm, ("sym", "tag_mapping[label]"))
                t = self.mapping_scenario(t, P["key_mapping"], label, km, ("sym", "key_mapping[label]"))
                return t
            env = {("cmp", "in", label, P["empty_labels"]): empty, ("cmp", "notin", label, P["empty_labels"]): not empty,
                   ("cmp", "is", P["tag_fn"], NONE): not tag_fn, ("cmp", "isnot", P["tag_fn"], NONE): tag_fn,
                   ("cmp", "is", P["term"], NONE): not term, ("cmp", "isnot", P["term"], NONE): term,
                   ("cmp", "is", P["key"], NONE): not key, ("cmp", "isnot", P["key"], NONE): key,
                   ("cmp", "is", ("sym", "term_mapping[label]"), NONE): False, ("cmp", "isnot", ("sym", "term_mapping[label]"), NONE): True,
                   ("cmp", "is", ("sym", "key_mapping[label]"), NONE): False, ("cmp", "isnot", ("sym", "key_mapping[label]"), NONE): True}
            outs = []
            for r in s.returns:
                lv = peval(prep(r.live), env)
                if lv == ("const", True):
                    outs.append(peval(prep(r.term), env))
                elif lv[0] != "const":
                    # conditions on isinstance(tags, list) etc. inside the tag_fn / tag_mapping branches: keep both
                    if any(x[0] == "call" and x[1] == ("builtin", "isinstance") for x in walk(lv)):
                        outs.append(peval(prep(r.term), env))
                    else:
                        return None, f"path condition not resolved: {show(lv)[:70]}"
            return outs, None

        def tag_of(term_t):
            return ("list", (("call", Tag, (), (("term", term_t), ("value", label))),))

        scen = [
            ("empty label", dict(empty=True), lambda o: o == [("list", ())], "[] (no tags)"),
            ("explicit term only", dict(term=True), lambda o: o == [tag_of(P["term"])], "[Tag(term=term, value=label)]"),
            ("term_mapping hit overrides explicit term", dict(term=True, tm=True), lambda o: o == [tag_of(("sym", "term_mapping[label]"))], "[Tag(term=term_mapping[label], value=label)]"),
            ("tag_mapping hit, no term", dict(tgm=True), lambda o: all(any(x == ("sym", "tag_mapping[label]") for x in walk(t)) for t in o) and bool(o), "tag_mapping[label] (as a list)"),
            ("key_mapping hit, no term", dict(km=True), lambda o: o == [tag_of(("call", tfk, (("sym", "key_mapping[label]"),), ()))], "[Tag(term=term_from_key(key_mapping[label]), value=label)]"),
            ("key_mapping miss, explicit key", dict(km=False, key=True), lambda o: o == [tag_of(("call", tfk, (P["key"],), ()))], "[Tag(term=term_from_key(key), value=label)] -- the explicit key must survive a lookup miss"),
            ("explicit key only", dict(key=True), lambda o: o == [tag_of(("call", tfk, (P["key"],), ()))], "[Tag(term=term_from_key(key), value=label)]"),
            ("no option", dict(), lambda o: o == [tag_of(("call", tfk, (P["fallback"],), ()))], "[Tag(term=term_from_key(fallback), value=label)]"),
            ("key_mapping miss, no key", dict(km=False), lambda o: o == [tag_of(("call", tfk, (P["fallback"],), ()))], "[Tag(term=term_from_key(fallback), value=label)]"),
            ("tag_mapping miss falls through to key", dict(tgm=False, key=True), lambda o: o == [tag_of(("call", tfk, (P["key"],), ()))], "[Tag(term=term_from_key(key), value=label)]"),
            # the mappings come before the explicit term / key in the documented cascade (F22)
            ("tag_mapping hit beats explicit term", dict(term=True, tgm=True), lambda o: all(any(x == ("sym", "tag_mapping[label]") for x in walk(t)) for t in o) and bool(o), "tag_mapping[label] (as a list) -- a mapping hit comes before the explicit term"),
            ("key_mapping hit beats explicit term", dict(term=True, km=True), lambda o: o == [tag_of(("call", tfk, (("sym", "key_mapping[label]"),), ()))], "[Tag(term=term_from_key(key_mapping[label]), value=label)] -- a mapping hit comes before the explicit term"),
            ("tag_mapping miss, explicit term", dict(term=True, tgm=False), lambda o: o == [tag_of(P["term"])], "[Tag(term=term, value=label)]"),
            ("key_mapping miss, explicit term", dict(term=True, km=False), lambda o: o == [tag_of(P["term"])], "[Tag(term=term, value=label)]"),
            ("term_mapping hit and tag_mapping hit", dict(tm=True, tgm=True), lambda o: o == [tag_of(("sym", "term_mapping[label]"))], "[Tag(term=term_mapping[label], value=label)] (term_mapping is consulted before tag_mapping)"),
        ]
        for name, kw, pred, want in scen:
            outs, err = run(name, **kw)
            if outs is None:
                ctx.undec("R10.6", site, f"scenario `{name}`: {err}")
                continue
            op_ = opaque(outs)
            if op_ and not pred(outs):
                ctx.undec("R10.6", site, f"scenario `{name}`: the result is computed inside {op_}, which the reference tree does not have and the engine could not inline")
                continue
            if pred(outs):
                ctx.ok("R10.6", site, f"scenario `{name}` -> {want[:70]}")
            else:
                ctx.bad("R10.6", file, "label_to_tags", f"scenario `{name}`",
                        f"label_to_tags, scenario `{name}`: returns {[show(o)[:90] for o in outs]} but the documented cascade gives {want}",
                        s.node.lineno, witness={"scenario": name, "options": {k: v for k, v in kw.items()}})
        # tag_fn first (after the empty check): its result is returned when given
        tf = [r for r in s.returns if any(x == ("call", P["tag_fn"], (label,), ()) for x in walk(r.term))]
        first_after_empty = tf and all(("cmp", "isnot", P["tag_fn"], NONE) in conjuncts(r.live) and not any(
            c[0] == "cmp" and any(y in (P["term_mapping"], P["tag_mapping"], P["key_mapping"]) for y in walk(c)) for c in conjuncts(r.live)) for r in tf)
        if first_after_empty:
            ctx.ok("R10.6", site, "tag_fn, when given, is consulted before every mapping")
        elif opaque([r.term for r in s.returns]):
            ctx.undec("R10.6", site, f"tag_fn precedence: the cascade is computed inside {opaque([r.term for r in s.returns])}, which the engine could not inline")
        else:
            ctx.bad("R10.6", file, "label_to_tags", "tag_fn precedence", "tag_fn must be tried first (after the empty-label check), before the mappings", s.node.lineno)

    def check_label_from(self):
        ctx = self.ctx
        s = ctx.summ.of_func(LAB, "label_from_tag")
        file = s.module.relpath
        site = f"{file}:{s.node.lineno} label_from_tag"
        P = {p: ("param", p) for p in s.params}
        tag = P["tag"]
        kft = ("global", "soundevent.data.compat:key_from_term", "func")

        def run(label_fn=False, lm=None, value_only=False):
            def prep(t):
                return self.mapping_scenario(t, P["label_mapping"], tag, lm, ("sym", "label_mapping[tag]"))
            env = {("cmp", "is", P["label_fn"], NONE): not label_fn, ("cmp", "isnot", P["label_fn"], NONE): label_fn, P["value_only"]: value_only,
                   ("cmp", "is", ("sym", "label_mapping[tag]"), NONE): False, ("cmp", "isnot", ("sym", "label_mapping[tag]"), NONE): True,
                   ("cmp", "is", NONE, NONE): True, ("cmp", "isnot", NONE, NONE): False}
            outs = []
            for r in s.returns:
                lv = peval(prep(r.live), env)
                if lv == ("const", True):
                    outs.append(peval(prep(r.term), env))
                elif lv[0] != "const":
                    return None
            return outs

        full = ("fstr", (("call", kft, (("attr", tag, "term"),), ()), P["separator"], ("attr", tag, "value")))
        scen = [
            ("label_fn given", dict(label_fn=True, lm=True, value_only=True), [("call", P["label_fn"], (tag,), ())], "label_fn(tag)"),
            ("label_mapping hit", dict(lm=True, value_only=True), [("sym", "label_mapping[tag]")], "label_mapping[tag]"),
            ("label_mapping miss, value_only", dict(lm=False, value_only=True), [("attr", tag, "value")], "tag.value"),
            ("value_only", dict(value_only=True), [("attr", tag, "value")], "tag.value"),
            ("default", dict(), [full], "f'{key}{separator}{value}'"),
            ("label_mapping miss, default", dict(lm=False), [full], "f'{key}{separator}{value}'"),
        ]
        for name, kw, want, wtxt in scen:
            outs = run(**kw)
            if outs is None:
                ctx.undec("R10.6", site, f"scenario `{name}` not resolved")
            elif outs == want:
                ctx.ok("R10.6", site, f"scenario `{name}` -> {wtxt}")
            else:
                ctx.bad("R10.6", file, "label_from_tag", f"scenario `{name}`",
                        f"label_from_tag, scenario `{name}`: returns {[show(o)[:80] for o in outs]} but the documented cascade gives {wtxt}",
                        s.node.lineno, witness={"scenario": name})
        # label_from_tags
        from sa.sym import normalise_find_first
        s2 = normalise_find_first(ctx.summ.of_func(LAB, "label_from_tags"))
        site = f"{file}:{s2.node.lineno} label_from_tags"
        Q = {p: ("param", p) for p in s2.params}
        tags = Q["tags"]
        kw_spread = ("param", "**" + s2.kwarg) if s2.kwarg else None
        lft = ("global", f"{LAB}:label_from_tag", "func")

        def run2(fn=False, empty=False, sel=False, found=True, idx=False):
            nxt = None
            for e in s2.calls:
                if e.term[1] == ("builtin", "next"):
                    nxt = e.term
            env = {("cmp", "is", Q["seq_label_fn"], NONE): not fn, ("cmp", "isnot", Q["seq_label_fn"], NONE): fn,
                   tags: ("nonempty",) if not empty else (), ("not", tags): empty,
                   ("cmp", "is", Q["select_by_key"], NONE): not sel, ("cmp", "isnot", Q["select_by_key"], NONE): sel,
                   ("cmp", "is", Q["index"], NONE): not idx, ("cmp", "isnot", Q["index"], NONE): idx}
            if nxt is None:
                # a lookup through a dict built over the tags: {key(t): t for t in tags}.get(select_by_key)
                for e in s2.calls:
                    t_ = e.term
                    if t_[1][0] == "attr" and t_[1][2] == "get" and t_[1][1][0] == "comp" and t_[1][1][1] == "dict" \
                            and t_[1][1][3][0][1] == tags and t_[2][:1] == (Q["select_by_key"],):
                        nxt = t_
            if nxt is not None:
                env[("cmp", "is", nxt, NONE)] = not found
                env[("cmp", "isnot", nxt, NONE)] = found
            outs = []
            for r in s2.returns:
                live = r.live
                lv = peval(live, env)
                if lv == ("const", True):
                    outs.append(r.term)
                elif lv[0] != "const":
                    return None, nxt
            return outs, nxt

        def is_lft(t, arg_pred, value_only=None):
            if not (t[0] == "call" and t[1] == lft and len(t[2]) >= 1 and arg_pred(t[2][0])):
                return False
            kws = dict((k, v) for k, v in t[3] if k != "**")
            spread = [v for k, v in t[3] if k == "**"]
            if kw_spread is not None and spread != [kw_spread]:
                return False
            if value_only is True and kws.get("value_only") != ("const", True):
                return False
            if value_only is None and "value_only" in kws:
                return False
            return True

        checks = []
        outs, nxt = run2(fn=True, sel=True, idx=True)
        checks.append(("seq_label_fn given", outs, lambda o: o == [("call", Q["seq_label_fn"], (tags,), ())], "seq_label_fn(tags)"))
        outs, _ = run2(fn=True, empty=True, sel=True, found=False, idx=True)
        checks.append(("seq_label_fn given, no tags", outs, lambda o: o == [("call", Q["seq_label_fn"], (tags,), ())], "seq_label_fn(tags) (the caller's function decides about an empty tag list too)"))
        outs, _ = run2(empty=True, sel=True, found=False, idx=True)  # among no tags none is found
        checks.append(("no tags", outs, lambda o: o == [Q["empty_label"]], "empty_label"))
        outs, nxt = run2(sel=True, found=True, idx=True)
        sel_ok = nxt is not None and nxt[2] and nxt[2][0][0] == "comp" and nxt[2][0][3][0][1] == tags and len(nxt[2]) == 2 and nxt[2][1] == NONE and \
            any(x[0] == "cmp" and x[1] == "eq" and Q["select_by_key"] in (x[2], x[3]) for x in nxt[2][0][3][0][2])
        if nxt is not None and nxt[1][0] == "attr" and nxt[1][2] == "get":
            ctx.bad("R10.6", file, "label_from_tags", f"{show(nxt)[:80]}",
                    "the tag for select_by_key is looked up in a dict built over the tags: for a key that occurs twice the dict keeps the LAST "
                    "tag, the documented cascade (and the import direction) take the FIRST", s2.node.lineno,
                    witness={"tags": "[species:Myotis, species:Pipistrellus]", "select_by_key": "species"})
        checks.append(("select_by_key, tag found", outs, lambda o, nxt=nxt: sel_ok and len(o) == 1 and is_lft(o[0], lambda a: a == nxt, value_only=True),
                       "label_from_tag(<first tag with that key>, value_only=True, **kwargs)"))
        outs, _ = run2(sel=True, found=False, idx=True)
        checks.append(("select_by_key, no such tag", outs, lambda o: o == [Q["empty_label"]], "empty_label"))
        outs, _ = run2(idx=True)
        want_i = ("sub", tags, ("bin", "%", Q["index"], ("call", ("builtin", "len"), (tags,), ())))
        checks.append(("index", outs, lambda o: len(o) == 1 and is_lft(o[0], lambda a: a == want_i), "label_from_tag(tags[index % len(tags)], **kwargs)"))
        outs, _ = run2()
        def join_ok(o):
            if len(o) != 1:
                return False
            t = o[0]
            if not (t[0] == "call" and t[1] == ("attr", Q["separator"], "join") and len(t[2]) == 1 and t[2][0][0] == "comp"):
                return False
            c = t[2][0]
            return c[3][0][1] == tags and not c[3][0][2] and is_lft(c[2], lambda a: a == ("elem", c[3][0][0]))
        checks.append(("join", outs, join_ok, "separator.join(label_from_tag(tag, **kwargs) for tag in tags)"))
        # R10.7: an option of label_from_tag that reaches label_from_tags through **kwargs (value_only, label_fn, label_mapping ...) must
        # not ALSO be passed explicitly next to the spread: Python then raises TypeError (multiple values) for every caller that
        # sets the option -- and the property quantifies over every combination of the options
        named2 = set(s2.params)
        lft_params = set(s.params)
        clash = None
        for x in ast.walk(s2.node):
            if isinstance(x, ast.Call) and s2.kwarg and any(k.arg is None and isinstance(k.value, ast.Name) and k.value.id == s2.kwarg for k in x.keywords):
                tgt = ast.unparse(x.func).split(".")[-1]
                if tgt == "label_from_tag":
                    for k in x.keywords:
                        if k.arg is not None and k.arg in lft_params and k.arg not in named2:
                            clash = clash or (k.arg, x)
        if clash:
            ctx.bad("R10.7", file, "label_from_tags", f"label_from_tag(..., {clash[0]}=..., **{s2.kwarg})",
                    f"label_from_tags fixes `{clash[0]}` explicitly in a call that also spreads its own **{s2.kwarg}: `{clash[0]}` is an option "
                    f"of label_from_tag that callers pass through **{s2.kwarg}, so label_from_tags(tags, select_by_key=..., {clash[0]}=...) "
                    f"raises TypeError (multiple values for keyword argument) instead of producing a label", clash[1].lineno,
                    witness={"call": f"label_from_tags(tags, select_by_key='animal', {clash[0]}=False)", "observed": "TypeError"})
        else:
            ctx.ok("R10.7", site, "no option of label_from_tag is both fixed explicitly and spread from **kwargs")
        for name, outs, pred, wtxt in checks:
            if outs is None:
                ctx.undec("R10.6", site, f"scenario `{name}` not resolved")
            elif opaque(outs) and not pred(outs):
                ctx.undec("R10.6", site, f"scenario `{name}`: the result is computed inside {opaque(outs)}, which the reference tree does not have and the engine could not inline")
            elif pred(outs):
                ctx.ok("R10.6", site, f"scenario `{name}` -> {wtxt[:70]}")
            else:
                ctx.bad("R10.6", file, "label_from_tags", f"scenario `{name}`",
                        f"label_from_tags, scenario `{name}`: returns {[show(o)[:90] for o in outs]} but the documented cascade gives {wtxt}",
                        s2.node.lineno, witness={"scenario": name})


def run(ctx: Ctx):
    ctx.rule("R10.1", "dimension analysis of imported coordinates on every path", 30)
    ctx.rule("R10.9", "annotation-level converters dispatch on the format and accept what is convertible", 2)
    ctx.rule("R10.8", "every imported coordinate is read from its own field of the element, on every path", 30)
    ctx.rule("R10.2", "export fields from bounds positions; floor sample indices; Nyquist cap", 12)
    ctx.rule("R10.3", "cast / raise switches reject exactly the documented cases", 4)
    ctx.rule("R10.4", "skip iff ignore_errors else re-raise; append outside handler", 4)
    ctx.rule("R10.5", "one output per input in input order", 5)
    ctx.rule("R10.6", "label cascades return what the documented option order prescribes", 22)
    ctx.rule("R10.7", "options forwarded through **kwargs are not also fixed explicitly (no duplicate-keyword TypeError)", 1)
    c = C10(ctx)
    c.check_import_units()
    c.check_export()
    c.check_policy()
    c.check_annotation_dispatch()
    c.check_label_to_tags()
    c.check_label_from()
    # labels are written as key_from_term(tag.term) + separator + value and parsed back through term_from_key: "labels preserved"
    # rests on that codec (a key that is not the term's label exports another label and select_by_key no longer finds the tag)
    from .c01 import check_term_codec
    with ctx.delegated("C01/"):
        ctx.rule("R01.7", "term codec: key_from_term is the label, term_from_key rebuilds it", 2)
        check_term_codec(ctx)
    return EXPLANATION, ASSUMPTIONS
